(* C14, the other direction: every sentence of the grammar of sexpr.bnf is ACCEPTED by the LR driver over the gocc
   tables, with the tree of the semantic actions.

   LR(1) item sets are COMPUTED here from the transcribed tables and grammar (closure + propagation along the
   automaton's edges, iterated to a fixed point by vm_compute); nothing about that computation is trusted or proved:
   a boolean validator `complete_ok` checks the result (initial item, closure, shift / goto / reduce / accept actions
   present where the items demand them, first sets closed, no empty right-hand side), and the generic theorem
        complete_ok = true  ->  derives g_start toks v  ->  parse_tokens toks = Accept v
   is proved by mutual induction on the derivation (the parser simulates the derivation: Jourdan-Pottier-Leroy's
   completeness validator, redone for gocc's table layout and without nullable symbols). *)
From Coq Require Import List NArith ZArith Bool Lia String.
From GMK Require Import TableTypes gen.Tables gen.GrammarGen LexDriver LRDriver Grammar LexSpec LRSpec CorrBase.
Import ListNotations.
Local Open Scope list_scope.
Local Open Scope nat_scope.
Local Notation length := List.length.

(* ------------------------------------------------------------------------------------------------------------ *)
(* Items, first sets, the computed item table                                                                    *)
(* ------------------------------------------------------------------------------------------------------------ *)
Definition item := (nat * nat * nat)%type.        (* production, dot position, lookahead terminal *)
Definition item_eqb (x y : item) : bool :=
  let '(p, d, a) := x in let '(p', d', a') := y in Nat.eqb p p' && Nat.eqb d d' && Nat.eqb a a'.
Definition mem_item (x : item) (l : list item) : bool := existsb (item_eqb x) l.
Definition mem_nat (x : nat) (l : list nat) : bool := existsb (Nat.eqb x) l.

Lemma item_eqb_eq : forall x y, item_eqb x y = true -> x = y.
Proof.
  intros [[p d] a] [[p' d'] a']; simpl; intros H.
  apply andb_prop in H. destruct H as [H Ha]. apply andb_prop in H. destruct H as [Hp Hd].
  apply Nat.eqb_eq in Hp, Hd, Ha. subst. reflexivity.
Qed.
Lemma mem_item_In : forall x l, mem_item x l = true -> In x l.
Proof.
  intros x l H. unfold mem_item in H. apply existsb_exists in H. destruct H as [y [Hy He]].
  apply item_eqb_eq in He. subst. exact Hy.
Qed.
Lemma mem_nat_In : forall x l, mem_nat x l = true -> In x l.
Proof.
  intros x l H. unfold mem_nat in H. apply existsb_exists in H. destruct H as [y [Hy He]].
  apply Nat.eqb_eq in He. subst. exact Hy.
Qed.
Lemma In_mem_nat : forall x l, In x l -> mem_nat x l = true.
Proof. intros x l H. unfold mem_nat. apply existsb_exists. exists x. split; auto. apply Nat.eqb_refl. Qed.

Definition rhs_of (p : nat) : list symbol := match nth_error g_prods p with Some (_, rhs, _) => rhs | None => [] end.
Definition lhs_of (p : nat) : nat := match nth_error g_prods p with Some (lhs, _, _) => lhs | None => 0 end.
Definition prod_ids : list nat := seq 0 (length g_prods).

Definition add_nat (x : nat) (l : list nat) : list nat := if mem_nat x l then l else l ++ [x].
Definition union_nat (a b : list nat) : list nat := fold_left (fun acc x => add_nat x acc) b a.
Definition add_item (x : item) (l : list item) : list item := if mem_item x l then l else l ++ [x].
Definition union_item (a b : list item) : list item := fold_left (fun acc x => add_item x acc) b a.

Fixpoint iter {A} (n : nat) (f : A -> A) (x : A) : A := match n with O => x | S k => iter k f (f x) end.

(* FIRST of a nonterminal (no symbol of this grammar derives the empty string: checked by the validator) *)
Definition first_step (F : list (list nat)) : list (list nat) :=
  map (fun n => fold_left (fun acc (pr : nat * list symbol * tmpl) =>
                             let '(lhs, rhs, _) := pr in
                             if Nat.eqb lhs n then
                               match rhs with
                               | T t :: _ => add_nat t acc
                               | NT m :: _ => union_nat acc (nth m F [])
                               | [] => acc
                               end
                             else acc) g_prods (nth n F []))
      (seq 0 p_num_nt).
Definition first_tab : list (list nat) := iter (S p_num_nt) first_step (map (fun _ => []) (seq 0 p_num_nt)).
Definition first_nt (n : nat) : list nat := nth n first_tab [].
Definition first_sym (X : symbol) : list nat := match X with T t => [t] | NT n => first_nt n end.
Definition firstla (beta : list symbol) (a : nat) : list nat :=
  match beta with [] => [a] | X :: _ => first_sym X end.

Definition closure1 (I : list item) : list item :=
  flat_map (fun it : item =>
              let '(p, d, a) := it in
              match nth_error (rhs_of p) d with
              | Some (NT n) =>
                flat_map (fun p' => if Nat.eqb (lhs_of p') n
                                    then map (fun b => (p', 0, b)) (firstla (skipn (S d) (rhs_of p)) a)
                                    else []) prod_ids
              | _ => []
              end) I.
Definition advance_into (I : list (list item)) (s : nat) : list item :=
  flat_map (fun q => flat_map (fun it : item =>
                                 let '(p, d, a) := it in
                                 match nth_error (rhs_of p) d with
                                 | Some X => if edge_b q X s then [(p, S d, a)] else []
                                 | None => []
                                 end) (nth q I [])) states.
Definition items_step (I : list (list item)) : list (list item) :=
  map (fun s => union_item (union_item (nth s I []) (closure1 (nth s I []))) (advance_into I s)) states.
Definition items0 : list (list item) := map (fun s => if Nat.eqb s 0 then [(0, 0, tok_EOF)] else []) states.
(* the longest right-hand side has 7 symbols and the deepest nesting of closures is the number of nonterminals:
   30 rounds are far more than the fixed point needs; the validator decides, not this number *)
Definition items_tab : list (list item) := Eval vm_compute in iter 30 items_step items0.
Definition items_at (s : nat) : list item := nth s items_tab [].

(* ------------------------------------------------------------------------------------------------------------ *)
(* The validator                                                                                                *)
(* ------------------------------------------------------------------------------------------------------------ *)
Definition item_ok (s : nat) (it : item) : bool :=
  let '(p, d, a) := it in
  match nth_error (rhs_of p) d with
  | Some (T t) =>
    match act s t with AShift s' => mem_item (p, S d, a) (items_at s') | _ => false end
  | Some (NT n) =>
    match gto s n with Some s' => mem_item (p, S d, a) (items_at s') | None => false end
    && forallb (fun p' => negb (Nat.eqb (lhs_of p') n)
                          || forallb (fun b => mem_item (p', 0, b) (items_at s))
                                     (firstla (skipn (S d) (rhs_of p)) a)) prod_ids
  | None =>
    Nat.eqb d (length (rhs_of p))
    && (if Nat.eqb p 0 then action_eqb (act s a) AAccept else action_eqb (act s a) (AReduce p))
  end.

Definition first_ok : bool :=
  forallb (fun pr : nat * list symbol * tmpl =>
             let '(lhs, rhs, _) := pr in
             match rhs with
             | [] => false
             | X :: _ => forallb (fun t => mem_nat t (first_nt lhs)) (first_sym X)
             end) g_prods.

(* the augmented start symbol is the left-hand side of production 0 only and occurs in no right-hand side *)
Definition start_ok : bool :=
  Nat.eqb (lhs_of 0) 0
  && match rhs_of 0 with [NT n] => Nat.eqb n g_start | _ => false end
  && forallb (fun p => Nat.eqb p 0 || negb (Nat.eqb (lhs_of p) 0)) prod_ids
  && forallb (fun pr : nat * list symbol * tmpl =>
                forallb (fun X => match X with NT 0 => false | _ => true end) (snd (fst pr))) g_prods.

Definition complete_ok : bool :=
  mem_item (0, 0, tok_EOF) (items_at 0)
  && forallb (fun s => forallb (item_ok s) (items_at s)) states
  && first_ok && start_ok.

Lemma complete_ok_true : complete_ok = true.
Proof. vm_compute. reflexivity. Qed.

(* ------------------------------------------------------------------------------------------------------------ *)
(* What the validator gives                                                                                     *)
(* ------------------------------------------------------------------------------------------------------------ *)
Record cparts : Prop := mkCParts {
  cp_init : In (0, 0, tok_EOF) (items_at 0);
  cp_item : forall s it, s < p_num_states -> In it (items_at s) -> item_ok s it = true;
  cp_first : first_ok = true;
  cp_start : start_ok = true }.

Lemma complete_ok_parts : complete_ok = true -> cparts.
Proof.
  unfold complete_ok. intros H.
  apply andb_prop in H. destruct H as [H Hs]. apply andb_prop in H. destruct H as [H Hf].
  apply andb_prop in H. destruct H as [Hi Ha].
  constructor; auto.
  - apply mem_item_In. exact Hi.
  - intros s it Hs' Hin. rewrite forallb_forall in Ha.
    assert (Hst : In s states) by (apply in_seq; lia). specialize (Ha s Hst).
    rewrite forallb_forall in Ha. apply Ha. exact Hin.
Qed.

Lemma items_at_nil : forall s, p_num_states <= s -> items_at s = [].
Proof.
  intros s Hs. unfold items_at. apply nth_overflow.
  replace (length items_tab) with p_num_states by (vm_compute; reflexivity). exact Hs.
Qed.

Section Complete.
Context (o : oracles).
Hypothesis Hparts : lr_parts.
Hypothesis Hc : cparts.

Lemma item_state_bound : forall s it, In it (items_at s) -> s < p_num_states.
Proof.
  intros s it Hin. destruct (Nat.lt_ge_cases s p_num_states) as [H|H]; auto.
  rewrite (items_at_nil s H) in Hin. destruct Hin.
Qed.

Lemma act_some : forall s t a, act s t = a -> a <> ANone -> action_at s t = Some a.
Proof.
  intros s t a H Hn. unfold act in H. destruct (action_at s t) as [x|]; [subst; reflexivity|]. congruence.
Qed.

(* ---- first sets ---- *)
Lemma first_prod : forall lhs X rest tm, In (lhs, X :: rest, tm) g_prods ->
  forall t, In t (first_sym X) -> In t (first_nt lhs).
Proof.
  intros lhs X rest tm Hin t Ht. pose proof (cp_first Hc) as Hf. unfold first_ok in Hf.
  rewrite forallb_forall in Hf. specialize (Hf _ Hin). simpl in Hf.
  rewrite forallb_forall in Hf. apply mem_nat_In. apply Hf. exact Ht.
Qed.
Lemma prod_nonempty : forall lhs tm, ~ In (lhs, [], tm) g_prods.
Proof.
  intros lhs tm Hin. pose proof (cp_first Hc) as Hf. unfold first_ok in Hf.
  rewrite forallb_forall in Hf. specialize (Hf _ Hin). simpl in Hf. discriminate.
Qed.

Scheme derives_mut := Induction for derives Sort Prop
  with derives_seq_mut := Induction for derives_seq Sort Prop.

Lemma first_sound :
  (forall n w v, derives o n w v -> exists t w', w = t :: w' /\ In (fst t) (first_nt n)) /\
  (forall g w X, derives_seq o g w X ->
     match g with
     | [] => w = []
     | Y :: _ => exists t w', w = t :: w' /\ In (fst t) (first_sym Y)
     end).
Proof.
  assert (H : forall n w v (d : derives o n w v), exists t w', w = t :: w' /\ In (fst t) (first_nt n)).
  { apply (derives_mut o
             (fun n w v _ => exists t w', w = t :: w' /\ In (fst t) (first_nt n))
             (fun g w X _ => match g with
                             | [] => w = []
                             | Y :: _ => exists t w', w = t :: w' /\ In (fst t) (first_sym Y)
                             end)).
    - intros lhs rhs tm w X v Hin Hseq IH Happ.
      destruct rhs as [|Y rest]; [exfalso; eapply prod_nonempty; eauto|].
      destruct IH as [t [w' [Hw Ht]]]. exists t, w'. split; auto. eapply first_prod; eauto.
    - reflexivity.
    - intros ty tok rest w X Hty Hseq IH. exists tok, w. split; auto. simpl. left. symmetry. exact Hty.
    - intros n w1 v rest w X Hd [t [w' [Hw Ht]]] Hseq IH. subst w1. exists t, (w' ++ w). split; auto. }
  split; [intros n w v d; exact (H n w v d)|].
  intros g w X Hs. induction Hs as [|ty tok rest w X Hty Hseq IH|n w1 v rest w X Hd Hseq IH].
  - reflexivity.
  - exists tok, w. split; auto. simpl. left. symmetry. exact Hty.
  - destruct (H _ _ _ Hd) as [t [w' [Hw Ht]]]. subst w1. exists t, (w' ++ w). split; auto.
Qed.

(* ---- configurations and steps ---- *)
Definition hd_tok (l : list token) : token := match l with [] => eof_token | t :: _ => t end.
Definition la (l : list token) : nat := fst (hd_tok l).
Definition tail_inp (l : list token) : input := (tl l, LEnd).

Inductive Steps : nat -> stack -> list token -> stack -> list token -> Prop :=
| St_refl : forall stk l, Steps 0 stk l stk l
| St_step : forall k stk l stk1 l1 stk2 l2,
    lr_step o stk (hd_tok l) (tail_inp l) = inr (stk1, hd_tok l1, tail_inp l1) ->
    Steps k stk1 l1 stk2 l2 -> Steps (S k) stk l stk2 l2.

Lemma steps_trans : forall k1 a la1 b lb, Steps k1 a la1 b lb ->
  forall k2 c lc, Steps k2 b lb c lc -> Steps (k1 + k2) a la1 c lc.
Proof.
  induction 1 as [|k stk l stk1 l1 stk2 l2 Hs Hr IH]; intros k2 c lc H2; simpl; auto.
  econstructor; eauto.
Qed.

Lemma steps_one : forall stk l stk1 l1,
  lr_step o stk (hd_tok l) (tail_inp l) = inr (stk1, hd_tok l1, tail_inp l1) -> Steps 1 stk l stk1 l1.
Proof. intros. econstructor; eauto. constructor. Qed.

Lemma steps_loop : forall k stk l stk' l', Steps k stk l stk' l' ->
  forall f, lr_loop o (k + f) stk (hd_tok l) (tail_inp l) = lr_loop o f stk' (hd_tok l') (tail_inp l').
Proof.
  induction 1 as [|k stk l stk1 l1 stk2 l2 Hs Hr IH]; intros f; simpl; auto.
  rewrite Hs. apply IH.
Qed.

Lemma pull_tail : forall l, pull (tail_inp l) = PTok (hd_tok (tl l)) (tail_inp (tl l)).
Proof. intros l. unfold tail_inp. destruct (tl l) as [|t ts]; reflexivity. Qed.

(* shift *)
Lemma shift_step : forall s a0 stk0 tok l s',
  act s (fst tok) = AShift s' ->
  Steps 1 ((s, a0) :: stk0) (tok :: l) ((s', ATok tok) :: (s, a0) :: stk0) l.
Proof.
  intros s a0 stk0 tok l s' Ha. apply steps_one. unfold lr_step. simpl hd_tok.
  rewrite (act_some _ _ _ Ha) by discriminate.
  change (tail_inp (tok :: l)) with (l, LEnd).
  destruct l as [|t ts]; reflexivity.
Qed.

(* reduce *)
Lemma reduce_step : forall top q b rest l p lhs rhs tm v s' s_end a_end,
  top ++ (q, b) :: rest = (s_end, a_end) :: tl (top ++ (q, b) :: rest) ->
  act s_end (la l) = AReduce p ->
  nth_error g_prods p = Some (lhs, rhs, tm) ->
  length top = length rhs ->
  apply_tmpl o tm (rev (map snd top)) = ROk (ASx v) ->
  gto q lhs = Some s' ->
  Steps 1 (top ++ (q, b) :: rest) l ((s', ASx v) :: (q, b) :: rest) l.
Proof.
  intros top q b rest l p lhs rhs tm v s' s_end a_end Hhd Hact Hp Hlen Happ Hg.
  apply steps_one. unfold lr_step. rewrite Hhd. unfold la in Hact.
  rewrite (act_some _ _ _ Hact) by discriminate.
  assert (Hpt : nth_error prod_tab p = Some (lhs, length rhs, tm)).
  { rewrite <- (lp_prods Hparts). rewrite nth_error_map. rewrite Hp. reflexivity. }
  rewrite Hpt. rewrite <- Hhd.
  replace (length (top ++ (q, b) :: rest) <? length rhs) with false
    by (symmetry; apply Nat.ltb_ge; rewrite app_length; simpl; lia).
  rewrite <- Hlen. rewrite firstn_app, Nat.sub_diag, firstn_all. simpl firstn. rewrite app_nil_r.
  rewrite skipn_app, Nat.sub_diag, skipn_all. simpl skipn. rewrite app_nil_l.
  rewrite Happ. rewrite (goto_at_gto _ _ _ Hg). reflexivity.
Qed.

(* ---- the simulation ---- *)
Definition top_state (stk : stack) : nat := match stk with (s, _) :: _ => s | [] => 0 end.

Lemma item_shift : forall s p d a t, In (p, d, a) (items_at s) -> nth_error (rhs_of p) d = Some (T t) ->
  exists s', act s t = AShift s' /\ In (p, S d, a) (items_at s').
Proof.
  intros s p d a t Hin Hn. pose proof (cp_item Hc s _ (item_state_bound _ _ Hin) Hin) as Hok.
  unfold item_ok in Hok. rewrite Hn in Hok.
  destruct (act s t) as [|s'|r|]; try discriminate. exists s'. split; auto. apply mem_item_In. exact Hok.
Qed.

Lemma item_goto : forall s p d a n, In (p, d, a) (items_at s) -> nth_error (rhs_of p) d = Some (NT n) ->
  (exists s', gto s n = Some s' /\ In (p, S d, a) (items_at s')) /\
  (forall p' b, p' < length g_prods -> lhs_of p' = n -> In b (firstla (skipn (S d) (rhs_of p)) a) ->
                In (p', 0, b) (items_at s)).
Proof.
  intros s p d a n Hin Hn. pose proof (cp_item Hc s _ (item_state_bound _ _ Hin) Hin) as Hok.
  unfold item_ok in Hok. rewrite Hn in Hok. apply andb_prop in Hok. destruct Hok as [Hg Hcl]. split.
  - destruct (gto s n) as [s'|]; try discriminate. exists s'. split; auto. apply mem_item_In. exact Hg.
  - intros p' b Hp' Hl Hb. rewrite forallb_forall in Hcl.
    assert (Hpi : In p' prod_ids) by (apply in_seq; lia). specialize (Hcl p' Hpi).
    rewrite Hl, Nat.eqb_refl in Hcl. simpl in Hcl. rewrite forallb_forall in Hcl.
    apply mem_item_In. apply Hcl. exact Hb.
Qed.

Lemma item_reduce : forall s p a, In (p, length (rhs_of p), a) (items_at s) ->
  if Nat.eqb p 0 then act s a = AAccept else act s a = AReduce p.
Proof.
  intros s p a Hin. pose proof (cp_item Hc s _ (item_state_bound _ _ Hin) Hin) as Hok.
  unfold item_ok in Hok.
  replace (nth_error (rhs_of p) (length (rhs_of p))) with (@None symbol) in Hok
    by (symmetry; apply nth_error_None; lia).
  apply andb_prop in Hok. destruct Hok as [_ Hok].
  destruct (Nat.eqb p 0); apply action_eqb_eq in Hok; exact Hok.
Qed.

Lemma lhs_nonzero : forall p, p < length g_prods -> p <> 0 -> lhs_of p <> 0.
Proof.
  intros p Hp Hne. pose proof (cp_start Hc) as Hs. unfold start_ok in Hs.
  apply andb_prop in Hs. destruct Hs as [Hs _]. apply andb_prop in Hs. destruct Hs as [_ Hs].
  rewrite forallb_forall in Hs. assert (Hpi : In p prod_ids) by (apply in_seq; lia).
  specialize (Hs p Hpi). apply orb_prop in Hs. destruct Hs as [Hs|Hs].
  - apply Nat.eqb_eq in Hs. contradiction.
  - apply negb_true_iff in Hs. apply Nat.eqb_neq in Hs. exact Hs.
Qed.

Lemma no_start_in_rhs : forall p d, nth_error (rhs_of p) d <> Some (NT 0).
Proof.
  intros p d Hn. pose proof (cp_start Hc) as Hs. unfold start_ok in Hs.
  apply andb_prop in Hs. destruct Hs as [_ Hs]. rewrite forallb_forall in Hs.
  unfold rhs_of in Hn. destruct (nth_error g_prods p) as [[[lhs rhs] tm]|] eqn:Ep.
  - apply nth_error_In in Ep. specialize (Hs _ Ep). simpl in Hs. rewrite forallb_forall in Hs.
    apply nth_error_In in Hn. specialize (Hs _ Hn). simpl in Hs. discriminate.
  - destruct d; discriminate.
Qed.

Lemma skipn_nth : forall {A} (l : list A) d x r, skipn d l = x :: r -> nth_error l d = Some x /\ skipn (S d) l = r.
Proof.
  intros A l. induction l as [|y l IH]; intros d x r H.
  - destruct d; discriminate.
  - destruct d as [|d]; simpl in H.
    + inversion H; subst. split; reflexivity.
    + apply IH in H. destruct H as [H1 H2]. split; auto.
Qed.

Lemma skipn_nil_len : forall {A} (l : list A) d, skipn d l = [] -> d <= length l -> d = length l.
Proof.
  intros A l. induction l as [|y l IH]; intros d H Hl.
  - destruct d as [|d]; [reflexivity|]. cbn in Hl. lia.
  - destruct d as [|d]; cbn in H; [discriminate|]. cbn in Hl. cbn. f_equal. apply IH; auto. lia.
Qed.

Definition Pd (n : nat) (w : list token) (v : sx) (_ : derives o n w v) : Prop :=
  forall s a0 stk0 rest p d a,
    In (p, d, a) (items_at s) -> nth_error (rhs_of p) d = Some (NT n) ->
    In (la rest) (firstla (skipn (S d) (rhs_of p)) a) ->
    exists k s', gto s n = Some s' /\
                 Steps k ((s, a0) :: stk0) (w ++ rest) ((s', ASx v) :: (s, a0) :: stk0) rest.

Definition Ps (g : list symbol) (w : list token) (X : list attr) (_ : derives_seq o g w X) : Prop :=
  forall s a0 stk0 rest p d a,
    In (p, d, a) (items_at s) -> skipn d (rhs_of p) = g -> d <= length (rhs_of p) -> la rest = a ->
    exists k top s_end a_end,
      Steps k ((s, a0) :: stk0) (w ++ rest) (top ++ (s, a0) :: stk0) rest /\
      rev (map snd top) = X /\ length top = length g /\
      top ++ (s, a0) :: stk0 = (s_end, a_end) :: tl (top ++ (s, a0) :: stk0) /\
      In (p, length (rhs_of p), a) (items_at s_end).

Lemma simulate : forall n w v (H : derives o n w v), Pd n w v H.
Proof.
  apply (derives_mut o Pd Ps); unfold Pd, Ps.
  - (* a production *)
    intros lhs rhs tm w X v Hin Hseq IH Happ s a0 stk0 rest p d a Hit Hn Hla.
    destruct (item_goto _ _ _ _ _ Hit Hn) as [[s' [Hg Hit']] Hcl].
    destruct (In_nth_error _ _ Hin) as [p' Hp'].
    assert (Hp'lt : p' < length g_prods) by (apply nth_error_Some; congruence).
    assert (Hlhs : lhs_of p' = lhs) by (unfold lhs_of; rewrite Hp'; reflexivity).
    assert (Hrhs : rhs_of p' = rhs) by (unfold rhs_of; rewrite Hp'; reflexivity).
    pose proof (Hcl p' (la rest) Hp'lt Hlhs Hla) as Hit0.
    destruct (IH s a0 stk0 rest p' 0 (la rest) Hit0) as (k & top & s_end & a_end & Hst & HX & Hlen & Hhd & Hend);
      [rewrite Hrhs; reflexivity|lia|reflexivity|].
    assert (Hne : p' <> 0).
    { intro E. subst p'. pose proof (cp_start Hc) as Hs. unfold start_ok in Hs.
      apply andb_prop in Hs. destruct Hs as [Hs _]. apply andb_prop in Hs. destruct Hs as [Hs _].
      apply andb_prop in Hs. destruct Hs as [Hs _]. apply Nat.eqb_eq in Hs. rewrite Hs in Hlhs. subst lhs.
      exact (no_start_in_rhs _ _ Hn). }
    pose proof (item_reduce _ _ _ Hend) as Hred.
    replace (Nat.eqb p' 0) with false in Hred by (symmetry; apply Nat.eqb_neq; exact Hne).
    exists (k + 1), s'. split; auto.
    eapply steps_trans; [exact Hst|].
    eapply reduce_step; eauto.
    all: try (rewrite HX; exact Happ).
    all: try (rewrite Hlen; reflexivity).
  - (* [] *)
    intros s a0 stk0 rest p d a Hit Hsk Hd Hla.
    exists 0, [], s, a0. simpl. repeat split; auto; try constructor.
    rewrite <- (skipn_nil_len _ _ Hsk Hd). exact Hit.
  - (* a terminal *)
    intros ty tok g w X Hty Hseq IH s a0 stk0 rest p d a Hit Hsk Hd Hla.
    destruct (skipn_nth _ _ _ _ Hsk) as [Hn Hsk'].
    destruct (item_shift _ _ _ _ _ Hit Hn) as [s1 [Hact Hit1]].
    assert (Hd' : S d <= length (rhs_of p)) by (apply nth_error_Some; congruence).
    destruct (IH s1 (ATok tok) ((s, a0) :: stk0) rest p (S d) a Hit1 Hsk' Hd' Hla)
      as (k & top & s_end & a_end & Hst & HX & Hlen & Hhd & Hend).
    exists (1 + k), (top ++ [(s1, ATok tok)]), s_end, a_end.
    rewrite <- app_assoc. simpl app. repeat split; auto.
    + eapply steps_trans; [|exact Hst]. apply shift_step. rewrite Hty. exact Hact.
    + rewrite map_app, rev_app_distr. simpl. rewrite HX. reflexivity.
    + rewrite app_length. simpl. lia.
  - (* a nonterminal *)
    intros n w1 v g w X Hd1 IH1 Hseq IHs s a0 stk0 rest p d a Hit Hsk Hd Hla.
    destruct (skipn_nth _ _ _ _ Hsk) as [Hn Hsk'].
    assert (Hd' : S d <= length (rhs_of p)) by (apply nth_error_Some; congruence).
    assert (Hla' : In (la (w ++ rest)) (firstla (skipn (S d) (rhs_of p)) a)).
    { rewrite Hsk'. pose proof (proj2 first_sound _ _ _ Hseq) as Hf. destruct g as [|Y g'].
      - subst w. simpl. left. symmetry. exact Hla.
      - destruct Hf as [t [w' [Hw Ht]]]. subst w. simpl. exact Ht. }
    destruct (IH1 s a0 stk0 (w ++ rest) p d a Hit Hn Hla') as (k1 & s1 & Hg & Hst1).
    destruct (item_goto _ _ _ _ _ Hit Hn) as [[s1' [Hg' Hit1]] _].
    rewrite Hg in Hg'. inversion Hg'; subst s1'.
    destruct (IHs s1 (ASx v) ((s, a0) :: stk0) rest p (S d) a Hit1 Hsk' Hd' Hla)
      as (k & top & s_end & a_end & Hst & HX & Hlen & Hhd & Hend).
    exists (k1 + k), (top ++ [(s1, ASx v)]), s_end, a_end.
    rewrite <- !app_assoc. simpl app. repeat split; auto.
    + eapply steps_trans; [exact Hst1|exact Hst].
    + rewrite map_app, rev_app_distr. simpl. rewrite HX. reflexivity.
    + rewrite app_length. simpl. lia.
Qed.

(* ---- fuel ---- *)
Lemma lr_loop_mono : forall f stk tok inp r, lr_loop o f stk tok inp = r -> r <> OutOfFuel ->
  forall f', f <= f' -> lr_loop o f' stk tok inp = r.
Proof.
  induction f as [|f IH]; intros stk tok inp r H Hr f' Hle; simpl in H; [congruence|].
  destruct f' as [|f']; [lia|]. simpl.
  destruct (lr_step o stk tok inp) as [out|[[stk' tok'] inp']]; auto. apply IH; auto. lia.
Qed.

Theorem parse_tokens_complete : forall toks v, Forall real_token toks ->
  derives o g_start toks v -> parse_tokens o toks = Accept v.
Proof.
  intros toks v Hreal Hd.
  pose proof (cp_start Hc) as Hs. unfold start_ok in Hs.
  apply andb_prop in Hs. destruct Hs as [Hs _]. apply andb_prop in Hs. destruct Hs as [Hs _].
  apply andb_prop in Hs. destruct Hs as [_ Hr0].
  destruct (rhs_of 0) as [|[t|n] [|Y r]] eqn:Er0; try discriminate. apply Nat.eqb_eq in Hr0. subst n.
  assert (Hn0 : nth_error (rhs_of 0) 0 = Some (NT g_start)) by (rewrite Er0; reflexivity).
  pose proof (simulate _ _ _ Hd 0 (ASx XNil) [] [] 0 0 tok_EOF (cp_init Hc) Hn0) as Hsim.
  destruct Hsim as (k & s' & Hg & Hst); [rewrite Er0; simpl; left; reflexivity|].
  destruct (item_goto _ _ _ _ _ (cp_init Hc) Hn0) as [[s1 [Hg1 Hit1]] _].
  rewrite Hg in Hg1. inversion Hg1; subst s1.
  assert (Hend : In (0, length (rhs_of 0), tok_EOF) (items_at s')) by (rewrite Er0; exact Hit1).
  pose proof (item_reduce _ _ _ Hend) as Hacc. simpl in Hacc.
  rewrite app_nil_r in Hst.
  (* one more iteration accepts *)
  assert (Hfin : lr_loop o (k + 1) init_stack (hd_tok toks) (tail_inp toks) = Accept v).
  { unfold init_stack. rewrite (steps_loop _ _ _ _ _ Hst 1). simpl. unfold lr_step.
    change (fst (hd_tok [])) with tok_EOF.
    rewrite (act_some _ _ _ Hacc) by discriminate. reflexivity. }
  pose proof (parse_tokens_inv o Hparts toks Hreal) as Hinv.
  unfold parse_tokens, parse_input in *.
  assert (Hpull : pull (toks, LEnd) = PTok (hd_tok toks) (tail_inp toks)) by (destruct toks; reflexivity).
  rewrite Hpull in *. simpl fst in *.
  set (F := lr_fuel (length toks)) in *.
  destruct (Nat.le_ge_cases (k + 1) F) as [Hle|Hge].
  - apply (lr_loop_mono _ _ _ _ _ Hfin); [discriminate|exact Hle].
  - destruct (lr_loop o F init_stack (hd_tok toks) (tail_inp toks)) as [v'| |r|] eqn:E; try contradiction.
    + rewrite (lr_loop_mono _ _ _ _ _ E) in Hfin by (auto; discriminate). exact Hfin.
    + rewrite (lr_loop_mono _ _ _ _ _ E) in Hfin by (auto; discriminate). discriminate.
Qed.
End Complete.
