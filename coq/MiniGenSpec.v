(* mini.DisjPlus / DisjPlusNoZzz / ConjPlus / ConjPlusNoZzz / Conde as translated from mini/disj.go, conj.go, conde.go on
   every run (gen/MiniGen.v): for every argument list the goal they return IS the right-nested binary disjunction /
   conjunction of the (delay-wrapped) arguments, they never panic, and the clauses of C09 hold of these goals. *)
From Coq Require Import List NArith ZArith Bool Lia.
From GMK Require Import Term Unify Goal Stream Den InStream Comb GoLite GoLiteM gen.MiniGen.
Import ListNotations.

(* ---------- what the code returns ---------- *)
Lemma gn_DisjPlusNoZzz_spec : forall f gs, (length gs < f)%nat -> gn_DisjPlusNoZzz f gs = Ret (nest_disj gs).
Proof.
  induction f as [|f IH]; intros gs Hf; [lia|].
  destruct gs as [|g1 [|g2 r]]; try reflexivity.
  cbn [gn_DisjPlusNoZzz length Nat.eqb nth_goal from_goals bind]. rewrite IH by (cbn [length] in *; lia). reflexivity.
Qed.

Lemma gn_DisjPlus_spec : forall f gs, (length gs < f)%nat -> gn_DisjPlus f gs = Ret (nest_disj (map GZzz gs)).
Proof.
  induction f as [|f IH]; intros gs Hf; [lia|].
  destruct gs as [|g1 [|g2 r]]; try reflexivity.
  cbn [gn_DisjPlus length Nat.eqb nth_goal from_goals bind]. rewrite IH by (cbn [length] in *; lia). reflexivity.
Qed.

Lemma gn_ConjPlusNoZzz_spec : forall f gs, (length gs < f)%nat -> gn_ConjPlusNoZzz f gs = Ret (nest_conj gs).
Proof.
  induction f as [|f IH]; intros gs Hf; [lia|].
  destruct gs as [|g1 [|g2 r]]; try reflexivity.
  cbn [gn_ConjPlusNoZzz length Nat.eqb nth_goal from_goals bind]. rewrite IH by (cbn [length] in *; lia). reflexivity.
Qed.

Lemma gn_ConjPlus_spec : forall f gs, (length gs < f)%nat -> gn_ConjPlus f gs = Ret (nest_conj (map GZzz gs)).
Proof.
  induction f as [|f IH]; intros gs Hf; [lia|].
  destruct gs as [|g1 [|g2 r]]; try reflexivity.
  cbn [gn_ConjPlus length Nat.eqb nth_goal from_goals bind]. rewrite IH by (cbn [length] in *; lia). reflexivity.
Qed.

(* Conde: conj[i] = ConjPlus(gs[i]...) for every i, then DisjPlus(conj...) *)
Definition conde_code (gss : list (list goal)) : goal :=
  nest_disj (map GZzz (map (fun gs => nest_conj (map GZzz gs)) gss)).

Lemma set_goal_mid : forall (pre : list goal) (x : goal) (post : list goal) (g : goal),
  set_goal (pre ++ x :: post) (length pre) g = Ret (pre ++ g :: post).
Proof. induction pre as [|a pre IH]; intros x post g; cbn; [reflexivity|]. rewrite IH. reflexivity. Qed.

Lemma gn_Conde_spec : forall f gss, (length gss < f)%nat -> (forall gs, In gs gss -> (length gs < f)%nat) ->
  gn_Conde f gss = Ret (conde_code gss).
Proof.
  intros f gss Hf Hall. unfold gn_Conde, conde_code. cbv zeta.
  (* the loop, generalised: done ++ placeholders, index = length done *)
  assert (L : forall todo done,
    (forall gs, In gs todo -> (length gs < f)%nat) ->
    (fix loop (i : nat) (l_ : list (list goal)) (conj_ : list goal) {struct l_} : R (list goal) :=
       match l_ with
       | [] => Ret conj_
       | v :: tl => bind (bind (gn_ConjPlus f v) (fun t => set_goal conj_ i t)) (fun conj_ => loop (S i) tl conj_)
       end) (length done) todo (done ++ make_goals (length todo))
    = Ret (done ++ map (fun gs => nest_conj (map GZzz gs)) todo)).
  { induction todo as [|v todo IH]; intros done Hl; [reflexivity|].
    rewrite gn_ConjPlus_spec by (apply Hl; left; reflexivity). cbn [bind length make_goals repeat].
    rewrite set_goal_mid. cbn [bind].
    specialize (IH (done ++ [nest_conj (map GZzz v)]) (fun gs H => Hl gs (or_intror H))).
    rewrite app_length in IH. cbn [length] in IH. rewrite Nat.add_1_r in IH.
    rewrite <- !app_assoc in IH. cbn [app] in IH. exact IH. }
  specialize (L gss [] Hall). cbn [length app] in L. rewrite L. cbn [bind].
  apply gn_DisjPlus_spec. rewrite map_length. exact Hf.
Qed.

Theorem mini_code_never_panics : forall f gs gss,
  gn_DisjPlus f gs <> Panic /\ gn_DisjPlusNoZzz f gs <> Panic /\ gn_ConjPlus f gs <> Panic /\ gn_ConjPlusNoZzz f gs <> Panic /\
  ((length gss < f)%nat -> (forall gs, In gs gss -> (length gs < f)%nat) -> gn_Conde f gss <> Panic).
Proof.
  assert (A : forall f gs, gn_DisjPlus f gs <> Panic).
  { induction f as [|f IH]; intros gs; [discriminate|]. destruct gs as [|g1 [|g2 r]]; try discriminate.
    cbn [gn_DisjPlus length Nat.eqb nth_goal from_goals bind]. specialize (IH (g2 :: r)).
    destruct (gn_DisjPlus f (g2 :: r)); [discriminate|discriminate|contradiction]. }
  assert (B : forall f gs, gn_DisjPlusNoZzz f gs <> Panic).
  { induction f as [|f IH]; intros gs; [discriminate|]. destruct gs as [|g1 [|g2 r]]; try discriminate.
    cbn [gn_DisjPlusNoZzz length Nat.eqb nth_goal from_goals bind]. specialize (IH (g2 :: r)).
    destruct (gn_DisjPlusNoZzz f (g2 :: r)); [discriminate|discriminate|contradiction]. }
  assert (C : forall f gs, gn_ConjPlus f gs <> Panic).
  { induction f as [|f IH]; intros gs; [discriminate|]. destruct gs as [|g1 [|g2 r]]; try discriminate.
    cbn [gn_ConjPlus length Nat.eqb nth_goal from_goals bind]. specialize (IH (g2 :: r)).
    destruct (gn_ConjPlus f (g2 :: r)); [discriminate|discriminate|contradiction]. }
  assert (D : forall f gs, gn_ConjPlusNoZzz f gs <> Panic).
  { induction f as [|f IH]; intros gs; [discriminate|]. destruct gs as [|g1 [|g2 r]]; try discriminate.
    cbn [gn_ConjPlusNoZzz length Nat.eqb nth_goal from_goals bind]. specialize (IH (g2 :: r)).
    destruct (gn_ConjPlusNoZzz f (g2 :: r)); [discriminate|discriminate|contradiction]. }
  intros f gs gss. repeat split; auto. intros H1 H2. rewrite gn_Conde_spec by assumption. discriminate.
Qed.

(* ---------- the clauses of C09, on the goals the code returns ---------- *)
Section Clauses.
  Variable ds : defs.
  Variable uf : term -> term -> subst -> nat.
  Local Notation eval := (eval ds uf).
  Local Notation force := (force ds uf).
  Local Notation InStream := (InStream ds uf).
  Local Notation ReachErr := (ReachErr ds uf).

  (* with delay wrapping, disj+: the code's goal evaluates to the very stream of the model's disj+ *)
  Lemma eval_code_disj_z : forall gs e st, eval (nest_disj (map GZzz gs)) e st = eval (GDisjPlus true gs) e st.
  Proof.
    induction gs as [|g1 rest IH]; intros e st; [reflexivity|]. destruct rest as [|g2 r]; [reflexivity|].
    change (map GZzz (g1 :: g2 :: r)) with (GZzz g1 :: GZzz g2 :: map GZzz r).
    rewrite eval_nest_disj_cons. change (GZzz g2 :: map GZzz r) with (map GZzz (g2 :: r)). rewrite IH. reflexivity.
  Qed.

  Theorem code_disj_z_answers : forall gs e st x,
    (forall g, In g gs -> ~ ReachErr (eval g e st)) ->
    (InStream x (eval (nest_disj (map GZzz gs)) e st) <-> InStream x (eval (nest_disj gs) e st)).
  Proof. intros gs e st x H. rewrite eval_code_disj_z. apply (disj_zzz_answers ds uf); exact H. Qed.

  (* with delay wrapping, conj+ *)
  Lemma eval_code_conj_z_cons : forall g1 g2 r e st,
    eval (nest_conj (map GZzz (g1 :: g2 :: r))) e st = SSusp (TBind (TGoal g1 e st) (nest_conj (map GZzz (g2 :: r))) e).
  Proof. reflexivity. Qed.

  Theorem code_conj_z_err : forall gs e st,
    ReachErr (eval (nest_conj (map GZzz gs)) e st) <-> ReachErr (eval (nest_conj gs) e st).
  Proof.
    induction gs as [|g1 rest IH]; intros e st; [reflexivity|].
    destruct rest as [|g2 r].
    - change (eval (nest_conj (map GZzz [g1])) e st) with (SSusp (TGoal g1 e st)).
      rewrite (err_susp ds uf). reflexivity.
    - rewrite eval_code_conj_z_cons, (err_susp ds uf), (force_TBind_TGoal ds uf), (eval_nest_conj_cons ds uf).
      rewrite !(err_bindk_iff ds uf) by (intros th; reflexivity).
      split; (intros [H|[a [Ha H]]]; [left; assumption|right; exists a; split; [assumption|]]);
        apply IH; assumption.
  Qed.

  Theorem code_conj_z_answers : forall gs e st x,
    ~ ReachErr (eval (nest_conj gs) e st) ->
    (InStream x (eval (nest_conj (map GZzz gs)) e st) <-> InStream x (eval (nest_conj gs) e st)).
  Proof.
    induction gs as [|g1 rest IH]; intros e st x Hne; [reflexivity|].
    destruct rest as [|g2 r].
    - change (eval (nest_conj (map GZzz [g1])) e st) with (SSusp (TGoal g1 e st)).
      rewrite (in_susp ds uf). reflexivity.
    - assert (Hne1 : ~ ReachErr (eval (nest_conj (map GZzz (g1 :: g2 :: r))) e st))
        by (rewrite code_conj_z_err; assumption).
      rewrite eval_code_conj_z_cons, (err_susp ds uf), (force_TBind_TGoal ds uf) in Hne1.
      rewrite (eval_nest_conj_cons ds uf) in Hne.
      assert (Hk : forall a, InStream a (eval g1 e st) -> ~ ReachErr (eval (nest_conj (g2 :: r)) e a)).
      { intros a Ha He. apply Hne. apply (err_bindk_iff ds uf); [intros th; reflexivity|].
        right. exists a; split; assumption. }
      rewrite eval_code_conj_z_cons, (in_susp ds uf), (force_TBind_TGoal ds uf), (eval_nest_conj_cons ds uf).
      split; intros H.
      + apply (in_bindk_inv ds uf) in H; [|intros th; reflexivity]. destruct H as [a [Ha Hx]].
        apply (in_bindk ds uf) with (a := a); [intros th; reflexivity|assumption| |assumption].
        apply IH; [apply Hk; assumption|assumption].
      + apply (in_bindk_inv ds uf) in H; [|intros th; reflexivity]. destruct H as [a [Ha Hx]].
        apply (in_bindk ds uf) with (a := a); [intros th; reflexivity|assumption| |assumption].
        apply IH; [apply Hk; assumption|assumption].
  Qed.

  (* Conde *)
  Theorem code_conde_answers : forall gss e st x,
    (forall gs, In gs gss -> ~ ReachErr (eval (nest_conj gs) e st)) ->
    (InStream x (eval (conde_code gss) e st) <-> InStream x (eval (nest_disj (map nest_conj gss)) e st)).
  Proof.
    intros gss e st x Hne. unfold conde_code.
    assert (H1 : forall g, In g (map (fun gs => nest_conj (map GZzz gs)) gss) -> ~ ReachErr (eval g e st)).
    { intros g Hg. apply in_map_iff in Hg. destruct Hg as [gs [<- Hgs]]. rewrite code_conj_z_err. apply Hne; assumption. }
    assert (H2 : forall g, In g (map nest_conj gss) -> ~ ReachErr (eval g e st)).
    { intros g Hg. apply in_map_iff in Hg. destruct Hg as [gs [<- Hgs]]. apply Hne; assumption. }
    rewrite code_disj_z_answers by exact H1. split; intros H.
    - apply (in_nest_disj_inv ds uf) in H. destruct H as [g [Hg Hx]]. apply in_map_iff in Hg. destruct Hg as [gs [<- Hgs]].
      apply (in_nest_disj ds uf) with (g := nest_conj gs); [exact H2|apply in_map; exact Hgs|].
      apply code_conj_z_answers; [apply Hne; assumption|assumption].
    - apply (in_nest_disj_inv ds uf) in H. destruct H as [g [Hg Hx]]. apply in_map_iff in Hg. destruct Hg as [gs [<- Hgs]].
      apply (in_nest_disj ds uf) with (g := nest_conj (map GZzz gs)); [exact H1|apply (in_map (fun gs => nest_conj (map GZzz gs))); exact Hgs|].
      apply code_conj_z_answers; [apply Hne; assumption|assumption].
  Qed.
End Clauses.
