(* C15: the printer's output is a sentence of the grammar of sexpr.bnf, with the printed expression as its tree. *)
From Coq Require Import List NArith ZArith Bool Lia.
From GMK Require Import TableTypes gen.Tables gen.GrammarGen LexDriver LRDriver Grammar Print.
Import ListNotations.

Section PrintSpec.
Context (o : oracles) (atom_tok : sx -> token).

(* the text of the atom a lexes as one token of an atom class whose converter gives a back
   (validated per atom by the harness: strconv.Quote/Unquote, FormatInt/ParseInt, symbol text, "," + name) *)
Definition atom_good (a : sx) : Prop :=
  exists tm, In (nt_Atom, [T (fst (atom_tok a))], tm) g_prods /\ conv o tm (snd (atom_tok a)) = ROk (ASx a).

Fixpoint atoms_good (e : sx) : Prop :=
  match e with
  | XNil => True
  | XCons a d => atoms_good a /\ atoms_good d
  | _ => atom_good e
  end.

Local Notation pr := (print atom_tok).
Local Notation prt := (print_tail atom_tok).

Lemma atom_derives : forall a, is_atom a = true -> atom_good a -> derives o nt_SExpr [atom_tok a] a.
Proof.
  intros a _ [tm [Hin Hc]].
  apply (D_prod o nt_SExpr [NT nt_Atom] (TX 0) [atom_tok a] [ASx a] a).
  - simpl. auto 20.
  - replace [atom_tok a] with ([atom_tok a] ++ []) by reflexivity. constructor; [|constructor].
    apply (D_prod o nt_Atom [T (fst (atom_tok a))] tm [atom_tok a] [ATok (atom_tok a)] a); auto.
    + constructor; [reflexivity|constructor].
    + destruct tm; simpl in Hc |- *; try exact Hc; try discriminate.
  - reflexivity.
Qed.

Lemma pair_derives : forall w v, derives o nt_Pair w v -> derives o nt_SExpr w v.
Proof.
  intros w v H. apply (D_prod o nt_SExpr [NT nt_Pair] (TX 0) w [ASx v] v).
  - simpl. auto 20.
  - replace w with (w ++ []) by apply app_nil_r. constructor; [exact H|constructor].
  - reflexivity.
Qed.

Lemma ds_T : forall (tok : token) rest w X, derives_seq o rest w X ->
  derives_seq o (T (fst tok) :: rest) (tok :: w) (ATok tok :: X).
Proof. intros. constructor; auto. Qed.

Ltac inprods := simpl; auto 20.

(* one lemma per production, in constructor form *)
Lemma pair_nil : derives o nt_Pair [tk_lp; tk_rp] XNil.
Proof.
  apply (D_prod o nt_Pair [T t_lp; T t_rp] TNil [tk_lp; tk_rp] [ATok tk_lp; ATok tk_rp] XNil);
    [inprods| |reflexivity].
  apply (ds_T tk_lp). apply (ds_T tk_rp). constructor.
Qed.
Lemma pair_one : forall a wa, derives o nt_SExpr wa a -> derives o nt_Pair (tk_lp :: wa ++ [tk_rp]) (XCons a XNil).
Proof.
  intros a wa Ha.
  apply (D_prod o nt_Pair [T t_lp; NT nt_SExpr; T t_rp] (TCons1 1) _ [ATok tk_lp; ASx a; ATok tk_rp] (XCons a XNil));
    [inprods| |reflexivity].
  apply (ds_T tk_lp). constructor; [exact Ha|]. apply (ds_T tk_rp). constructor.
Qed.
Lemma pair_list : forall a d wa wd, derives o nt_SExpr wa a -> derives o nt_ContinueList wd d ->
  derives o nt_Pair (tk_lp :: wa ++ tk_sp :: wd ++ [tk_rp]) (XCons a d).
Proof.
  intros a d wa wd Ha Hd.
  apply (D_prod o nt_Pair [T t_lp; NT nt_SExpr; T t_space; NT nt_ContinueList; T t_rp] (TCons2 1 3)
                _ [ATok tk_lp; ASx a; ATok tk_sp; ASx d; ATok tk_rp] (XCons a d)); [inprods| |reflexivity].
  apply (ds_T tk_lp). constructor; [exact Ha|]. apply (ds_T tk_sp). constructor; [exact Hd|].
  apply (ds_T tk_rp). constructor.
Qed.
Lemma pair_dot : forall a d wa wd, derives o nt_SExpr wa a -> derives o nt_SExpr wd d ->
  derives o nt_Pair (tk_lp :: wa ++ tk_sp :: tk_dot :: tk_sp :: wd ++ [tk_rp]) (XCons a d).
Proof.
  intros a d wa wd Ha Hd.
  apply (D_prod o nt_Pair [T t_lp; NT nt_SExpr; T t_space; T t_dot; T t_space; NT nt_SExpr; T t_rp] (TCons2 1 5)
                _ [ATok tk_lp; ASx a; ATok tk_sp; ATok tk_dot; ATok tk_sp; ASx d; ATok tk_rp] (XCons a d));
    [inprods| |reflexivity].
  apply (ds_T tk_lp). constructor; [exact Ha|]. apply (ds_T tk_sp). apply (ds_T tk_dot). apply (ds_T tk_sp).
  constructor; [exact Hd|]. apply (ds_T tk_rp). constructor.
Qed.
Lemma cl_one : forall a wa, derives o nt_SExpr wa a -> derives o nt_ContinueList (wa ++ []) (XCons a XNil).
Proof.
  intros a wa Ha.
  apply (D_prod o nt_ContinueList [NT nt_SExpr] (TCons1 0) _ [ASx a] (XCons a XNil)); [inprods| |reflexivity].
  constructor; [exact Ha|constructor].
Qed.
Lemma cl_cons : forall a d wa wd, derives o nt_SExpr wa a -> derives o nt_ContinueList wd d ->
  derives o nt_ContinueList (wa ++ tk_sp :: wd ++ []) (XCons a d).
Proof.
  intros a d wa wd Ha Hd.
  apply (D_prod o nt_ContinueList [NT nt_SExpr; T t_space; NT nt_ContinueList] (TCons2 0 2)
                _ [ASx a; ATok tk_sp; ASx d] (XCons a d)); [inprods| |reflexivity].
  constructor; [exact Ha|]. apply (ds_T tk_sp). constructor; [exact Hd|constructor].
Qed.
Lemma cl_dot : forall a d wa wd, derives o nt_SExpr wa a -> derives o nt_SExpr wd d ->
  derives o nt_ContinueList (wa ++ tk_sp :: tk_dot :: tk_sp :: wd ++ []) (XCons a d).
Proof.
  intros a d wa wd Ha Hd.
  apply (D_prod o nt_ContinueList [NT nt_SExpr; T t_space; T t_dot; T t_space; NT nt_SExpr] (TCons2 0 4)
                _ [ASx a; ATok tk_sp; ATok tk_dot; ATok tk_sp; ASx d] (XCons a d)); [inprods| |reflexivity].
  constructor; [exact Ha|]. apply (ds_T tk_sp). apply (ds_T tk_dot). apply (ds_T tk_sp).
  constructor; [exact Hd|constructor].
Qed.

Definition tailP (e : sx) : Prop :=
  match e with
  | XCons a d => derives o nt_ContinueList (pr a ++ prt d) e
  | _ => True
  end.

Theorem print_derives : forall e, atoms_good e -> derives o nt_SExpr (pr e) e /\ tailP e.
Proof.
  induction e as [|a IHa d IHd|s|z|s|s|s]; intros Hg;
    try (split; [apply atom_derives; [reflexivity|exact Hg]|exact I]).
  - split; [|exact I]. apply pair_derives. exact pair_nil.
  - destruct Hg as [Hga Hgd]. destruct (IHa Hga) as [Pa _]. destruct (IHd Hgd) as [Pd Qd].
    split.
    + apply pair_derives. destruct d as [|a' d'|s|z|s|s|s].
      * exact (pair_one a (pr a) Pa).
      * pose proof (pair_list a (XCons a' d') (pr a) (pr a' ++ prt d') Pa Qd) as H.
        exact H.
      * exact (pair_dot a _ (pr a) _ Pa Pd).
      * exact (pair_dot a _ (pr a) _ Pa Pd).
      * exact (pair_dot a _ (pr a) _ Pa Pd).
      * exact (pair_dot a _ (pr a) _ Pa Pd).
      * exact (pair_dot a _ (pr a) _ Pa Pd).
    + unfold tailP. destruct d as [|a' d'|s|z|s|s|s].
      * exact (cl_one a (pr a) Pa).
      * pose proof (cl_cons a (XCons a' d') (pr a) (pr a' ++ prt d') Pa Qd) as H.
        rewrite app_nil_r in H. exact H.
      * exact (cl_dot a _ (pr a) _ Pa Pd).
      * exact (cl_dot a _ (pr a) _ Pa Pd).
      * exact (cl_dot a _ (pr a) _ Pa Pd).
      * exact (cl_dot a _ (pr a) _ Pa Pd).
      * exact (cl_dot a _ (pr a) _ Pa Pd).
Qed.
End PrintSpec.

(* ---- the round trip through the parser (needs the completeness of the LR driver) ---- *)
From GMK Require Import LexSpec LRSpec LRComplete ParseSpec.

Section RoundTrip.
Context (o : oracles) (atom_tok : sx -> token).

Fixpoint atoms_real (e : sx) : Prop :=
  match e with
  | XNil => True
  | XCons a d => atoms_real a /\ atoms_real d
  | _ => real_token (atom_tok e)
  end.

Lemma fixed_tokens_real : real_token tk_lp /\ real_token tk_rp /\ real_token tk_sp /\ real_token tk_dot.
Proof. unfold real_token. repeat split; simpl; try discriminate; vm_compute; auto; try lia. Qed.

Lemma print_real : forall e, atoms_real e ->
  Forall real_token (print atom_tok e) /\ Forall real_token (print_tail atom_tok e).
Proof.
  destruct fixed_tokens_real as [Hlp [Hrp [Hsp Hdot]]].
  induction e as [|a IHa d IHd|s|z|s|s|s]; intros Hr.
  2: { destruct Hr as [Hra Hrd]. destruct (IHa Hra) as [Pa _]. destruct (IHd Hrd) as [Pd Td]. split.
       - simpl. apply Forall_cons; auto. apply Forall_app. split; auto. apply Forall_app. split; auto.
       - simpl. apply Forall_cons; auto. apply Forall_app. split; auto. }
  all: simpl in Hr; split; simpl; repeat (apply Forall_cons; [assumption|]); apply Forall_nil.
Qed.

(* print, then parse: the parser accepts and returns the printed expression *)
Theorem print_parse : forall e, atoms_good o atom_tok e -> atoms_real e ->
  parse_tokens o (print atom_tok e) = Accept e.
Proof.
  intros e Hg Hr. apply (parse_tokens_complete o tables_ok ctables_ok).
  - exact (proj1 (print_real e Hr)).
  - exact (proj1 (print_derives o atom_tok e Hg)).
Qed.

(* at the level of bytes, given that the lexer cuts the printed text into the printed tokens
   (checked on every generated expression by the correspondence: Corr14.check14, case C15Print) *)
Theorem print_parse_bytes : forall e, atoms_good o atom_tok e ->
  lex_bytes (print_bytes atom_tok e) = (print atom_tok e, LEnd) ->
  parse_bytes o (print_bytes atom_tok e) = Accept e.
Proof.
  intros e Hg Hl. eapply parse_bytes_complete; [exact Hl|]. exact (proj1 (print_derives o atom_tok e Hg)).
Qed.

(* and printing the result again gives the same tokens: Parse(String(e)).String() = String(e) *)
Corollary print_parse_print : forall e v, atoms_good o atom_tok e -> atoms_real e ->
  parse_tokens o (print atom_tok e) = Accept v -> print atom_tok v = print atom_tok e.
Proof. intros e v Hg Hr H. rewrite (print_parse e Hg Hr) in H. inversion H. reflexivity. Qed.
End RoundTrip.
