(* A little imperative language for methods of micro.StreamOfStates{state, proc, mem} (micro/stream.go), interpreted over the
   heap of MemModel.v: statements over the three fields of the receiver.  harness/cmd/gencell translates CarCdr into a term of
   this language on every run (gen/CellGen.v); CellLangSpec.v proves that running that term IS the model's carcdr.
   Model only: no proofs here. *)
From Coq Require Import List NArith Bool.
From GMK Require Import Term MemModel GoLite.
Import ListNotations.

Inductive cfield := FState | FProc | FMem.
Inductive cexpr :=
| CNil                     (* nil *)
| CField (f : cfield)      (* R.f *)
| CCallProc.               (* R.proc() *)
Inductive cstmt :=
| CIfNil (f : cfield) (neg : bool) (body : list cstmt)   (* if R.f == nil { body }   (neg: if R.f != nil { body }) *)
| CAssign (f : cfield) (e : cexpr)                       (* R.f = e *)
| CReturn (e1 e2 : cexpr).                               (* return e1, e2 *)

Definition field_no (f : cfield) : nat := match f with FState => 0 | FProc => 1 | FMem => 2 end.

Section Exec.
  (* what running the closure `proc` yields: nil, or a freshly allocated cell with this content (as in MemModel.Cells) *)
  Variable procs : nat -> option object.
  (* the receiver *)
  Variable c : objid.

  (* R.f : a nil dereference when R is not a cell of the heap *)
  Definition rd (h : heap) (f : cfield) : R (option nat) :=
    match nth_error h c with
    | Some (OCell st p m) => Ret (match f with FState => st | FProc => p | FMem => m end)
    | _ => Panic
    end.

  (* R.f = v, logged as a write to field f of object c *)
  Definition wr (h : heap) (lg : wlog) (f : cfield) (v : option nat) : R (heap * wlog) :=
    match nth_error h c with
    | Some (OCell st p m) =>
        let o := match f with FState => OCell v p m | FProc => OCell st v m | FMem => OCell st p v end in
        Ret (upd h c o, lg ++ [(c, field_no f)])
    | _ => Panic
    end.

  (* expressions; R.proc() runs the closure: nil, or a new cell at the end of the heap; calling a nil func panics *)
  Definition ev (h : heap) (e : cexpr) : R (heap * option nat) :=
    match e with
    | CNil => Ret (h, None)
    | CField f => bind (rd h f) (fun v => Ret (h, v))
    | CCallProc =>
        bind (rd h FProc) (fun p =>
          match p with
          | None => Panic
          | Some p0 => match procs p0 with
                       | None => Ret (h, None)
                       | Some o => Ret (h ++ [o], Some (length h))
                       end
          end)
    end.

  Definition outcome := (heap * wlog * option (option nat * option nat))%type.

  Fixpoint exec_stmt (s : cstmt) (h : heap) (lg : wlog) {struct s} : R outcome :=
    match s with
    | CIfNil f neg body =>
        bind (rd h f) (fun v =>
          if xorb (match v with None => true | Some _ => false end) neg then
            (fix go (l : list cstmt) (h : heap) (lg : wlog) : R outcome :=
               match l with
               | [] => Ret (h, lg, None)
               | s1 :: tl => bind (exec_stmt s1 h lg) (fun '(h1, lg1, r) =>
                               match r with Some _ => Ret (h1, lg1, r) | None => go tl h1 lg1 end)
               end) body h lg
          else Ret (h, lg, None))
    | CAssign f e => bind (ev h e) (fun '(h1, v) => bind (wr h1 lg f v) (fun '(h2, lg2) => Ret (h2, lg2, None)))
    | CReturn e1 e2 => bind (ev h e1) (fun '(h1, v1) => bind (ev h1 e2) (fun '(h2, v2) => Ret (h2, lg, Some (v1, v2))))
    end.

  Fixpoint exec (l : list cstmt) (h : heap) (lg : wlog) : R outcome :=
    match l with
    | [] => Ret (h, lg, None)
    | s1 :: tl => bind (exec_stmt s1 h lg) (fun '(h1, lg1, r) =>
                    match r with Some _ => Ret (h1, lg1, r) | None => exec tl h1 lg1 end)
    end.
End Exec.
