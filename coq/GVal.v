(* L4 model: pointer-shaped Go values as gomini sees them, and their encoding as terms.
   gomini's unify (after the variables-first repair) is, on these values, micro's algorithm with n-ary constructors:
   walk both sides; same variable -> s; a variable -> occurs check (hasCycle) then bind; leaves by content;
   struct pointers / slices field by field, left to right, threading the state (reflecttools.ZipReduce).
   The model of gomini.EqualO is therefore `unify` on the encodings; the tie is the correspondence check
   (harness/c04.go) under both placeholder policies.  Placeholder CONTENTS do not occur in the model at all:
   a variable is identified by its registration (creation order), which is what the property demands. *)
From Coq Require Import List NArith ZArith Bool.
From GMK Require Import Term Unify.
Import ListNotations.

Inductive gval :=
| GVarP (i : N)                            (* a registered variable placeholder (pointer), by creation order *)
| GNilP                                    (* nil pointer *)
| GScalarP (a : atom)                      (* pointer to a scalar, compared by content *)
| GStruct (tag : N) (fields : list gval)   (* non-nil pointer to a struct of type `tag` *)
| GSliceV (elems : list gval).             (* slice (unify does not distinguish nil and empty slices) *)

Definition slice_tag : N := 1595251712869%N.   (* "slice" *)

Fixpoint tlist (xs : list term) (tl : term) : term :=
  match xs with [] => tl | x :: r => TPair x (tlist r tl) end.

Fixpoint enc (v : gval) : term :=
  match v with
  | GVarP i => TVar i
  | GNilP => TNil
  | GScalarP a => TAtom a
  | GStruct tag fs =>
      TPair (TAtom (ASym tag)) ((fix el (l : list gval) : term := match l with [] => TNil | x :: r => TPair (enc x) (el r) end) fs)
  | GSliceV es =>
      TPair (TAtom (AStr slice_tag)) ((fix el (l : list gval) : term := match l with [] => TNil | x :: r => TPair (enc x) (el r) end) es)
  end.

(* EqualO on two Go values in a state whose bindings are (variable, value) pairs *)
Definition genc_subst (s : list (N * gval)) : subst := map (fun p => (fst p, enc (snd p))) s.
Definition gunify (f : nat) (x y : gval) (s : list (N * gval)) : res := unify f (enc x) (enc y) (genc_subst s).
