(* takeStream as translated from micro/stream.go on every run (gen/StreamGen.v) IS the model `take` of Stream.v that the
   theorems of C02 / C03 are proved about, for every count (negative included), stream and fuel; and it never panics
   (no nil dereference in CarCdr, no nil state in the result). *)
From Coq Require Import List NArith ZArith Bool.
From GMK Require Import Term Unify Goal Stream Den InStream Take GoLite GoLiteS gen.StreamGen.
Import ListNotations.

Definition of_optS {A} (o : option A) : R A := match o with Some a => Ret a | None => OOF_ end.

Lemma gs_takeStream_spec ds uf : forall f n s, gs_takeStream f ds uf n s = of_optS (take ds uf f n s).
Proof.
  induction f as [|f IH]; intros n s; [reflexivity|].
  cbn [gs_takeStream take]. destruct (Z.eqb n 0); [reflexivity|].
  destruct s as [|a tl|th|]; cbn; try reflexivity.
  - rewrite IH. destruct (take ds uf f (n - 1) tl); reflexivity.
  - apply IH.
Qed.

Theorem gs_takeStream_never_panics ds uf f n s : gs_takeStream f ds uf n s <> Panic.
Proof. rewrite gs_takeStream_spec. destruct (take ds uf f n s); discriminate. Qed.

Lemma gs_take_ret ds uf f n s l : gs_takeStream f ds uf n s = Ret l <-> take ds uf f n s = Some l.
Proof. rewrite gs_takeStream_spec. destruct (take ds uf f n s); cbn; split; intros H; inversion H; reflexivity. Qed.

(* the count clauses of C03, on the generated code *)
Theorem gs_take_at_most_n ds uf f n s l :
  gs_takeStream f ds uf n s = Ret l -> (0 <= n)%Z -> (length l <= Z.to_nat n)%nat.
Proof. intros H. apply gs_take_ret in H. exact (take_length ds uf f n s l H). Qed.

Theorem gs_take_fewer_only_if_exhausted ds uf f n s l :
  gs_takeStream f ds uf n s = Ret l -> (0 <= n)%Z -> (length l < Z.to_nat n)%nat ->
  Finite ds uf s /\ forall x, InStream ds uf x s -> In x l.
Proof. intros H. apply gs_take_ret in H. exact (take_exact ds uf f n s l H). Qed.

Theorem gs_take_negative ds uf f n s l :
  (n < 0)%Z -> gs_takeStream f ds uf n s = Ret l -> Finite ds uf s /\ forall x, InStream ds uf x s <-> In x l.
Proof. intros Hn H. apply gs_take_ret in H. exact (take_negative ds uf f n s l Hn H). Qed.

Theorem gs_take_sound ds uf f n s l x : gs_takeStream f ds uf n s = Ret l -> In x l -> InStream ds uf x s.
Proof. intros H. apply gs_take_ret in H. exact (take_sound ds uf f n s l x H). Qed.
