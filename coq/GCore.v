(* L4 model: gomini/unify.go (walk, hasCycle, isLeaf, unify, rewrite) and the parts of gomini/state.go they use
   (CastVar, Get, Set), transcribed branch by branch OVER THE reflecttools MODEL (Reflect.v): unify descends with
   ZipReduce, hasCycle with Any, rewrite with Map, exactly as the Go code does.  No proofs in this file.

   Values are Reflect.gval.  A logic variable is a pointer that the state has REGISTERED (State.vars, keyed by address);
   the model writes such a pointer as [gvar i] = a pointer to a cell of the reserved kind [var_kind] holding the
   registration number i.  Its placeholder CONTENTS do not occur: CastVar looks at the address only (after the
   variables-first repair of unify), and gomini never hands a registered pointer to reflecttools before CastVar has been
   asked (walk / hasCycle / unify / rewrite all test CastVar first), so reflecttools never looks inside one.

   Go recursion that is not structural carries explicit fuel; out of fuel is a distinguished outcome (None / GROOF). *)
From Coq Require Import List NArith ZArith Bool.
From GMK Require Import Term Reflect.
Import ListNotations.

Definition var_kind : N := 99.
Definition gvar (i : N) : gval := GPtr (GScalar var_kind (Z.of_N i)).

(* State.CastVar(x): is x one of the registered pointers? *)
Definition cast_var (x : gval) : option N :=
  match x with
  | GPtr (GScalar k z) => if N.eqb k var_kind then Some (Z.to_N z) else None
  | _ => None
  end.

(* State.substitutions: a Go map from variable to value; Set copies and adds (the key is unbound at every call site) *)
Definition gsub := list (N * gval).

Fixpoint gassv (i : N) (s : gsub) : option gval :=
  match s with [] => None | (k, v) :: r => if N.eqb k i then Some v else gassv i r end.

Definition gset (s : gsub) (i : N) (v : gval) : gsub := s ++ [(i, v)].

(* unify.go:60-73   func walk(x any, s *State) any *)
Fixpoint gwalk (f : nat) (x : gval) (s : gsub) : option gval :=
  match f with
  | O => None
  | S f' =>
      match cast_var x with
      | None => Some x                                     (* not a variable *)
      | Some i =>
          match gassv i s with
          | None => Some x                                 (* no more substitutions *)
          | Some v => gwalk f' v s
          end
      end
  end.

(* reflecttools.Any with a predicate that may run out of fuel: the loop of Reflect.any_loop, early exit on true *)
Fixpoint any_loopM (p : gval -> option bool) (l : list gval) : option bool :=
  match l with
  | [] => Some false
  | sl :: l' =>
      match p (unwrap sl) with
      | None => None
      | Some true => Some true
      | Some false => any_loopM p l'
      end
  end.

Definition ranyM (p : gval -> option bool) (x : gval) : option bool :=
  if is_nil x then Some false
  else match x with
  | GStructPtr fs => any_loopM p fs
  | GSlice _ es => any_loopM p es
  | _ => Some false
  end.

(* unify.go:90-98   func hasCycle(xvar Var, y any, s *State) bool *)
Fixpoint ghascycle (f : nat) (i : N) (y : gval) (s : gsub) : option bool :=
  match f with
  | O => None
  | S f' =>
      match gwalk f' y s with
      | None => None
      | Some y' =>
          match cast_var y' with
          | Some j => Some (N.eqb i j)
          | None => ranyM (fun e => ghascycle f' i e s) y'
          end
      end
  end.

(* unify.go:44-57   func isLeaf(x any) bool *)
Definition is_leaf (x : gval) : bool :=
  if is_nil x then true
  else match kind_of x with
  | KPtr => negb (kind_eqb (elem_kind x) KStruct)          (* case reflect.Ptr: return v.Elem().Kind() != reflect.Struct *)
  | KSlice => false                                        (* case reflect.Slice: return false *)
  | _ => true                                              (* Map, struct by value, other kinds *)
  end.

Inductive gres := GROOF | GRFail | GROk (s : gsub).

Definition gres_is_fail (r : gres) : bool := match r with GRFail => true | _ => false end.

(* `if hasCycle(xvar, y, s) { return nil }; return s.Set(xvar, y)` *)
Definition gbind (f : nat) (i : N) (y : gval) (s : gsub) : gres :=
  match ghascycle f i y s with
  | None => GROOF
  | Some true => GRFail
  | Some false => GROk (gset s i y)
  end.

(* unify.go:11-40   func unify(x, y any, s *State) *State
   The last line is reflecttools.ZipReduce(x, y, s, unify): Reflect.zipreduce at accumulator type *State, zero value nil
   (= GRFail); a nil accumulator never reaches the function (ZipReduce returns as soon as it sees one); out of fuel is
   carried through the fold. *)
Fixpoint gunify (f : nat) (x y : gval) (s : gsub) : gres :=
  match f with
  | O => GROOF
  | S f' =>
      match gwalk f' x s, gwalk f' y s with
      | Some x', Some y' =>
          match cast_var x', cast_var y' with
          | Some i, Some j => if N.eqb i j then GROk s else gbind f' i y' s
          | Some i, None => gbind f' i y' s
          | None, Some j => gbind f' j x' s
          | None, None =>
              if is_leaf x' || is_leaf y' then (if gval_eqb x' y' then GROk s else GRFail)   (* reflect.DeepEqual *)
              else fst (zipreduce GRFail gres_is_fail
                          (fun a b acc => match acc with GROk s1 => gunify f' a b s1 | other => other end)
                          (GROk s) x' y')
          end
      | _, _ => GROOF
      end
  end.

(* reflecttools.Map with a function that may run out of fuel: the loops of Reflect.map_loop / map_entries *)
Fixpoint map_loopM (g : gval -> option gval) (l : list gval) : option (list gval) :=
  match l with
  | [] => Some []
  | sl :: l' =>
      match g (unwrap sl), map_loopM g l' with
      | Some b, Some r => Some (store sl b :: r)
      | _, _ => None
      end
  end.

Fixpoint map_entriesM (g : gval -> option gval) (l : list (N * gval)) : option (list (N * gval)) :=
  match l with
  | [] => Some []
  | (k, sl) :: l' =>
      match g (unwrap sl), map_entriesM g l' with
      | Some b, Some r => Some ((k, store sl b) :: r)
      | _, _ => None
      end
  end.

Definition rmapM (g : gval -> option gval) (x : gval) : option gval :=
  if is_nil x then Some x
  else match x with
  | GStructPtr fs => option_map GStructPtr (map_loopM g fs)
  | GSlice true _ => Some x
  | GSlice false es => option_map (GSlice false) (map_loopM g es)
  | GMap true _ => Some x
  | GMap false en => option_map (GMap false) (map_entriesM g en)
  | _ => Some x
  end.

(* unify.go:100-112   func rewrite(x any, s *State) any *)
Fixpoint grewrite (f : nat) (x : gval) (s : gsub) : option gval :=
  match f with
  | O => None
  | S f' =>
      match gwalk f' x s with
      | None => None
      | Some x' =>
          match cast_var x' with
          | Some _ => Some x'                              (* an unbound variable: its placeholder stays *)
          | None => rmapM (fun e => grewrite f' e s) x'
          end
      end
  end.

(* goal.go: EqualO(x, y) writes unify's result to the stream if it is not nil *)
Definition gequalo (f : nat) (x y : gval) (s : gsub) : option (list gsub) :=
  match gunify f x y s with
  | GROOF => None
  | GRFail => Some []
  | GROk s' => Some [s']
  end.

(* ---------------------------------------------------------------------------------------------- *)
(* the term encoding of pointer-shaped values (GCoreSpec.v proves that gunify is micro's unify through it);
   executable, also used by the correspondence check *)
Fixpoint tlistn (xs : list term) : term :=
  match xs with [] => TNil | x :: r => TPair x (tlistn r) end.

(* struct with n fields: tag n >= 0; slice of n elements: tag -(n+1) < 0 (a nil and an empty slice are the same list) *)
Definition struct_ntag (n : nat) : term := TAtom (AInt (Z.of_nat n)).
Definition slice_ntag (n : nat) : term := TAtom (AInt (- Z.of_nat n - 1)).

(* the untyped nil interface (an interface-typed field holding nothing) is a constant of its own *)
Definition nil_iface_atom : atom := ASym 0.

(* a field / element / map value as reflecttools hands it on (Value.Interface()): an interface-typed slot is transparent *)
Fixpoint tenc (x : gval) : option term :=
  let fix tencs (l : list gval) : option (list term) :=
    match l with
    | [] => Some []
    | a :: r =>
        match (match a with
               | GIface (GIface _) | GIface GNil => None
               | GIface v => tenc v
               | _ => tenc a
               end), tencs r with
        | Some t, Some ts => Some (t :: ts)
        | _, _ => None
        end
    end in
  match x with
  | GNil => Some (TAtom nil_iface_atom)
  | GNilPtr => Some TNil
  | GPtr (GScalar k z) =>
      if (z <? 0)%Z then None
      else if N.eqb k var_kind then Some (TVar (Z.to_N z))
      else if N.eqb k 0 then Some (TAtom (AInt z))
      else if N.eqb k 1 then Some (TAtom (AStr (Z.to_N z)))
      else None
  | GStructPtr fs => option_map (fun l => TPair (struct_ntag (length fs)) (tlistn l)) (tencs fs)
  | GSlice _ es => option_map (fun l => TPair (slice_ntag (length es)) (tlistn l)) (tencs es)
  | _ => None
  end.

Definition tslot (a : gval) : option term :=
  match a with
  | GIface (GIface _) | GIface GNil => None
  | GIface v => tenc v
  | _ => tenc a
  end.

Fixpoint tencs (l : list gval) : option (list term) :=
  match l with
  | [] => Some []
  | a :: r => match tslot a, tencs r with Some t, Some ts => Some (t :: ts) | _, _ => None end
  end.


Fixpoint senc (s : gsub) : option subst :=
  match s with
  | [] => Some []
  | (k, v) :: r => match tenc v, senc r with Some t, Some ts => Some ((k, t) :: ts) | _, _ => None end
  end.

