(* Concrete programs used as non-vacuity examples (evaluated with vm_compute). *)
From Coq Require Import List NArith ZArith Bool.
From GMK Require Import Term Unify Goal Stream Den CorrBase Corr01 Corr02.
Import ListNotations.

Definition sym_a : atom := ASym 353%N.  (* "a" *)
Definition sym_b : atom := ASym 354%N.  (* "b" *)

(* appendo l t out, as mini.AppendO: parameters l=2 t=1 out=0 *)
Definition appendo_body : goal :=
  GZzz (GDisj (GConj (GEq (PB 2) PNil) (GEq (PB 1) (PB 0)))
       (GFresh (GFresh (GFresh
          (GConj (GEq (PPair (PB 2) (PB 1)) (PB 5))
          (GConj (GEq (PPair (PB 2) (PB 0)) (PB 3))
                 (GCall 0 [PB 1; PB 4; PB 0]))))))).
Definition nevero_body : goal := GZzz (GCall 1 []).
Definition alwayso_body : goal := GZzz (GDisj GSucc (GCall 2 [])).
Definition exdefs : defs := fun r => nth_error [appendo_body; nevero_body; alwayso_body] r.

Definition run_answers (g : goal) (nq : nat) (fuel : nat) (n : Z) : option (list state) :=
  take exdefs uf400 fuel n (eval exdefs uf400 g (query_env nq) (mkSt [] (N.of_nat nq))).

(* (fresh (x y) (== q (x y)) (appendo x y (a b))) *)
Definition split_ab : goal :=
  GFresh (GFresh (GConj (GEq (PB 2) (PPair (PB 1) (PPair (PB 0) PNil)))
                        (GCall 0 [PB 1; PB 0; PPair (PAtom sym_a) (PPair (PAtom sym_b) PNil)]))).

Definition resolved_q (st : state) : option term := walkstar 100 (TVar 0%N) (sub st).
