(* L6: the types of the data that lib/gen_tables.py transcribes from /repo/sexpr (gocc tables and sexpr.bnf).
   Hand-written and stable; gen/Tables.v and gen/GrammarGen.v contain only values of these types. No proofs. *)
From Coq Require Import List NArith ZArith.
Import ListNotations.

(* parser/actiontable.go: nil | shift(s) | reduce(p) | accept(true) *)
Inductive action := ANone | AShift (s : nat) | AReduce (p : nat) | AAccept.

(* parser/productionstable.go ReduceFunc bodies / sexpr.bnf semantic actions, closed set:
   TX i        return X[i], nil                                   (bnf: no action = X[0], or << $i, nil >>)
   TNil        return nil, nil
   TCons1 i    return Cons(getSExpr(X[i]), nil), nil
   TCons2 i j  return Cons(getSExpr(X[i]), getSExpr(X[j])), nil
   TSymbol     return NewSymbol(getStr(X[0])), nil
   TInt | TFloat | TString | TVariable   return ParseInt|ParseFloat|ParseString|ParseVariable(getStr(X[0])) *)
Inductive tmpl :=
| TX (i : nat) | TNil | TCons1 (i : nat) | TCons2 (i j : nat)
| TSymbol | TInt | TFloat | TString | TVariable.

(* grammar symbols: terminals by token id (token/token.go TokMap), nonterminals by index (0 = S') *)
Inductive symbol := T (t : nat) | NT (n : nat).

(* lexer/transitiontable.go: one Go function per state; the cases in textual order, then the default
   (None = `return NoState`) *)
Record lexrow := mkRow { lr_cases : list (N * N * nat); lr_default : option nat }.

(* the lexical part of sexpr.bnf: regular expressions over code points *)
Inductive re :=
| REmp                       (* no string *)
| REps                       (* the empty string *)
| RChr (lo hi : N)           (* 'c' is RChr c c;  'a'-'z' is RChr 97 122 *)
| RAny                       (* . *)
| RCat (a b : re)
| RAlt (a b : re)
| RStar (a : re).            (* { a };  [ a ] is RAlt a REps *)

Definition action_eqb (a b : action) : bool :=
  match a, b with
  | ANone, ANone => true
  | AShift x, AShift y => Nat.eqb x y
  | AReduce x, AReduce y => Nat.eqb x y
  | AAccept, AAccept => true
  | _, _ => false
  end.

Definition tmpl_eqb (a b : tmpl) : bool :=
  match a, b with
  | TX i, TX j => Nat.eqb i j
  | TNil, TNil => true
  | TCons1 i, TCons1 j => Nat.eqb i j
  | TCons2 i j, TCons2 i' j' => Nat.eqb i i' && Nat.eqb j j'
  | TSymbol, TSymbol | TInt, TInt | TFloat, TFloat | TString, TString | TVariable, TVariable => true
  | _, _ => false
  end.

Definition symbol_eqb (a b : symbol) : bool :=
  match a, b with
  | T x, T y => Nat.eqb x y
  | NT x, NT y => Nat.eqb x y
  | _, _ => false
  end.
