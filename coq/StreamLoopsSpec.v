(* ifThenElseLoop / IfThenElseO (mini/ifthenelse.go) and onceLoop / OnceO (mini/once.go) as translated on every run
   (gen/LoopsGen.v) ARE the model's GIfte / GOnce (Stream.v): whatever they return is the model's stream, they return it
   whenever the recursion budget covers the mature cells they walk over, and they never panic.  The Go loops call CarCdr on
   the condition stream before they look at what it returned, i.e. an immature condition cell is run once when the loop
   sees it; the value built is the same (the suspended loop over that cell), which is what these theorems state. *)
From Coq Require Import List NArith ZArith Bool Lia.
From GMK Require Import Term Unify Goal Stream GoLite GoLiteS gen.StreamGen gen.LoopsGen StreamOpsSpec.
Import ListNotations.

Section Loops.
  Variable ds : defs.
  Variable uf : term -> term -> subst -> nat.

  (* the body of the loop of ifte, as eval and force of Stream.v use it *)
  Definition ifte_loop (t el : goal) (e : env) (st : state) (s : stream) : stream :=
    match s with
    | SNil => eval ds uf el e st
    | SCons a tl => bindk (fun a => eval ds uf t e a) (fun th => TBind th t e) (SCons a tl)
    | SSusp th => SSusp (TIfte th t el e st)
    | SErr => SErr
    end.

  Lemma eval_ifte_loop : forall c t el e st, eval ds uf (GIfte c t el) e st = ifte_loop t el e st (eval ds uf c e st).
  Proof. reflexivity. Qed.
  Lemma force_ifte_loop : forall th t el e st, force ds uf (TIfte th t el e st) = ifte_loop t el e st (force ds uf th).
  Proof. reflexivity. Qed.
  Lemma eval_once_loop : forall g e st, eval ds uf (GOnce g) e st = once_loop (eval ds uf g e st).
  Proof. reflexivity. Qed.
  Lemma force_once_loop : forall th, force ds uf (TOnce th) = once_loop (force ds uf th).
  Proof. reflexivity. Qed.

  Lemma gs_ifte_sound : forall f t el e st s r,
    gs_ifThenElseLoop f ds uf (model_goal ds uf t e) (model_goal ds uf el e) (Some st) s = Ret r -> r = ifte_loop t el e st s.
  Proof.
    intros [|f] t el e st s r H; [discriminate|].
    destruct s as [|a tl|th|]; cbn in H.
    - inversion H. reflexivity.
    - apply (gs_Bind_sound ds uf) in H. exact H.
    - inversion H. reflexivity.
    - discriminate.
  Qed.

  Lemma gs_ifte_complete : forall B f t el e st s, ends_err s = false ->
    (forall a, In a (heads s) -> ends_err (eval ds uf t e a) = false /\ (spine (eval ds uf t e a) < B)%nat) ->
    (S (spine s + B) < f)%nat ->
    gs_ifThenElseLoop f ds uf (model_goal ds uf t e) (model_goal ds uf el e) (Some st) s = Ret (ifte_loop t el e st s).
  Proof.
    intros B [|f] t el e st s He Hk Hf; [lia|].
    destruct s as [|a tl|th|]; cbn in *; try reflexivity; try discriminate.
    apply (gs_Bind_complete ds uf B f (SCons a tl) (model_goal ds uf t e)); cbn; [exact He|exact Hk|lia].
  Qed.

  Lemma gs_ifte_never_panics : forall f g2 g3 st s, gs_ifThenElseLoop f ds uf g2 g3 (Some st) s <> Panic.
  Proof.
    intros [|f] g2 g3 st s; [discriminate|].
    destruct s as [|a tl|th|]; cbn; try discriminate.
    apply gs_Bind_never_panics.
  Qed.

  (* an immature condition cell: the result is the suspended loop over that cell's thunk *)
  Lemma gs_ifte_lazy : forall f t el e st th,
    gs_ifThenElseLoop (S f) ds uf (model_goal ds uf t e) (model_goal ds uf el e) (Some st) (SSusp th) = Ret (SSusp (TIfte th t el e st)).
  Proof. reflexivity. Qed.

  Theorem gs_IfThenElseO_is_eval : forall f c t el e st r,
    gs_IfThenElseO f ds uf (model_goal ds uf c e) (model_goal ds uf t e) (model_goal ds uf el e) (Some st) = Ret r ->
    r = eval ds uf (GIfte c t el) e st.
  Proof. intros f c t el e st r H. unfold gs_IfThenElseO in H. cbn in H. apply gs_ifte_sound in H. exact H. Qed.

  Theorem gs_IfThenElseO_complete : forall B f c t el e st, ends_err (eval ds uf c e st) = false ->
    (forall a, In a (heads (eval ds uf c e st)) -> ends_err (eval ds uf t e a) = false /\ (spine (eval ds uf t e a) < B)%nat) ->
    (S (spine (eval ds uf c e st) + B) < f)%nat ->
    gs_IfThenElseO f ds uf (model_goal ds uf c e) (model_goal ds uf t e) (model_goal ds uf el e) (Some st) = Ret (eval ds uf (GIfte c t el) e st).
  Proof. intros B f c t el e st He Hk Hf. unfold gs_IfThenElseO. cbn. apply (gs_ifte_complete B); assumption. Qed.

  Theorem gs_IfThenElseO_never_panics : forall f g1 g2 g3 st, gs_IfThenElseO f ds uf g1 g2 g3 (Some st) <> Panic.
  Proof. intros f g1 g2 g3 st. unfold gs_IfThenElseO. cbn. apply gs_ifte_never_panics. Qed.

  Lemma gs_once_is_model : forall f s, s <> SErr -> gs_onceLoop (S f) ds uf s = Ret (once_loop s).
  Proof. intros f s Hs. destruct s as [|a tl|th|]; cbn; try reflexivity. contradiction. Qed.
  Lemma gs_once_sound : forall f s r, gs_onceLoop f ds uf s = Ret r -> r = once_loop s.
  Proof. intros [|f] s r H; [discriminate|]. destruct s as [|a tl|th|]; cbn in H; try discriminate; inversion H; reflexivity. Qed.
  Lemma gs_once_never_panics : forall f s, gs_onceLoop f ds uf s <> Panic.
  Proof. intros [|f] s; [discriminate|]. destruct s as [|a tl|th|]; cbn; discriminate. Qed.

  Theorem gs_OnceO_is_eval : forall f g e st r,
    gs_OnceO f ds uf (model_goal ds uf g e) (Some st) = Ret r -> r = eval ds uf (GOnce g) e st.
  Proof. intros f g e st r H. unfold gs_OnceO in H. cbn in H. exact (gs_once_sound f _ r H). Qed.
  Theorem gs_OnceO_complete : forall f g e st, eval ds uf g e st <> SErr ->
    gs_OnceO (S f) ds uf (model_goal ds uf g e) (Some st) = Ret (eval ds uf (GOnce g) e st).
  Proof. intros f g e st H. rewrite eval_once_loop, <- (gs_once_is_model f _ H). reflexivity. Qed.
  Theorem gs_OnceO_never_panics : forall f g st, gs_OnceO f ds uf g (Some st) <> Panic.
  Proof. intros f g st. unfold gs_OnceO. cbn. apply gs_once_never_panics. Qed.
End Loops.
