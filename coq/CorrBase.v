(* Shared helpers for the correspondence checks (executable, evaluated with vm_compute). *)
From Coq Require Import List NArith ZArith Bool.
Import ListNotations.

Fixpoint mismatches_from {A} (chk : A -> bool) (i : nat) (l : list A) : list nat :=
  match l with
  | [] => []
  | c :: l' => if chk c then mismatches_from chk (S i) l' else i :: mismatches_from chk (S i) l'
  end.
Definition mismatches {A} (chk : A -> bool) (l : list A) : list nat := mismatches_from chk 0 l.

Fixpoint list_eqb {A} (eqb : A -> A -> bool) (x y : list A) : bool :=
  match x, y with
  | [], [] => true
  | a :: x', b :: y' => eqb a b && list_eqb eqb x' y'
  | _, _ => false
  end.

Definition opt_eqb {A} (eqb : A -> A -> bool) (x y : option A) : bool :=
  match x, y with None, None => true | Some a, Some b => eqb a b | _, _ => false end.
