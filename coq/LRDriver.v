(* L6 model: the Parse loop of sexpr/parser/parser.go AS WRITTEN (incl. the error path), the reduce functions of
   productionstable.go by template, the converters of sexpr/ast/ast.go, and sexpr.Parse. Interprets gen/Tables.v.
   No proofs in this file.

   Go (parser.go, func (p *Parser) Parse):
       p.Reset()  [stack = (0, nil)];  p.nextToken = scanner.Scan()
       for acc := false; !acc; {
           action := actionTab[p.stack.top()].actions[p.nextToken.Type]
           if action == nil {
               if recovered, errAttrib := p.Error(nil, scanner); !recovered { p.nextToken = errAttrib.ErrorToken; return nil, p.newError(nil) }
               if action = actionTab[p.stack.top()].actions[p.nextToken.Type]; action == nil { panic(...) } }
           switch act := action.(type) {
           case accept: res = p.stack.popN(1)[0]; acc = true
           case shift:  p.stack.push(int(act), p.nextToken); p.nextToken = scanner.Scan()
           case reduce: prod := productionsTable[int(act)]
                        attrib, err := prod.ReduceFunc(p.stack.popN(prod.NumSymbols), p.Context)
                        if err != nil { return nil, p.newError(err) } else { p.stack.push(gotoTab[p.stack.top()][prod.NTType], attrib) }
           default: panic("unknown action: " ...) } }
       return res, nil
   sexpr.Parse: error -> (nil, err); r == nil -> (nil, nil); else r.(SExpr pointer).

   Literal conversion: ParseInt is modelled exactly (strconv.ParseInt(s, 10, 64)); the outcomes of strconv.Unquote and
   strconv.ParseFloat are ORACLE INPUTS (trusted base): `o_unquote text` = Some bytes iff Unquote succeeds,
   `o_float text` = true iff ParseFloat(text, 64) returns no error. A float value is represented by its literal text.
   ParseVariable draws a random Index: variables are represented by Name only. *)
From Coq Require Import List NArith ZArith Bool.
From GMK Require Import TableTypes Utf8 gen.Tables LexDriver.
Import ListNotations.

(* parse results (what the exported constructors build):
   nil | Cons a d | NewSymbol s | NewInt z | NewFloat (value of text) | NewString s | NewVariable name *)
Inductive sx :=
| XNil | XCons (a d : sx) | XSym (s : list N) | XInt (z : Z) | XFloat (text : list N) | XStr (text : list N)
| XVar (name : list N).

(* parser.Attrib values that occur: a token pointer, an SExpr pointer or untyped nil (ASx XNil: getSExpr(nil) = nil,
   and both print as "()"), the errors.Error pushed by error recovery *)
Inductive attr := ATok (t : token) | ASx (v : sx) | AErr.

Record oracles := mkOracles { o_unquote : list N -> option (list N); o_float : list N -> bool }.

Inductive outcome := Accept (v : sx) | ParseError | Stuck (r : stuck) | OutOfFuel.

(* ---- strconv.ParseInt(s, 10, 64) ---- *)
Definition is_digit (c : N) : bool := (N.leb 48 c && N.leb c 57)%bool.
Fixpoint digits_val (acc : N) (l : list N) : option N :=
  match l with
  | [] => Some acc
  | c :: r => if is_digit c then digits_val (acc * 10 + (c - 48)) r else None
  end.
Definition parse_int (s : list N) : option Z :=
  match s with
  | [] => None
  | c :: r =>
    let '(neg, ds) := if N.eqb c 43 then (false, r) else if N.eqb c 45 then (true, r) else (false, s) in
    match ds with
    | [] => None
    | _ =>
      match digits_val 0 ds with
      | None => None
      | Some n =>
        if neg then (if N.leb n 9223372036854775808 then Some (- Z.of_N n)%Z else None)
        else (if N.ltb n 9223372036854775808 then Some (Z.of_N n) else None)
      end
    end
  end.

(* ---- reduce functions ---- *)
Inductive tres := ROk (a : attr) | RErr | RStuck (r : stuck).

(* getSExpr(X[i]) *)
Definition get_sexpr (X : list attr) (i : nat) : stuck + sx :=
  match nth_error X i with
  | None => inl SIndex
  | Some (ASx v) => inr v
  | Some _ => inl SAttrType
  end.
(* getStr(X[i]) *)
Definition get_str (X : list attr) (i : nat) : stuck + list N :=
  match nth_error X i with
  | None => inl SIndex
  | Some (ATok t) => inr (snd t)
  | Some _ => inl SAttrType
  end.

Section Oracles.
Context (o : oracles).

Definition conv (t : tmpl) (lit : list N) : tres :=
  match t with
  | TSymbol => ROk (ASx (XSym lit))
  | TInt => match parse_int lit with Some z => ROk (ASx (XInt z)) | None => RErr end
  | TFloat => if o_float o lit then ROk (ASx (XFloat lit)) else RErr
  | TString => match o_unquote o lit with Some s => ROk (ASx (XStr s)) | None => RErr end
  | TVariable => match lit with
                 | [] => RStuck SEmptyLit
                 | c :: r => if N.eqb c 44 then ROk (ASx (XVar r)) else RErr
                 end
  | _ => RStuck SUnknownAction
  end.

Definition apply_tmpl (t : tmpl) (X : list attr) : tres :=
  match t with
  | TX i => match nth_error X i with Some a => ROk a | None => RStuck SIndex end
  | TNil => ROk (ASx XNil)
  | TCons1 i => match get_sexpr X i with inr v => ROk (ASx (XCons v XNil)) | inl r => RStuck r end
  | TCons2 i j => match get_sexpr X i with
                  | inl r => RStuck r
                  | inr a => match get_sexpr X j with inr d => ROk (ASx (XCons a d)) | inl r => RStuck r end
                  end
  | TSymbol | TInt | TFloat | TString | TVariable =>
    match get_str X 0 with inr lit => conv t lit | inl r => RStuck r end
  end.

(* ---- the scanner as the parser sees it ---- *)
Definition input := (list token * lexend)%type.
Inductive pulled := PTok (t : token) (i : input) | PStuck (r : stuck) | POOF.
Definition eof_token : token := (tok_EOF, []).
Definition pull (i : input) : pulled :=
  match i with
  | (t :: ts, e) => PTok t (ts, e)
  | ([], LEnd) => PTok eof_token ([], LEnd)
  | ([], LEStuck r) => PStuck r
  | ([], LEOOF) => POOF
  end.

Definition stack := list (nat * attr).   (* top first *)

Definition action_at (s : nat) (ty : nat) : option action :=
  match nth_error action_tab s with
  | None => None
  | Some (_, acts) => nth_error acts ty
  end.
Definition can_recover (s : nat) : option bool :=
  match nth_error action_tab s with None => None | Some (c, _) => Some c end.
Definition goto_at (s : nat) (nt : nat) : option (option nat) :=
  match nth_error goto_tab s with
  | None => None
  | Some row => nth_error row nt
  end.

(* p.newError(err): reads actionTab[p.stack.top()] *)
Definition new_error (stk : stack) : outcome :=
  match stk with
  | [] => Stuck SIndex
  | (s, _) :: _ => match nth_error action_tab s with None => Stuck SIndex | Some _ => ParseError end
  end.

(* popNonRecoveryStates: pop down to the highest state that canRecover, if any (the scan includes index 0) *)
Fixpoint pop_to_recovery (stk : stack) : option (option stack) :=   (* None = panic; Some None = no recovery state *)
  match stk with
  | [] => None
  | (s, _) :: below =>
    match can_recover s with
    | None => None
    | Some true => Some (Some stk)
    | Some false => match below with
                    | [] => Some None
                    | _ => pop_to_recovery below
                    end
    end
  end.

(* the token-skipping loop of p.Error *)
Fixpoint recover_scan (fuel : nat) (s : nat) (tok : token) (inp : input) : outcome + (token * input) :=
  match action_at s (fst tok) with
  | None => inl (Stuck SIndex)
  | Some a =>
    match a with
    | ANone =>
      if Nat.eqb (fst tok) tok_EOF then inr (tok, inp)     (* not recovered; caller reports the error *)
      else match fuel with
           | O => inl OutOfFuel
           | S f => match pull inp with
                    | PTok t' inp' => recover_scan f s t' inp'
                    | PStuck r => inl (Stuck r)
                    | POOF => inl OutOfFuel
                    end
           end
    | _ => inr (tok, inp)
    end
  end.

(* the `action == nil` branch: either the final outcome or the configuration in which the loop goes on *)
Definition error_path (stk : stack) (tok : token) (inp : input) : outcome + (stack * token * input) :=
  match pop_to_recovery stk with
  | None => inl (Stuck SIndex)
  | Some r =>
    let stk1 := match r with Some s1 => s1 | None => stk end in
    match stk1 with
    | [] => inl (Stuck SIndex)
    | (s, _) :: _ =>
      match action_at s tok_error_col with
      | None => inl (Stuck SIndex)
      | Some ANone => inl (new_error stk1)
      | Some (AShift s') =>
        let stk2 := (s', AErr) :: stk1 in
        match recover_scan (S (length (fst inp))) s' tok inp with
        | inl out => inl out
        | inr (tok', inp') =>
          match action_at s' (fst tok') with
          | None => inl (Stuck SIndex)
          | Some ANone => inl (new_error stk2)
          | Some _ => inr (stk2, tok', inp')
          end
        end
      | Some _ => inl (Stuck SAttrType)      (* action.(shift) *)
      end
    end
  end.

(* one iteration of the `for acc := false; !acc;` loop: the final outcome, or the next configuration
   (stack, p.nextToken, scanner) *)
Definition lr_step (stk : stack) (tok : token) (inp : input) : outcome + (stack * token * input) :=
  match stk with
  | [] => inl (Stuck SIndex)
  | (s, a) :: _ =>
    match action_at s (fst tok) with
    | None => inl (Stuck SIndex)
    | Some act =>
      match act with
      | ANone => error_path stk tok inp
          (* a recovered configuration has a non-nil action, which the next iteration looks up again *)
      | AAccept =>
        match a with
        | ASx v => inl (Accept v)
        | _ => inl (Stuck SAttrType)                 (* r.(SExpr pointer) in sexpr.Parse *)
        end
      | AShift s' =>
        match pull inp with
        | PTok t' inp' => inr ((s', ATok tok) :: stk, t', inp')
        | PStuck r => inl (Stuck r)
        | POOF => inl OutOfFuel
        end
      | AReduce p =>
        match nth_error prod_tab p with
        | None => inl (Stuck SIndex)
        | Some (nt, n, t) =>
          if (length stk <? n)%nat then inl (Stuck SPopN)
          else
            let X := rev (map snd (firstn n stk)) in
            let stk' := skipn n stk in
            match apply_tmpl t X with
            | RStuck r => inl (Stuck r)
            | RErr => inl (new_error stk')
            | ROk v =>
              match stk' with
              | [] => inl (Stuck SIndex)
              | (q, _) :: _ =>
                match goto_at q nt with
                | None => inl (Stuck SIndex)
                | Some None => inl (Stuck SGoto)
                | Some (Some s') => inr ((s', v) :: stk', tok, inp)
                end
              end
            end
        end
      end
    end
  end.

Fixpoint lr_loop (fuel : nat) (stk : stack) (tok : token) (inp : input) : outcome :=
  match fuel with
  | O => OutOfFuel
  | S f =>
    match lr_step stk tok inp with
    | inl out => out
    | inr (stk', tok', inp') => lr_loop f stk' tok' inp'
    end
  end.

(* number of loop iterations that suffice (LRSpec.v proves it): linear in the number of tokens *)
Definition lr_fuel (ntoks : nat) : nat := ((p_num_states + 2) * (2 * ntoks + 2))%nat.

Definition init_stack : stack := [(0%nat, ASx XNil)].

(* parser.NewParser().Parse(scanner) followed by the conversion in sexpr.Parse *)
Definition parse_input (inp : input) : outcome :=
  match pull inp with
  | PTok t inp' => lr_loop (lr_fuel (length (fst inp))) init_stack t inp'
  | PStuck r => Stuck r
  | POOF => OutOfFuel
  end.

(* on a token list followed by end of input *)
Definition parse_tokens (toks : list token) : outcome := parse_input (toks, LEnd).

(* sexpr.Parse(string(bs)) *)
Definition parse_bytes (bs : list N) : outcome := parse_input (lex_bytes bs).
End Oracles.
