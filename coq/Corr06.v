(* Correspondence for C06: the multiset of answers that gomini.Run delivered for a generated goal program (built with the
   real EqualO / ConjO / DisjO / ExistO / IfThenElseO and eta-expanded relation calls, under GOMAXPROCS / yield sweeps)
   against the sequential reference gseq of GominiSeq.v.  Answers are the rewritten query, canonically renamed.
   Executable, evaluated with vm_compute. *)
From Coq Require Import List NArith ZArith Bool.
From GMK Require Import Term Unify Goal Stream CorrBase Corr01 Corr02 GominiSeq.
Import ListNotations.

Inductive case06 :=
| C06Run (ds : defs) (g : goal) (fuel : nat) (answers : list term)   (* the search closed; all answers *)
| C06Skip.

Definition resolved_q (st : state) : option term :=
  match walkstar F01 (TVar 0%N) (sub st) with
  | Some t => Some (fst (canon_t t []))
  | None => None
  end.

Fixpoint all_some {A} (l : list (option A)) : option (list A) :=
  match l with
  | [] => Some []
  | Some a :: r => match all_some r with Some r' => Some (a :: r') | None => None end
  | None :: _ => None
  end.

Fixpoint remove1 (x : term) (l : list term) : option (list term) :=
  match l with
  | [] => None
  | y :: r => if term_eqb x y then Some r else match remove1 x r with Some r' => Some (y :: r') | None => None end
  end.
Fixpoint perm_eqb (a b : list term) : bool :=
  match a with
  | [] => match b with [] => true | _ => false end
  | x :: a' => match remove1 x b with Some b' => perm_eqb a' b' | None => false end
  end.

Definition check06 (c : case06) : bool :=
  match c with
  | C06Skip => true
  | C06Run ds g fuel answers =>
    match gseq ds uf400 fuel g [TVar 0%N] (mkSt [] 1%N) with
    | Some l => match all_some (map resolved_q l) with
                | Some m => perm_eqb m answers
                | None => false
                end
    | None => false
    end
  end.
