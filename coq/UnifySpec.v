(* Proofs about the unification model (C01): partial correctness for every fuel and every substitution. *)
From Coq Require Import List NArith ZArith Lia Bool.
From GMK Require Import Term Unify.
Import ListNotations.

Lemma atom_eqb_eq a b : atom_eqb a b = true <-> a = b.
Proof.
  destruct a, b; simpl; try (split; congruence);
  rewrite ?N.eqb_eq, ?Z.eqb_eq; split; congruence.
Qed.

Lemma atom_eqb_refl a : atom_eqb a a = true.
Proof. apply atom_eqb_eq. reflexivity. Qed.

Lemma sat_app r s1 s2 : sat r (s1 ++ s2) <-> sat r s1 /\ sat r s2.
Proof.
  unfold sat; split.
  - intros H; split; intros x t Hi; apply H; apply in_or_app; auto.
  - intros [H1 H2] x t Hi; apply in_app_or in Hi; destruct Hi; auto.
Qed.

Lemma assv_in x s t : assv x s = Some t -> In (x, t) s.
Proof.
  induction s as [|[k v] s IH]; simpl; [discriminate|].
  destruct (N.eqb_spec k x); intros H; [inversion H; subst; auto | auto].
Qed.

Lemma assv_none x s : assv x s = None <-> ~ In x (map fst s).
Proof.
  induction s as [|[k v] s IH]; simpl; [tauto|].
  destruct (N.eqb_spec k x) as [E|E].
  - split; [discriminate | intros H; exfalso; apply H; auto].
  - rewrite IH. split; [intros H [A|A]; [congruence|auto] | intros H A; apply H; auto].
Qed.

Lemma assv_app x s1 s2 :
  assv x (s1 ++ s2) = match assv x s1 with Some t => Some t | None => assv x s2 end.
Proof.
  induction s1 as [|[k v] s1 IH]; simpl; auto. destruct (N.eqb k x); auto.
Qed.

Lemma walk_sat r s : sat r s -> forall f x t, walk f x s = Some t -> inst r t = r x.
Proof.
  intros Hs f; induction f as [|f IH]; simpl; intros x t H; [discriminate|].
  destruct (assv x s) as [w|] eqn:E.
  - apply assv_in in E. apply Hs in E. destruct w; try (inversion H; subst; simpl in *; congruence).
    apply IH in H. simpl in E. congruence.
  - inversion H; reflexivity.
Qed.

Lemma walkt_sat r s : sat r s -> forall f u t, walkt f u s = Some t -> inst r t = inst r u.
Proof.
  intros Hs f u t; destruct u; simpl; try (intros H; inversion H; reflexivity).
  apply walk_sat; assumption.
Qed.

Lemma occurs_size r s : sat r s -> forall f x v, occurs f x v s = Some true ->
  (size (r x) <= size (inst r v))%nat.
Proof.
  intros Hs f; induction f as [|f IH]; simpl; intros x v H; [discriminate|].
  destruct (walkt f v s) as [vv|] eqn:E; [|discriminate].
  pose proof (walkt_sat r s Hs _ _ _ E) as Hw. rewrite <- Hw.
  destruct vv; try discriminate.
  - inversion H as [H1]. apply N.eqb_eq in H1. subst. simpl. lia.
  - simpl. destruct (occurs f x vv1 s) as [[|]|] eqn:E1; try discriminate.
    + apply IH in E1. lia.
    + apply IH in H. lia.
Qed.

(* a walked term is never a bound variable *)
Definition unbound (s : subst) (t : term) := match t with TVar y => assv y s = None | _ => True end.

Lemma walk_unbound f : forall x s t, walk f x s = Some t -> unbound s t.
Proof.
  induction f as [|f IH]; simpl; intros x s t H; [discriminate|].
  destruct (assv x s) as [w|] eqn:E.
  - destruct w; try (inversion H; subst; exact I). eapply IH; eauto.
  - inversion H; subst. exact E.
Qed.

Lemma occurs_true_strict r s : sat r s -> forall f x t, unbound s t -> (forall y, t = TVar y -> y <> x) ->
  occurs f x t s = Some true -> (size (r x) < size (inst r t))%nat.
Proof.
  intros Hs f x t Hu Hne H. destruct f as [|f]; [discriminate|]. simpl in H.
  destruct t; simpl in *; try discriminate.
  - destruct f as [|f]; [discriminate|]. simpl in H. rewrite Hu in H. inversion H as [H1].
    apply N.eqb_eq in H1. exfalso. eapply Hne; eauto.
  - destruct (occurs f x t1 s) as [[|]|] eqn:E1; try discriminate.
    + apply (occurs_size r s Hs) in E1. lia.
    + apply (occurs_size r s Hs) in H. lia.
Qed.

Lemma exts_complete r s : sat r s -> forall f x t, unbound s t -> (forall y, t = TVar y -> y <> x) ->
  r x = inst r t ->
  match exts f x t s with OOF => True | Fail => False | Ok s' => sat r s' end.
Proof.
  intros Hs f x t Hu Hne Hx. unfold exts. destruct (occurs f x t s) as [[|]|] eqn:Eo; auto.
  - apply (occurs_true_strict r s Hs) in Eo; auto. rewrite Hx in Eo. lia.
  - apply sat_app. split; auto. intros y t' [Hi|[]]. inversion Hi; subst. exact Hx.
Qed.

(* MGU direction, and Fail => no unifier: every solution of s that unifies u and v is a solution of the result *)
Theorem unify_complete f : forall u v s r, sat r s -> inst r u = inst r v ->
  match unify f u v s with OOF => True | Fail => False | Ok s' => sat r s' end.
Proof.
  induction f as [|f IH]; simpl; intros u v s r Hs Heq; [exact I|].
  destruct (walkt f u s) as [uu|] eqn:Eu; [|exact I].
  destruct (walkt f v s) as [vv|] eqn:Ev; [|exact I].
  assert (Heq': inst r uu = inst r vv).
  { rewrite (walkt_sat r s Hs _ _ _ Eu), (walkt_sat r s Hs _ _ _ Ev). exact Heq. }
  assert (Huu: unbound s uu).
  { destruct u; simpl in Eu; try (inversion Eu; subst; exact I). eapply walk_unbound; eauto. }
  assert (Hvv: unbound s vv).
  { destruct v; simpl in Ev; try (inversion Ev; subst; exact I). eapply walk_unbound; eauto. }
  destruct uu, vv; simpl in Heq'; try discriminate; try exact Hs;
  try (apply (exts_complete r s Hs); auto; try (intros; discriminate); fail).
  - inversion Heq'; subst. rewrite atom_eqb_refl. exact Hs.
  - destruct (N.eqb_spec i i0); [exact Hs|]. apply (exts_complete r s Hs); auto.
    intros y Hy. inversion Hy; subst. congruence.
  - inversion Heq' as [[H0 H1]]. pose proof (IH uu1 vv1 s r Hs H0) as IH1.
    destruct (unify f uu1 vv1 s) as [| |s1]; auto. apply IH; auto.
Qed.

(* soundness: the result extends s by appending, and every solution of it solves s and unifies u, v *)
Theorem unify_sound f : forall u v s s', unify f u v s = Ok s' ->
  (exists ext, s' = s ++ ext) /\ forall r, sat r s' -> sat r s /\ inst r u = inst r v.
Proof.
  induction f as [|f IH]; simpl; intros u v s s' H; [discriminate|].
  destruct (walkt f u s) as [uu|] eqn:Eu; [|discriminate].
  destruct (walkt f v s) as [vv|] eqn:Ev; [|discriminate].
  assert (Hext: forall x t, exts f x t s = Ok s' ->
     (exists ext, s' = s ++ ext) /\ forall r, sat r s' -> sat r s /\ r x = inst r t).
  { intros x t He. unfold exts in He. destruct (occurs f x t s) as [[|]|]; try discriminate.
    inversion He; subst. split; [eauto|]. intros r Hr. apply sat_app in Hr. destruct Hr as [H1 H2].
    split; auto. apply H2. simpl; auto. }
  assert (Hfin: forall r, sat r s -> inst r uu = inst r vv -> inst r u = inst r v).
  { intros r Hs Heq. rewrite <- (walkt_sat r s Hs _ _ _ Eu), <- (walkt_sat r s Hs _ _ _ Ev). exact Heq. }
  destruct uu, vv; try discriminate;
  try (inversion H; subst; split; [exists []; rewrite app_nil_r; reflexivity|]; intros r Hr; split; auto; fail);
  try (apply Hext in H; destruct H as [He Hr]; split; [exact He|]; intros r Hs; destruct (Hr r Hs) as [Hs0 Hx];
       split; [exact Hs0|]; apply Hfin; simpl; auto; fail).
  - destruct (atom_eqb a a0) eqn:Ea; [|discriminate]. apply atom_eqb_eq in Ea. subst.
    inversion H; subst; split; [exists []; rewrite app_nil_r; reflexivity|]; intros r Hr; split; auto.
  - destruct (N.eqb_spec i i0).
    + subst. inversion H; subst; split; [exists []; rewrite app_nil_r; reflexivity|]; intros r Hr; split; auto.
    + apply Hext in H; destruct H as [He Hr]; split; [exact He|]; intros r Hs; destruct (Hr r Hs) as [Hs0 Hx].
      split; [exact Hs0|]; apply Hfin; simpl; auto.
  - destruct (unify f uu1 vv1 s) as [| |s1] eqn:E1; try discriminate.
    apply IH in E1. apply IH in H. destruct E1 as [[e1 He1] Hr1]. destruct H as [[e2 He2] Hr2].
    split. { subst. exists (e1 ++ e2). rewrite app_assoc. reflexivity. }
    intros r Hs'. destruct (Hr2 r Hs') as [Hs1 Hd]. destruct (Hr1 r Hs1) as [Hs0 Ha].
    split; auto. apply Hfin; auto. simpl. congruence.
Qed.

(* the solution sets coincide: s' is most general for  s /\ u = v *)
Corollary unify_mgu f u v s s' : unify f u v s = Ok s' ->
  forall r, sat r s' <-> (sat r s /\ inst r u = inst r v).
Proof.
  intros H r. split.
  - apply (unify_sound f u v s s' H).
  - intros [Hs He]. pose proof (unify_complete f u v s r Hs He) as C. rewrite H in C. exact C.
Qed.

Corollary unify_fail f u v s : unify f u v s = Fail -> ~ exists r, sat r s /\ inst r u = inst r v.
Proof.
  intros H [r [Hs He]]. pose proof (unify_complete f u v s r Hs He) as C. rewrite H in C. exact C.
Qed.

(* fuel monotonicity: a definite answer does not change with more fuel *)
Lemma walk_mono f : forall x s t, walk f x s = Some t -> forall f', (f <= f')%nat -> walk f' x s = Some t.
Proof.
  induction f as [|f IH]; simpl; intros x s t H f' L; [discriminate|].
  destruct f' as [|f']; [lia|]. simpl.
  destruct (assv x s) as [w|]; auto. destruct w; auto. apply IH; auto. lia.
Qed.

Lemma walkt_mono f u s t : walkt f u s = Some t -> forall f', (f <= f')%nat -> walkt f' u s = Some t.
Proof. destruct u; simpl; auto. apply walk_mono. Qed.

Lemma occurs_mono f : forall x v s b, occurs f x v s = Some b -> forall f', (f <= f')%nat -> occurs f' x v s = Some b.
Proof.
  induction f as [|f IH]; simpl; intros x v s b H f' L; [discriminate|].
  destruct f' as [|f']; [lia|]. simpl.
  destruct (walkt f v s) as [vv|] eqn:E; [|discriminate].
  rewrite (walkt_mono f v s vv E f') by lia.
  destruct vv; auto.
  destruct (occurs f x vv1 s) as [[|]|] eqn:E1; try discriminate.
  - rewrite (IH _ _ _ _ E1 f') by lia. exact H.
  - rewrite (IH _ _ _ _ E1 f') by lia. apply IH; auto. lia.
Qed.

Lemma exts_mono f x v s : exts f x v s <> OOF -> forall f', (f <= f')%nat -> exts f' x v s = exts f x v s.
Proof.
  unfold exts. intros H f' L. destruct (occurs f x v s) as [b|] eqn:E; [|congruence].
  rewrite (occurs_mono f x v s b E f' L). reflexivity.
Qed.

Lemma unify_mono f : forall u v s, unify f u v s <> OOF -> forall f', (f <= f')%nat -> unify f' u v s = unify f u v s.
Proof.
  induction f as [|f IH]; simpl; intros u v s H f' L; [congruence|].
  destruct f' as [|f']; [lia|]. simpl.
  destruct (walkt f u s) as [uu|] eqn:Eu; [|congruence].
  destruct (walkt f v s) as [vv|] eqn:Ev; [|congruence].
  rewrite (walkt_mono f u s uu Eu f'), (walkt_mono f v s vv Ev f') by lia.
  destruct uu, vv; auto; try (apply exts_mono; auto; lia).
  - destruct (N.eqb i i0); auto. apply exts_mono; auto; lia.
  - destruct (unify f uu1 vv1 s) as [| |s1] eqn:E1; try congruence.
    + rewrite (IH uu1 vv1 s) by (try lia; congruence). rewrite E1. reflexivity.
    + rewrite (IH uu1 vv1 s) by (try lia; congruence). rewrite E1. apply IH; auto. lia.
Qed.

(* the goal: zero or one state, counter unchanged, one state iff a compatible unifier exists *)
Theorem equalo_spec f u v st l : equalo f u v st = Some l ->
  (l = [] /\ ~ exists r, sat r (sub st) /\ inst r u = inst r v) \/
  (exists s', l = [mkSt s' (ctr st)] /\ (exists ext, s' = sub st ++ ext) /\
              forall r, sat r s' <-> (sat r (sub st) /\ inst r u = inst r v)).
Proof.
  unfold equalo. destruct (unify f u v (sub st)) as [| |s'] eqn:E; intros H; inversion H; subst.
  - left. split; auto. apply (unify_fail f); auto.
  - right. exists s'. split; auto. split.
    + apply (unify_sound f u v (sub st) s' E).
    + apply (unify_mgu f); auto.
Qed.
