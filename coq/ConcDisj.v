(* C10, part 1: concurrent.DisjPlus / DisjPlusZzz / DisjPlusNoOrder (concurrent/disj.go).

   PART I  (model, no proofs): the goroutine scheduler's choices are an explicit input.
     - DisjPlus / DisjPlusZzz: worker i computes its stream ss_i and sends answer{i, ss_i} on an unbuffered
       channel; the collector receives len(gs) answers in SOME order (`arrivals`) and stores list[ans.i] = ans.s;
       then it merges  list[n-1], list[n-2], ..., list[0]  with Mplus.  A schedule is any permutation of the
       indexed worker results.
     - DisjPlusNoOrder: the collector merges the streams in arrival order.
   PART II (proofs): for every schedule the result of DisjPlus / DisjPlusZzz IS (equal stream) the result of the
   sequential mini.DisjPlusNoZzz / mini.DisjPlus; DisjPlusNoOrder has the same answers for every schedule and,
   when the search space is finite, the same multiset of answers. *)
From Coq Require Import List NArith ZArith Bool Lia Arith Permutation.
From GMK Require Import Term Unify UnifySpec UnifyWf UnifyTotal Goal Stream Den InStream Sound Complete Comb CombPerm.
Import ListNotations.

(* ====================================================================================================== *)
(* PART I: MODEL                                                                                          *)
(* ====================================================================================================== *)

Section ConcDisjModel.
  Variable ds : defs.
  Variable uf : term -> term -> subst -> nat.

  (* what worker goroutine number i computes before it sends: `goal(s)` (z = false) or `micro.Zzz(goal)(s)`
     (z = true), the latter being `Suspension(func() { return goal(s) })` *)
  Definition worker_stream (z : bool) (e : env) (st : state) (g : goal) : stream :=
    if z then SSusp (TGoal g e st) else eval ds uf g e st.

  Definition worker_streams (z : bool) (gs : list goal) (e : env) (st : state) : list stream :=
    map (worker_stream z e st) gs.

  (* the messages `answer{i: index, s: ss}`, in goroutine-creation order *)
  Definition indexed (l : list stream) : list (nat * stream) := combine (seq 0 (length l)) l.

  (* `list[i] = s` on `list := make([]*micro.StreamOfStates, n)`: a slot is None until it has been written.
     (an index out of range would be a Go panic; it never happens for a schedule) *)
  Fixpoint set_slot (i : nat) (s : stream) (l : list (option stream)) {struct l} : list (option stream) :=
    match l, i with
    | [], _ => []
    | _ :: r, O => Some s :: r
    | o :: r, S i' => o :: set_slot i' s r
    end.

  (* `for range gs { ans := <-ch; list[ans.i] = ans.s }` for the arrival order `arrivals` *)
  Definition collect (n : nat) (arrivals : list (nat * stream)) : list (option stream) :=
    fold_left (fun l a => set_slot (fst a) (snd a) l) arrivals (repeat None n).

  (* reading a slot: a never-written slot holds the nil pointer, which is the empty stream *)
  Definition slot_val (o : option stream) : stream := match o with Some s => s | None => SNil end.

  (* `stream := list[n-1]; for i := n-2; i >= 0; i-- { stream = Mplus(list[i], stream) }` *)
  Definition merge_loop (l : list stream) : stream :=
    match rev l with
    | [] => SNil                        (* not reached: the loop is only entered with n >= 2 *)
    | last :: before => fold_left (fun acc s => mplus s acc) before last
    end.

  (* concurrent.DisjPlus(gs...)(st) (z = false) and concurrent.DisjPlusZzz(gs...)(st) (z = true)
     under the schedule `arrivals` *)
  Definition conc_disj (z : bool) (gs : list goal) (e : env) (st : state) (arrivals : list (nat * stream)) : stream :=
    match gs with
    | [] => SNil                                    (* micro.FailureO *)
    | [g] => worker_stream z e st g                 (* gs[0]  /  micro.Zzz(gs[0]) *)
    | _ => merge_loop (map slot_val (collect (length gs) arrivals))
    end.

  (* the schedules of DisjPlus / DisjPlusZzz: every worker's message is received exactly once, in any order *)
  Definition disj_schedule (z : bool) (gs : list goal) (e : env) (st : state) (arrivals : list (nat * stream)) : Prop :=
    Permutation arrivals (indexed (worker_streams z gs e st)).

  (* `stream := <-ch; for i := 0; i < n-1; i++ { stream = Mplus(<-ch, stream) }` for the arrival order `arr` *)
  Definition noorder (arr : list stream) : stream :=
    fold_left (fun acc s => mplus s acc) (tl arr) (hd SNil arr).

  (* concurrent.DisjPlusNoOrder(gs...)(st) under the schedule `arr` *)
  Definition conc_disj_noorder (gs : list goal) (e : env) (st : state) (arr : list stream) : stream :=
    match gs with
    | [] => SNil
    | [g] => eval ds uf g e st
    | _ => noorder arr
    end.

  Definition noorder_schedule (gs : list goal) (e : env) (st : state) (arr : list stream) : Prop :=
    Permutation arr (worker_streams false gs e st).

  (* the right-nested merge  Mplus(l0, Mplus(l1, ... l_{n-1}))  (specification side, used in the proofs) *)
  Fixpoint fold_disj (l : list stream) : stream :=
    match l with
    | [] => SNil
    | [s] => s
    | s :: r => mplus s (fold_disj r)
    end.
End ConcDisjModel.

(* ====================================================================================================== *)
(* PART II: PROOFS                                                                                        *)
(* ====================================================================================================== *)

(* ---------- slots ---------- *)

Lemma set_slot_length i s l : length (set_slot i s l) = length l.
Proof.
  revert i. induction l as [|o r IH]; intros i; simpl; [reflexivity|].
  destruct i; simpl; [reflexivity|]. rewrite IH. reflexivity.
Qed.

Lemma set_slot_same i s l : i < length l -> nth_error (set_slot i s l) i = Some (Some s).
Proof.
  revert i. induction l as [|o r IH]; intros i L; simpl in *; [lia|].
  destruct i; simpl; [reflexivity|]. apply IH. lia.
Qed.

Lemma set_slot_other i j s l : i <> j -> nth_error (set_slot i s l) j = nth_error l j.
Proof.
  revert i j. induction l as [|o r IH]; intros i j N; simpl; [reflexivity|].
  destruct i, j; simpl; try reflexivity; [congruence|]. apply IH. congruence.
Qed.

Definition write_all (arr : list (nat * stream)) (l : list (option stream)) : list (option stream) :=
  fold_left (fun l a => set_slot (fst a) (snd a) l) arr l.

Lemma write_all_length arr : forall l, length (write_all arr l) = length l.
Proof.
  induction arr as [|a arr IH]; intros l; simpl; [reflexivity|].
  unfold write_all in *. simpl. rewrite IH. apply set_slot_length.
Qed.

Lemma write_all_untouched arr : forall l j, ~ In j (map fst arr) ->
  nth_error (write_all arr l) j = nth_error l j.
Proof.
  induction arr as [|a arr IH]; intros l j N; [reflexivity|].
  unfold write_all in *. simpl in *. rewrite IH by tauto. apply set_slot_other. tauto.
Qed.

(* with distinct indices, the slot of an index holds the stream that arrived with it, whatever the order *)
Lemma write_all_slot arr : forall l i s, NoDup (map fst arr) -> In (i, s) arr -> i < length l ->
  nth_error (write_all arr l) i = Some (Some s).
Proof.
  induction arr as [|a arr IH]; intros l i s ND Hin L; [contradiction|].
  simpl in ND. inversion ND as [|? ? Hn ND']; subst. destruct Hin as [E|Hin].
  - subst a. unfold write_all. simpl. fold (write_all arr (set_slot i s l)).
    rewrite write_all_untouched by exact Hn. apply set_slot_same. exact L.
  - unfold write_all. simpl. fold (write_all arr (set_slot (fst a) (snd a) l)).
    apply IH; [exact ND'|exact Hin|]. rewrite set_slot_length. exact L.
Qed.

(* ---------- the indexed messages ---------- *)

Lemma map_fst_combine_seq (l : list stream) : forall a, map fst (combine (seq a (length l)) l) = seq a (length l).
Proof.
  induction l as [|s l IH]; intros a; simpl; [reflexivity|]. rewrite IH. reflexivity.
Qed.

Lemma in_combine_seq (l : list stream) : forall a i s,
  In (i, s) (combine (seq a (length l)) l) <-> a <= i /\ nth_error l (i - a) = Some s.
Proof.
  induction l as [|s0 l IH]; intros a i s; simpl.
  - split; [contradiction|]. intros [_ H]. destruct (i - a); discriminate.
  - rewrite IH. split.
    + intros [E|[L H]].
      * inversion E; subst. split; [lia|]. rewrite Nat.sub_diag. reflexivity.
      * split; [lia|]. replace (i - a) with (S (i - S a)) by lia. exact H.
    + intros [L H]. destruct (Nat.eq_dec a i) as [E|N].
      * subst. rewrite Nat.sub_diag in H. simpl in H. inversion H; subst. left. reflexivity.
      * right. split; [lia|]. replace (i - a) with (S (i - S a)) in H by lia. exact H.
Qed.

Lemma indexed_fst l : map fst (indexed l) = seq 0 (length l).
Proof. apply map_fst_combine_seq. Qed.

Lemma indexed_in l i s : In (i, s) (indexed l) <-> nth_error l i = Some s.
Proof.
  unfold indexed. rewrite in_combine_seq. rewrite Nat.sub_0_r. split; [tauto|]. intros H; split; [lia|exact H].
Qed.

(* the collector reconstructs the worker results in goroutine-creation order, for EVERY arrival order *)
Theorem collect_order_free : forall l arrivals,
  Permutation arrivals (indexed l) -> collect (length l) arrivals = map Some l.
Proof.
  intros l arr P. unfold collect. fold (write_all arr (repeat None (length l))).
  assert (ND : NoDup (map fst arr)).
  { apply (Permutation_NoDup (l := map fst (indexed l))).
    - apply Permutation_map. apply Permutation_sym. exact P.
    - rewrite indexed_fst. apply seq_NoDup. }
  apply (nth_ext _ _ None None).
  - rewrite write_all_length, repeat_length, map_length. reflexivity.
  - intros i L. rewrite write_all_length, repeat_length in L.
    destruct (nth_error l i) as [s|] eqn:E; [|apply nth_error_None in E; lia].
    assert (Hin : In (i, s) arr).
    { apply (Permutation_in (l := indexed l)); [apply Permutation_sym; exact P|]. apply indexed_in. exact E. }
    pose proof (write_all_slot arr (repeat None (length l)) i s ND Hin) as W.
    rewrite repeat_length in W. specialize (W L).
    rewrite (nth_error_nth _ _ None W).
    symmetry. apply nth_error_nth. rewrite nth_error_map, E. reflexivity.
Qed.

(* ---------- the merge loop is the right-nested Mplus ---------- *)

Lemma fold_left_rev_mplus : forall (p : list stream) last,
  fold_left (fun acc s => mplus s acc) (rev p) last = fold_right mplus last p.
Proof.
  intros p last. rewrite <- fold_left_rev_right. rewrite rev_involutive. reflexivity.
Qed.

Lemma fold_disj_snoc : forall p last, fold_disj (p ++ [last]) = fold_right mplus last p.
Proof.
  induction p as [|s p IH]; intros last; [reflexivity|].
  simpl. rewrite <- IH. destruct (p ++ [last]) eqn:E; [destruct p; discriminate|reflexivity].
Qed.

Lemma merge_loop_fold_disj : forall l, merge_loop l = fold_disj l.
Proof.
  intros l. unfold merge_loop. destruct (rev l) as [|last before] eqn:E.
  - assert (l = []) by (rewrite <- (rev_involutive l), E; reflexivity). subst. reflexivity.
  - assert (El : l = rev before ++ [last]) by (rewrite <- (rev_involutive l), E; reflexivity).
    rewrite El, fold_disj_snoc, <- fold_left_rev_mplus, rev_involutive. reflexivity.
Qed.

Section ConcDisjProofs.
  Variable ds : defs.
  Variable uf : term -> term -> subst -> nat.

  Local Notation eval := (eval ds uf).
  Local Notation InStream := (InStream ds uf).
  Local Notation ReachErr := (ReachErr ds uf).
  Local Notation Ans := (Ans ds uf).
  Local Notation PA := (PA ds uf).

  (* ---------- the sequential disj+ as a right-nested merge of the argument streams ---------- *)

  Lemma seq_disj_fold : forall z gs e st,
    eval (GDisjPlus z gs) e st = fold_disj (worker_streams ds uf z gs e st).
  Proof.
    intros z gs e st. induction gs as [|g1 rest IH]; [destruct z; reflexivity|].
    destruct rest as [|g2 r]; [destruct z; reflexivity|].
    destruct z.
    - change (eval (GDisjPlus true (g1 :: g2 :: r)) e st)
        with (mplus (SSusp (TGoal g1 e st)) (eval (GDisjPlus true (g2 :: r)) e st)).
      rewrite IH. reflexivity.
    - rewrite eval_disjplus_cons, IH. reflexivity.
  Qed.

  (* ---------- (1) DisjPlus / DisjPlusZzz: the same stream for every schedule ---------- *)

  Theorem conc_disj_order_free_gen : forall z gs e st arrivals,
    disj_schedule ds uf z gs e st arrivals ->
    conc_disj ds uf z gs e st arrivals = eval (GDisjPlus z gs) e st.
  Proof.
    intros z gs e st arr P. rewrite seq_disj_fold. unfold conc_disj.
    destruct gs as [|g1 [|g2 r]]; [reflexivity|reflexivity|].
    unfold disj_schedule in P.
    replace (length (g1 :: g2 :: r)) with (length (worker_streams ds uf z (g1 :: g2 :: r) e st))
      by (unfold worker_streams; apply map_length).
    rewrite (collect_order_free _ _ P), map_map. simpl slot_val. rewrite map_id.
    apply merge_loop_fold_disj.
  Qed.

  (* concurrent.DisjPlus = mini.DisjPlusNoZzz *)
  Theorem conc_disj_order_free : forall gs e st arrivals,
    Permutation arrivals (combine (seq 0 (length gs)) (map (fun g => eval g e st) gs)) ->
    conc_disj ds uf false gs e st arrivals = eval (GDisjPlus false gs) e st.
  Proof.
    intros gs e st arr P. apply conc_disj_order_free_gen. unfold disj_schedule, indexed, worker_streams.
    rewrite map_length. exact P.
  Qed.

  (* concurrent.DisjPlusZzz = mini.DisjPlus *)
  Theorem conc_disj_zzz_order_free : forall gs e st arrivals,
    Permutation arrivals (combine (seq 0 (length gs)) (map (fun g => SSusp (TGoal g e st)) gs)) ->
    conc_disj ds uf true gs e st arrivals = eval (GDisjPlus true gs) e st.
  Proof.
    intros gs e st arr P. apply conc_disj_order_free_gen. unfold disj_schedule, indexed, worker_streams.
    rewrite map_length. exact P.
  Qed.

  (* two runs (two schedules) of the same call return the same stream *)
  Corollary conc_disj_deterministic : forall z gs e st arr1 arr2,
    disj_schedule ds uf z gs e st arr1 -> disj_schedule ds uf z gs e st arr2 ->
    conc_disj ds uf z gs e st arr1 = conc_disj ds uf z gs e st arr2.
  Proof. intros. rewrite !conc_disj_order_free_gen by assumption. reflexivity. Qed.

  (* ---------- membership in merges of lists of streams ---------- *)

  Definition no_err (l : list stream) : Prop := forall s, In s l -> ~ ReachErr s.

  Lemma no_err_cons s l : no_err (s :: l) <-> ~ ReachErr s /\ no_err l.
  Proof.
    unfold no_err; split.
    - intros H; split; [apply H; left; reflexivity|]. intros s' Hs'. apply H. right. exact Hs'.
    - intros [H1 H2] s' [E|Hs']; [subst; exact H1|auto].
  Qed.

  Lemma fold_left_merge_no_err : forall l acc, ~ ReachErr acc -> no_err l ->
    ~ ReachErr (fold_left (fun acc s => mplus s acc) l acc).
  Proof.
    induction l as [|s l IH]; intros acc Ha Hl; simpl; [exact Ha|].
    apply no_err_cons in Hl. destruct Hl as [Hs Hl]. apply IH; [|exact Hl].
    apply not_RErr_mplus. split; assumption.
  Qed.

  Lemma fold_left_merge_mem : forall x l acc, ~ ReachErr acc -> no_err l ->
    (InStream x (fold_left (fun acc s => mplus s acc) l acc) <->
     InStream x acc \/ exists s, In s l /\ InStream x s).
  Proof.
    intros x. induction l as [|s l IH]; intros acc Ha Hl; simpl.
    - split; [auto|]. intros [H|[s [[] _]]]. exact H.
    - apply no_err_cons in Hl. destruct Hl as [Hs Hl].
      rewrite IH; [|apply not_RErr_mplus; split; assumption|exact Hl].
      rewrite (InS_mplus ds uf x s acc Hs Ha). split.
      + intros [[H|H]|[s' [Hin H]]]; [right; exists s; auto|left; exact H|right; exists s'; auto].
      + intros [H|[s' [[E|Hin] H]]]; [left; right; exact H|subst; left; left; exact H|right; exists s'; auto].
  Qed.

  Lemma fold_disj_no_err : forall l, no_err l -> ~ ReachErr (fold_disj l).
  Proof.
    induction l as [|s l IH]; intros Hl; [apply RErr_nil|].
    apply no_err_cons in Hl. destruct Hl as [Hs Hl].
    destruct l as [|s2 r]; [exact Hs|].
    change (fold_disj (s :: s2 :: r)) with (mplus s (fold_disj (s2 :: r))).
    apply not_RErr_mplus. split; [exact Hs|apply IH; exact Hl].
  Qed.

  Lemma fold_disj_mem : forall x l, no_err l ->
    (InStream x (fold_disj l) <-> exists s, In s l /\ InStream x s).
  Proof.
    intros x. induction l as [|s l IH]; intros Hl.
    - simpl. split; [inversion 1|intros [s [[] _]]].
    - apply no_err_cons in Hl. destruct Hl as [Hs Hl].
      destruct l as [|s2 r].
      + simpl. split; [intros H; exists s; auto|intros [s' [[E|[]] H]]; subst; exact H].
      + change (fold_disj (s :: s2 :: r)) with (mplus s (fold_disj (s2 :: r))).
        rewrite (InS_mplus ds uf x s _ Hs (fold_disj_no_err _ Hl)), (IH Hl). split.
        * intros [H|[s' [Hin H]]]; [exists s; split; [left; reflexivity|exact H]|exists s'; split; [right; exact Hin|exact H]].
        * intros [s' [[E|Hin] H]]; [subst; left; exact H|right; exists s'; auto].
  Qed.

  (* ---------- (2) DisjPlusNoOrder: membership does not depend on the arrival order ---------- *)

  Theorem noorder_mem : forall arr x, no_err arr ->
    (InStream x (noorder arr) <-> exists s, In s arr /\ InStream x s).
  Proof.
    intros arr x Hn. unfold noorder. destruct arr as [|s0 l]; simpl.
    - split; [inversion 1|intros [s [[] _]]].
    - apply no_err_cons in Hn. destruct Hn as [H0 Hl].
      rewrite (fold_left_merge_mem x l s0 H0 Hl). split.
      + intros [H|[s [Hin H]]]; [exists s0; auto|exists s; auto].
      + intros [s [[E|Hin] H]]; [subst; left; exact H|right; exists s; auto].
  Qed.

  Theorem noorder_no_err : forall arr, no_err arr -> ~ ReachErr (noorder arr).
  Proof.
    intros arr Hn. unfold noorder. destruct arr as [|s0 l]; simpl; [apply RErr_nil|].
    apply no_err_cons in Hn. destruct Hn as [H0 Hl]. apply fold_left_merge_no_err; assumption.
  Qed.

  Lemma no_err_perm : forall l l', Permutation l l' -> no_err l' -> no_err l.
  Proof. intros l l' P H s Hs. apply H. eapply Permutation_in; eauto. Qed.

  (* every schedule of DisjPlusNoOrder has exactly the answers of the sequential mini.DisjPlusNoZzz *)
  Theorem conc_disj_noorder_answers : forall gs e st arr,
    noorder_schedule ds uf gs e st arr ->
    (forall g, In g gs -> ~ ReachErr (eval g e st)) ->
    forall x, InStream x (conc_disj_noorder ds uf gs e st arr) <-> InStream x (eval (GDisjPlus false gs) e st).
  Proof.
    intros gs e st arr P Hne x. unfold noorder_schedule in P.
    assert (Hw : no_err (worker_streams ds uf false gs e st)).
    { intros s Hs. unfold worker_streams in Hs. apply in_map_iff in Hs. destruct Hs as [g [E Hg]]. subst s.
      simpl. apply Hne. exact Hg. }
    rewrite seq_disj_fold. unfold conc_disj_noorder.
    destruct gs as [|g1 [|g2 r]]; [reflexivity|reflexivity|].
    rewrite (noorder_mem arr x (no_err_perm _ _ P Hw)), (fold_disj_mem x _ Hw).
    split; intros [s [Hin H]]; exists s; (split; [|exact H]).
    - eapply Permutation_in; eauto.
    - eapply Permutation_in; [apply Permutation_sym; exact P|exact Hin].
  Qed.

  (* for purely relational programs with delayed recursion the no-error side condition always holds *)
  Corollary conc_disj_noorder_answers_rel : forall gs e st arr,
    uf_ok uf -> defs_ok ds ->
    calls_okb ds (GDisjPlus false gs) = true -> wf_state st -> env_ok e (ctr st) ->
    noorder_schedule ds uf gs e st arr ->
    forall x, InStream x (conc_disj_noorder ds uf gs e st arr) <-> InStream x (eval (GDisjPlus false gs) e st).
  Proof.
    intros gs e st arr Hu Hdf Hc Hwf He P. apply conc_disj_noorder_answers; [exact P|].
    intros g Hg. simpl in Hc. rewrite forallb_forall in Hc.
    apply (eval_no_err ds uf Hu Hdf g e st (Hc g Hg) Hwf He).
  Qed.

  (* ---------- (2') finite search spaces: the same multiset of answers ---------- *)

  Lemma Forall2_Ans_perm : forall l l', Permutation l l' -> forall ll, Forall2 Ans l ll ->
    exists ll', Forall2 Ans l' ll' /\ Permutation (concat ll) (concat ll').
  Proof.
    induction 1 as [|s l l' P IH|a b l|l l' l'' P1 IH1 P2 IH2]; intros ll F.
    - inversion F; subst. exists []. split; constructor.
    - inversion F as [|? la ? ll0 Ha F0]; subst. destruct (IH _ F0) as [ll' [F' Pc]].
      exists (la :: ll'). split; [constructor; assumption|]. simpl. apply Permutation_app_head. exact Pc.
    - inversion F as [|? lb ? ll0 Hb F0]; subst. inversion F0 as [|? la ? ll1 Ha F1]; subst.
      exists (la :: lb :: ll1). split; [repeat constructor; assumption|].
      simpl. rewrite !app_assoc. apply Permutation_app_tail. apply Permutation_app_comm.
    - destruct (IH1 _ F) as [ll' [F' Pc]]. destruct (IH2 _ F') as [ll'' [F'' Pc']].
      exists ll''. split; [exact F''|]. eapply Permutation_trans; eauto.
  Qed.

  Lemma fold_left_merge_ans : forall l acc L, Ans (fold_left (fun acc s => mplus s acc) l acc) L ->
    exists l0 ll, Ans acc l0 /\ Forall2 Ans l ll /\ Permutation L (l0 ++ concat ll).
  Proof.
    induction l as [|s l IH]; intros acc L H; simpl in H.
    - exists L, []. split; [exact H|]. split; [constructor|]. simpl. rewrite app_nil_r. apply Permutation_refl.
    - destruct (IH _ _ H) as [l1 [ll [H1 [F P]]]].
      apply Ans_mplus_inv in H1. destruct H1 as [ls [l0 [Hs [H0 P1]]]].
      exists l0, (ls :: ll). split; [exact H0|]. split; [constructor; assumption|].
      simpl. eapply Permutation_trans; [exact P|].
      eapply Permutation_trans; [apply Permutation_app_tail; exact P1|].
      rewrite !app_assoc. apply Permutation_app_tail. apply Permutation_app_comm.
  Qed.

  Lemma noorder_ans : forall arr L, Ans (noorder arr) L ->
    exists ll, Forall2 Ans arr ll /\ Permutation L (concat ll).
  Proof.
    intros arr L H. unfold noorder in H. destruct arr as [|s0 l]; simpl in H.
    - inversion H; subst. exists []. split; constructor.
    - destruct (fold_left_merge_ans _ _ _ H) as [l0 [ll [H0 [F P]]]].
      exists (l0 :: ll). split; [constructor; assumption|exact P].
  Qed.

  Lemma fold_disj_PA : forall l ll, Forall2 Ans l ll -> PA (fold_disj l) (concat ll).
  Proof.
    induction l as [|s l IH]; intros ll F; inversion F as [|? la ? ll0 Ha F0]; subst.
    - apply PA_ans. constructor.
    - destruct l as [|s2 r].
      + inversion F0; subst. simpl. rewrite app_nil_r. apply PA_ans. exact Ha.
      + change (fold_disj (s :: s2 :: r)) with (mplus s (fold_disj (s2 :: r))).
        simpl. apply PA_mplus; [apply PA_ans; exact Ha|apply IH; exact F0].
  Qed.

  (* if a run of DisjPlusNoOrder ends with the complete answer list l, the sequential mini.DisjPlusNoZzz ends
     with a permutation of l.  (Ans excludes errors, so no side condition is needed.) *)
  Theorem conc_disj_noorder_multiset : forall gs e st arr l,
    noorder_schedule ds uf gs e st arr ->
    Ans (conc_disj_noorder ds uf gs e st arr) l ->
    exists l', Ans (eval (GDisjPlus false gs) e st) l' /\ Permutation l l'.
  Proof.
    intros gs e st arr l P H. unfold noorder_schedule in P. rewrite seq_disj_fold.
    unfold conc_disj_noorder in H.
    destruct gs as [|g1 [|g2 r]];
      [exists l; split; [exact H|apply Permutation_refl] | exists l; split; [exact H|apply Permutation_refl] |].
    destruct (noorder_ans _ _ H) as [ll [F Pl]].
    destruct (Forall2_Ans_perm _ _ P _ F) as [ll' [F' Pc]].
    destruct (fold_disj_PA _ _ F') as [l' [Hl' Pl']].
    exists l'. split; [exact Hl'|].
    eapply Permutation_trans; [exact Pl|]. eapply Permutation_trans; [exact Pc|]. apply Permutation_sym. exact Pl'.
  Qed.

  (* conversely: if the sequential disjunction ends, so does every run of DisjPlusNoOrder, with a permutation *)
  Lemma fold_left_merge_PA : forall l ll, Forall2 Ans l ll -> forall acc l0, PA acc l0 ->
    PA (fold_left (fun acc s => mplus s acc) l acc) (l0 ++ concat ll).
  Proof.
    induction 1 as [|s ls l ll Hs F IH]; intros acc l0 Ha; simpl.
    - rewrite app_nil_r. exact Ha.
    - eapply PA_perm; [apply IH; apply PA_mplus; [apply PA_ans; exact Hs|exact Ha]|].
      rewrite !app_assoc. apply Permutation_app_tail. apply Permutation_app_comm.
  Qed.

  Lemma fold_disj_ans_inv : forall l L, Ans (fold_disj l) L ->
    exists ll, Forall2 Ans l ll /\ Permutation L (concat ll).
  Proof.
    induction l as [|s l IH]; intros L H.
    - inversion H; subst. exists []. split; constructor.
    - destruct l as [|s2 r].
      + exists [L]. split; [constructor; [exact H|constructor]|]. simpl. rewrite app_nil_r. apply Permutation_refl.
      + change (fold_disj (s :: s2 :: r)) with (mplus s (fold_disj (s2 :: r))) in H.
        apply Ans_mplus_inv in H. destruct H as [ls [lr [Hs [Hr P]]]].
        destruct (IH _ Hr) as [ll [F Pr]]. exists (ls :: ll). split; [constructor; assumption|].
        simpl. eapply Permutation_trans; [exact P|]. apply Permutation_app_head. exact Pr.
  Qed.

  Theorem conc_disj_noorder_multiset_conv : forall gs e st arr l',
    noorder_schedule ds uf gs e st arr ->
    Ans (eval (GDisjPlus false gs) e st) l' ->
    exists l, Ans (conc_disj_noorder ds uf gs e st arr) l /\ Permutation l l'.
  Proof.
    intros gs e st arr l' P H. unfold noorder_schedule in P. rewrite seq_disj_fold in H.
    unfold conc_disj_noorder.
    destruct gs as [|g1 [|g2 r]];
      [exists l'; split; [exact H|apply Permutation_refl] | exists l'; split; [exact H|apply Permutation_refl] |].
    destruct (fold_disj_ans_inv _ _ H) as [ll' [F' Pl']].
    destruct (Forall2_Ans_perm _ _ (Permutation_sym P) _ F') as [ll [F Pc]].
    assert (HP : PA (noorder arr) (concat ll)).
    { unfold noorder. destruct F as [|s0 l0 rest ll0 H0 F0]; simpl.
      - apply PA_ans. constructor.
      - apply fold_left_merge_PA; [exact F0|apply PA_ans; exact H0]. }
    destruct HP as [l [Hl Pl]]. exists l. split; [exact Hl|].
    eapply Permutation_trans; [exact Pl|]. eapply Permutation_trans; [apply Permutation_sym; exact Pc|].
    apply Permutation_sym. exact Pl'.
  Qed.

  (* ---------- DisjPlus and DisjPlusZzz against each other: same answers (the interleaving differs) ---------- *)

  Theorem conc_disj_zzz_same_answers : forall gs e st arr arrz,
    disj_schedule ds uf false gs e st arr -> disj_schedule ds uf true gs e st arrz ->
    (forall g, In g gs -> ~ ReachErr (eval g e st)) ->
    forall x, InStream x (conc_disj ds uf true gs e st arrz) <-> InStream x (conc_disj ds uf false gs e st arr).
  Proof.
    intros gs e st arr arrz P Pz Hne x. rewrite !conc_disj_order_free_gen by assumption.
    rewrite disj_nozzz_eq. apply disj_zzz_answers. exact Hne.
  Qed.
End ConcDisjProofs.
