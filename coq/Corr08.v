(* Correspondence for C08 (micro part): reification of answer states and Run. *)
From Coq Require Import List NArith ZArith Bool.
From GMK Require Import Term Unify Goal Stream Reify CorrBase Corr01 Corr02.
Import ListNotations.

Inductive case08 :=
| CReify (q : N) (s : subst) (c : N) (out : term)                 (* ReifyIntVarFromState(q)(&State{s,c}) = out *)
| CRun (ds : defs) (g : goal) (n : Z) (fuel : nat) (outs : list term)  (* micro.Run(n, g) = outs *)
| CReifyS (v : term) (out : subst).                                (* reifyS(v) = out *)

Definition check08 (c : case08) : bool :=
  match c with
  | CReify q s ct out => opt_eqb term_eqb (reify_var F01 q (mkSt s ct)) (Some out)
  | CRun ds g n fuel outs => opt_eqb (list_eqb term_eqb) (run ds uf400 fuel n g) (Some outs)
  | CReifyS v out => opt_eqb subst_eqb (reifys F01 v []) (Some out)
  end.
