(* Correspondence for C08 (micro part): reification of answer states and Run. *)
From Coq Require Import List NArith ZArith Bool.
From GMK Require Import Term Unify Goal Stream Reify Reflect GCore CorrBase Corr01 Corr02.
Import ListNotations.

Inductive case08 :=
| CReify (q : N) (s : subst) (c : N) (out : term)                 (* ReifyIntVarFromState(q)(&State{s,c}) = out *)
| CRun (ds : defs) (g : goal) (n : Z) (fuel : nat) (outs : list term)  (* micro.Run(n, g) = outs *)
| CReifyS (v : term) (out : subst)                                 (* reifyS(v) = out *)
(* gomini.Run(q => ConjO(EqualO(x1,y1), ..., EqualO(xk,yk))): the answers (0 or 1), as Reflect.gval with registered pointers as
   gvar i; checked against the transcribed algorithm: GCore.gunify folded over the equations, then GCore.grewrite of the query *)
| CGRun (q : gval) (eqs : list (gval * gval)) (answers : list gval).

Definition check08 (c : case08) : bool :=
  match c with
  | CReify q s ct out => opt_eqb term_eqb (reify_var F01 q (mkSt s ct)) (Some out)
  | CRun ds g n fuel outs => opt_eqb (list_eqb term_eqb) (run ds uf400 fuel n g) (Some outs)
  | CReifyS v out => opt_eqb subst_eqb (reifys F01 v []) (Some out)
  | CGRun q eqs answers =>
      match fold_left (fun acc e => match acc with GROk s => gunify F01 (fst e) (snd e) s | other => other end) eqs (GROk []) with
      | GROk s => match grewrite F01 q s with
                 | Some r => match answers with [a] => gval_eqb r a | _ => false end
                 | None => false
                 end
      | GRFail => match answers with [] => true | _ => false end
      | GROOF => false
      end
  end.
