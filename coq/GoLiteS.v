(* Primitives of the stream dialect of the Go -> Gallina translator (harness/cmd/genmicro -stream): what takeStream
   (micro/stream.go) does to a stream, over the defunctionalised stream model of Stream.v.  Model only: no proofs here. *)
From Coq Require Import List NArith ZArith Bool.
From GMK Require Import Term Unify Goal Stream GoLite.
Import ListNotations.

Definition stream_is_nil (s : stream) : bool := match s with SNil => true | _ => false end.
Definition opt_is_none {A} (o : option A) : bool := match o with None => true | Some _ => false end.

(* car, cdr := s.CarCdr(): a mature cell hands out its state and its (already computed) tail; an immature cell has no state
   and its tail is the suspension, run now.  On nil it is a nil dereference.  SErr is the model's "this goal cannot even be
   started within the unify fuel / recurses while it is built": never an answer, reported as out of fuel. *)
Definition carcdr (ds : defs) (uf : term -> term -> subst -> nat) (s : stream) : R (option state * stream) :=
  match s with
  | SNil => Panic
  | SCons a tl => Ret (Some a, tl)
  | SSusp th => Ret (None, force ds uf th)
  | SErr => OOF_
  end.

(* append([]*State{car}, ss...): the model's answer lists hold states, not nil pointers; a nil car here is outside it *)
Definition cons_opt (x : option state) (l : list state) : R (list state) :=
  match x with Some a => Ret (a :: l) | None => Panic end.

(* ---- Mplus / Bind (micro/disj.go, micro/conj.go) ---- *)

(* a goal as the stream operators use it: how to run it on a state, how the model names the suspended Bind of it over a
   thunk, and how the model names the suspension of the goal itself at a state (the model is defunctionalised) *)
Record sgoal : Type := mkSGoal { sg_run : state -> stream; sg_bind : thunk -> thunk; sg_thunk : state -> thunk;
                               sg_goal : goal; sg_env : env }.

(* s.state of a cell: nil for an immature cell; a nil dereference on nil *)
Definition cell_state (s : stream) : R (option state) :=
  match s with
  | SNil => Panic
  | SCons a _ => Ret (Some a)
  | SSusp _ => Ret None
  | SErr => OOF_
  end.

(* Suspension(func() { _, cdr := x.CarCdr(); return Mplus(y, cdr) }): x is an immature cell, whose thunk the new thunk wraps.
   On a mature x the Go closure would drop the head and continue with the tail; the defunctionalised model has no thunk
   for that, and the code only builds it under `x.state == nil`. *)
Definition susp_mplus (y x : stream) : R stream :=
  match x with SSusp th => Ret (SSusp (TMplus y th)) | SErr => OOF_ | _ => Panic end.
Definition susp_bind (g : sgoal) (x : stream) : R stream :=
  match x with SSusp th => Ret (SSusp (sg_bind g th)) | SErr => OOF_ | _ => Panic end.

(* NewStream(car, func() { return t }): a mature cell; its lazily computed tail is modelled as the computed tail.
   NewStream(nil, proc) would be an immature cell: outside the model, and the code passes a non-nil car. *)
Definition new_stream (car : option state) (t : stream) : R stream :=
  match car with Some a => Ret (SCons a t) | None => Panic end.

(* g(car) *)
Definition app_goal (g : sgoal) (car : option state) : R stream :=
  match car with Some a => Ret (sg_run g a) | None => Panic end.

(* Suspension(func() { return g(s) }): the goal g suspended at s *)
Definition susp_goal (g : sgoal) (s : option state) : R stream :=
  match s with Some st => Ret (SSusp (sg_thunk g st)) | None => Panic end.

(* s.Counter, s.Substitutions: a nil dereference on a nil state *)
Definition st_counter (s : option state) : R N := match s with Some st => Ret (ctr st) | None => Panic end.
Definition st_subst (s : option state) : R subst := match s with Some st => Ret (sub st) | None => Panic end.

(* ---- ifThenElseLoop / onceLoop (mini/ifthenelse.go, mini/once.go) ---- *)

(* Suspension(func() { return ifThenElseLoop(g2, g3, s, cdr) }) after `car, cdr := x.CarCdr()` with car == nil: x is an immature
   cell and cdr is what its suspension returned, so the closure is "run x's thunk, then loop": the model's TIfte over the thunk
   of x.  The model's thunk carries the two goals as terms closed in ONE environment (that of GIfte); sg_goal / sg_env say which. *)
Definition susp_self_ifThenElseLoop (g2 g3 : sgoal) (s : option state) (x : stream) : R stream :=
  match x, s with
  | SSusp th, Some st => Ret (SSusp (TIfte th (sg_goal g2) (sg_goal g3) (sg_env g2) st))
  | SErr, _ => OOF_
  | _, _ => Panic
  end.
Definition susp_self_onceLoop (x : stream) : R stream :=
  match x with SSusp th => Ret (SSusp (TOnce th)) | SErr => OOF_ | _ => Panic end.
