(* Primitives of the stream dialect of the Go -> Gallina translator (harness/cmd/genmicro -stream): what takeStream
   (micro/stream.go) does to a stream, over the defunctionalised stream model of Stream.v.  Model only: no proofs here. *)
From Coq Require Import List NArith ZArith Bool.
From GMK Require Import Term Unify Goal Stream GoLite.
Import ListNotations.

Definition stream_is_nil (s : stream) : bool := match s with SNil => true | _ => false end.
Definition opt_is_none {A} (o : option A) : bool := match o with None => true | Some _ => false end.

(* car, cdr := s.CarCdr(): a mature cell hands out its state and its (already computed) tail; an immature cell has no state
   and its tail is the suspension, run now.  On nil it is a nil dereference.  SErr is the model's "this goal cannot even be
   started within the unify fuel / recurses while it is built": never an answer, reported as out of fuel. *)
Definition carcdr (ds : defs) (uf : term -> term -> subst -> nat) (s : stream) : R (option state * stream) :=
  match s with
  | SNil => Panic
  | SCons a tl => Ret (Some a, tl)
  | SSusp th => Ret (None, force ds uf th)
  | SErr => OOF_
  end.

(* append([]*State{car}, ss...): the model's answer lists hold states, not nil pointers; a nil car here is outside it *)
Definition cons_opt (x : option state) (l : list state) : R (list state) :=
  match x with Some a => Ret (a :: l) | None => Panic end.
