(* C14, lexical level: the DFA of the checked-in tables (lexer/transitiontable.go + acttab.go, gen/Tables.v) and the token
   regular expressions of sexpr.bnf (gen/GrammarGen.v g_tokens, run as an automaton of Brzozowski derivatives with gocc's
   matching rule: earlier definitions win ties, `.` = any rune no explicit character of the state matches) produce the
   SAME tokens on EVERY byte string - under the Scan loop of lexer.go as written.

   Method: an untrusted certificate `pairs` (DFA state, vector of residual expressions), computed by vm_compute, is checked
   by a boolean validator to be a bisimulation on one representative per character class (the classes cut by all range
   boundaries of the tables and of the grammar); a generic theorem lifts the validator to all runes and all inputs.
   Both gen files are regenerated from /repo on every run, so this is re-proved against what the tables and the grammar
   say now. *)
From Coq Require Import List NArith ZArith Bool Lia Arith.
From GMK Require Import TableTypes Utf8 gen.Tables gen.GrammarGen LexDriver LexRe LRDriver Grammar ParseSpec.
Import ListNotations.

(* ---------- syntactic equality of residual vectors ---------- *)
Fixpoint re_eqb (a b : re) : bool :=
  match a, b with
  | REmp, REmp | REps, REps | RAny, RAny => true
  | RChr l h, RChr l' h' => N.eqb l l' && N.eqb h h'
  | RCat x y, RCat x' y' | RAlt x y, RAlt x' y' => re_eqb x x' && re_eqb y y'
  | RStar x, RStar x' => re_eqb x x'
  | _, _ => false
  end.
Fixpoint st_eqb (a b : re_state) : bool :=
  match a, b with
  | [], [] => true
  | (t, r) :: a', (t', r') :: b' => Nat.eqb t t' && re_eqb r r' && st_eqb a' b'
  | _, _ => false
  end.

Lemma re_eqb_eq : forall a b, re_eqb a b = true -> a = b.
Proof.
  induction a; destruct b; simpl; intros H; try discriminate; try reflexivity.
  - apply andb_true_iff in H. destruct H as [H1 H2]. apply N.eqb_eq in H1, H2. subst. reflexivity.
  - apply andb_true_iff in H. destruct H as [H1 H2]. f_equal; auto.
  - apply andb_true_iff in H. destruct H as [H1 H2]. f_equal; auto.
  - f_equal; auto.
Qed.
Lemma st_eqb_eq : forall a b, st_eqb a b = true -> a = b.
Proof.
  induction a as [|[t r] a IH]; destruct b as [|[t' r'] b]; simpl; intros H; try discriminate; try reflexivity.
  apply andb_true_iff in H. destruct H as [H H3]. apply andb_true_iff in H. destruct H as [H1 H2].
  apply Nat.eqb_eq in H1. apply re_eqb_eq in H2. apply IH in H3. subst. reflexivity.
Qed.

(* ---------- character classes ---------- *)
Fixpoint re_bounds (r : re) : list N :=
  match r with
  | RChr lo hi => [lo; N.succ hi]
  | RCat a b | RAlt a b => re_bounds a ++ re_bounds b
  | RStar a => re_bounds a
  | _ => []
  end.
Definition row_bounds (row : lexrow) : list N := flat_map (fun '(lo, hi, _) => [lo; N.succ hi]) (lr_cases row).

Definition bounds : list N :=
  0%N :: flat_map (fun '(_, r) => re_bounds r) g_tokens ++ flat_map row_bounds lex_trans.

Definition memN (x : N) (l : list N) : bool := existsb (N.eqb x) l.
Lemma memN_In x l : memN x l = true <-> In x l.
Proof.
  unfold memN. rewrite existsb_exists. split.
  - intros [y [H E]]. apply N.eqb_eq in E. subst. exact H.
  - intros H. exists x. split; [exact H|apply N.eqb_refl].
Qed.

(* the representative of c: the largest boundary not above c *)
Definition rep_of (c : N) : N := fold_left (fun acc b => if (N.leb b c && N.ltb acc b)%bool then b else acc) bounds 0%N.

Lemma rep_fold_props c : forall l acc, (acc <= c)%N -> (acc = 0%N \/ In acc bounds \/ True) ->
  let m := fold_left (fun acc b => if (N.leb b c && N.ltb acc b)%bool then b else acc) l acc in
  (m <= c)%N /\ (acc <= m)%N /\ (forall b, In b l -> (b <= c)%N -> (b <= m)%N) /\ (m = acc \/ In m l).
Proof.
  induction l as [|b l IH]; intros acc Ha _; simpl.
  - split; [exact Ha|]. split; [lia|]. split; [intros b []|left; reflexivity].
  - destruct (N.leb_spec b c) as [Hb|Hb]; simpl.
    + destruct (N.ltb_spec acc b) as [Hl|Hl].
      * destruct (IH b Hb (or_intror (or_intror I))) as (M1 & M2 & M3 & M4).
        split; [exact M1|]. split; [lia|]. split.
        -- intros b0 [<-|Hin] Hle; [exact M2|exact (M3 b0 Hin Hle)].
        -- destruct M4 as [->|M4]; right; [left; reflexivity|right; exact M4].
      * destruct (IH acc Ha (or_intror (or_intror I))) as (M1 & M2 & M3 & M4).
        split; [exact M1|]. split; [exact M2|]. split.
        -- intros b0 [<-|Hin] Hle; [lia|exact (M3 b0 Hin Hle)].
        -- destruct M4 as [->|M4]; [left; reflexivity|right; right; exact M4].
    + destruct (IH acc Ha (or_intror (or_intror I))) as (M1 & M2 & M3 & M4).
      split; [exact M1|]. split; [exact M2|]. split.
      * intros b0 [<-|Hin] Hle; [lia|exact (M3 b0 Hin Hle)].
      * destruct M4 as [->|M4]; [left; reflexivity|right; right; exact M4].
Qed.

Lemma rep_le c : (rep_of c <= c)%N.
Proof. unfold rep_of. apply (rep_fold_props c bounds 0%N); [lia|left; reflexivity]. Qed.
Lemma rep_max c b : In b bounds -> (b <= c)%N -> (b <= rep_of c)%N.
Proof. unfold rep_of. intros Hb Hle. exact (proj1 (proj2 (proj2 (rep_fold_props c bounds 0%N ltac:(lia) (or_introl eq_refl)))) b Hb Hle). Qed.
Lemma rep_in c : In (rep_of c) bounds.
Proof.
  unfold rep_of. destruct (proj2 (proj2 (proj2 (rep_fold_props c bounds 0%N ltac:(lia) (or_introl eq_refl))))) as [E|H]; [|exact H].
  rewrite E. left. reflexivity.
Qed.

(* a range whose two boundaries are class boundaries does not tell c from its representative *)
Lemma range_rep lo hi c : In lo bounds -> In (N.succ hi) bounds ->
  (N.leb lo c && N.leb c hi)%bool = (N.leb lo (rep_of c) && N.leb (rep_of c) hi)%bool.
Proof.
  intros Hlo Hhi. pose proof (rep_le c) as Hm.
  assert (E1 : N.leb lo c = N.leb lo (rep_of c)).
  { destruct (N.leb_spec lo c) as [H|H]; destruct (N.leb_spec lo (rep_of c)) as [H'|H']; try reflexivity.
    - pose proof (rep_max c lo Hlo H). lia.
    - lia. }
  assert (E2 : N.leb c hi = N.leb (rep_of c) hi).
  { destruct (N.leb_spec c hi) as [H|H]; destruct (N.leb_spec (rep_of c) hi) as [H'|H']; try reflexivity.
    - lia.
    - assert (Hs : (N.succ hi <= c)%N) by lia. pose proof (rep_max c (N.succ hi) Hhi Hs). lia. }
  rewrite E1, E2. reflexivity.
Qed.

(* simpl must not unfold the boundary list (vm_compute ignores opacity) *)
Opaque bounds.

(* ---------- expressions and rows whose ranges are cut by the class boundaries ---------- *)
Fixpoint re_ok (r : re) : bool :=
  match r with
  | RChr lo hi => memN lo bounds && memN (N.succ hi) bounds
  | RCat a b | RAlt a b => re_ok a && re_ok b
  | RStar a => re_ok a
  | _ => true
  end.
Definition st_ok (st : re_state) : bool := forallb (fun p => re_ok (snd p)) st.
Definition row_ok (row : lexrow) : bool :=
  forallb (fun '(lo, hi, _) => memN lo bounds && memN (N.succ hi) bounds) (lr_cases row).

Lemma explicit_rep c : forall r, re_ok r = true -> explicit c r = explicit (rep_of c) r.
Proof.
  induction r; simpl; intros H; try reflexivity.
  - apply andb_true_iff in H. destruct H as [H1 H2]. apply memN_In in H1, H2. apply range_rep; assumption.
  - apply andb_true_iff in H. destruct H as [H1 H2]. rewrite IHr1, IHr2 by assumption. reflexivity.
  - apply andb_true_iff in H. destruct H as [H1 H2]. rewrite IHr1, IHr2 by assumption. reflexivity.
  - auto.
Qed.

Lemma mk_cat_ok a b : re_ok a = true -> re_ok b = true -> re_ok (mk_cat a b) = true.
Proof. intros Ha Hb. destruct a, b; simpl in *; try reflexivity; try assumption; rewrite ?Ha, ?Hb; reflexivity. Qed.
Lemma mk_alt_ok a b : re_ok a = true -> re_ok b = true -> re_ok (mk_alt a b) = true.
Proof. intros Ha Hb. destruct a, b; simpl in *; try reflexivity; try assumption; rewrite ?Ha, ?Hb; reflexivity. Qed.

Lemma deriv_rep c ex : forall r, re_ok r = true -> deriv c ex r = deriv (rep_of c) ex r /\ re_ok (deriv c ex r) = true.
Proof.
  induction r; simpl; intros H.
  - split; reflexivity.
  - split; reflexivity.
  - apply andb_true_iff in H. destruct H as [H1 H2]. apply memN_In in H1, H2.
    rewrite (range_rep lo hi c H1 H2). split; [reflexivity|]. destruct (_ && _)%bool; reflexivity.
  - split; [reflexivity|]. destruct ex; reflexivity.
  - apply andb_true_iff in H. destruct H as [H1 H2].
    destruct (IHr1 H1) as [E1 O1]. destruct (IHr2 H2) as [E2 O2]. rewrite <- E1, <- E2.
    split; [reflexivity|]. destruct (nullable r1).
    + apply mk_alt_ok; [apply mk_cat_ok; assumption|assumption].
    + apply mk_cat_ok; assumption.
  - apply andb_true_iff in H. destruct H as [H1 H2].
    destruct (IHr1 H1) as [E1 O1]. destruct (IHr2 H2) as [E2 O2]. rewrite <- E1, <- E2.
    split; [reflexivity|]. apply mk_alt_ok; assumption.
  - destruct (IHr H) as [E O]. rewrite <- E. split; [reflexivity|]. apply mk_cat_ok; [assumption|exact H].
Qed.

Lemma re_step_rep st c : st_ok st = true ->
  re_step st c = re_step st (rep_of c) /\
  (forall st', re_step st c = Some (Some st') -> st_ok st' = true).
Proof.
  intros Hok. unfold re_step. cbv zeta.
  assert (Eex : existsb (fun '(_, r) => explicit c r) st = existsb (fun '(_, r) => explicit (rep_of c) r) st).
  { unfold st_ok in Hok. induction st as [|[t r] st IH]; simpl in *; [reflexivity|].
    apply andb_true_iff in Hok. destruct Hok as [H1 H2]. rewrite (explicit_rep c r H1), (IH H2). reflexivity. }
  rewrite <- Eex. clear Eex. generalize (existsb (fun '(_, r) => explicit c r) st). intros ex.
  assert (Emap : map (fun '(t, r) => (t, deriv c ex r)) st = map (fun '(t, r) => (t, deriv (rep_of c) ex r)) st /\
                 st_ok (map (fun '(t, r) => (t, deriv c ex r)) st) = true).
  { unfold st_ok in *. induction st as [|[t r] st IH]; simpl in *; [split; reflexivity|].
    apply andb_true_iff in Hok. destruct Hok as [H1 H2]. destruct (deriv_rep c ex r H1) as [E O].
    destruct (IH H2) as [E' O']. rewrite <- E, <- E', O, O'. split; reflexivity. }
  destruct Emap as [Emap Ook]. rewrite <- Emap. split; [reflexivity|].
  intros st' H. destruct (forallb _ _); [discriminate|]. inversion H; subst. exact Ook.
Qed.

Lemma row_cases_rep c : forall cs, forallb (fun '(lo, hi, _) => memN lo bounds && memN (N.succ hi) bounds) cs = true ->
  row_cases cs c = row_cases cs (rep_of c).
Proof.
  induction cs as [|[[lo hi] n] cs IH]; simpl; intros H; [reflexivity|].
  apply andb_true_iff in H. destruct H as [H1 H2]. apply andb_true_iff in H1. destruct H1 as [Ha Hb].
  apply memN_In in Ha, Hb. rewrite (range_rep lo hi c Ha Hb), (IH H2). reflexivity.
Qed.

Lemma dfa_step_rep s c : forallb row_ok lex_trans = true -> a_step dfa s c = a_step dfa s (rep_of c).
Proof.
  intros H. simpl. unfold dfa_step. destruct (nth_error lex_trans s) as [row|] eqn:E; [|reflexivity].
  rewrite forallb_forall in H. specialize (H row (nth_error_In _ _ E)). unfold row_ok in H.
  rewrite (row_cases_rep c _ H). reflexivity.
Qed.

(* ---------- the certificate and its validator ---------- *)
Definition pair_eqb (p q : nat * re_state) : bool := Nat.eqb (fst p) (fst q) && st_eqb (snd p) (snd q).
Definition memP (p : nat * re_state) (l : list (nat * re_state)) : bool := existsb (pair_eqb p) l.

Lemma memP_In p l : memP p l = true -> In p l.
Proof.
  unfold memP. rewrite existsb_exists. intros [q [Hq E]]. unfold pair_eqb in E.
  apply andb_true_iff in E. destruct E as [E1 E2]. apply Nat.eqb_eq in E1. apply st_eqb_eq in E2.
  destruct p, q; simpl in *; subst. exact Hq.
Qed.

Fixpoint dedupN (l : list N) : list N :=
  match l with [] => [] | x :: r => if memN x r then dedupN r else x :: dedupN r end.
Definition reps : list N := dedupN bounds.
Lemma dedupN_In x : forall l, In x l -> In x (dedupN l).
Proof.
  induction l as [|y l IH]; simpl; intros H; [contradiction|].
  destruct (memN y l) eqn:E.
  - destruct H as [<-|H]; [apply IH; apply memN_In; exact E|apply IH; exact H].
  - destruct H as [<-|H]; [left; reflexivity|right; apply IH; exact H].
Qed.

Definition act_eq (s : nat) (R : re_state) : bool :=
  match a_act dfa s, a_act re_aut R with
  | Some (a, i), Some (a', i') => Z.eqb a a' && Bool.eqb i i'
  | _, _ => false
  end.

Definition step_ok (pairs : list (nat * re_state)) (p : nat * re_state) (c : N) : bool :=
  match a_step dfa (fst p) c, re_step (snd p) c with
  | Some None, Some None => true
  | Some (Some s'), Some (Some R') => memP (s', R') pairs
  | _, _ => false
  end.

Definition sim_ok (pairs : list (nat * re_state)) : bool :=
  forallb row_ok lex_trans &&
  memP (a_init dfa, a_init re_aut) pairs &&
  forallb (fun p => st_ok (snd p) && act_eq (fst p) (snd p) && forallb (step_ok pairs p) reps) pairs.

(* case analyses stated on abstract values, so that no tactic has to look inside the tables *)
Lemma step_cases (ps : list (nat * re_state)) (x : option (option nat)) (y : option (option re_state)) :
  match x, y with
  | Some None, Some None => true
  | Some (Some s'), Some (Some R') => memP (s', R') ps
  | _, _ => false
  end = true ->
  (x = Some None /\ y = Some None) \/ (exists s' R', x = Some (Some s') /\ y = Some (Some R') /\ In (s', R') ps).
Proof.
  destruct x as [[s'|]|]; destruct y as [[R'|]|]; intros H; try discriminate.
  - right. exists s', R'. repeat split. apply memP_In. exact H.
  - left. split; reflexivity.
Qed.
Lemma act_cases (x y : option (Z * bool)) :
  match x, y with
  | Some (a, i), Some (a', i') => Z.eqb a a' && Bool.eqb i i'
  | _, _ => false
  end = true -> x = y.
Proof.
  destruct x as [[a i]|]; destruct y as [[a' i']|]; intros H; try discriminate.
  apply andb_true_iff in H. destruct H as [H1 H2]. apply Z.eqb_eq in H1. apply Bool.eqb_prop in H2. subst. reflexivity.
Qed.

(* breadth-first search for the certificate (untrusted: only sim_ok of its result matters) *)
Definition succs (p : nat * re_state) : list (nat * re_state) :=
  flat_map (fun c => match a_step dfa (fst p) c, re_step (snd p) c with
                     | Some (Some s'), Some (Some R') => [(s', R')]
                     | _, _ => []
                     end) reps.
Fixpoint bfs (fuel : nat) (todo seen : list (nat * re_state)) : list (nat * re_state) :=
  match fuel with
  | O => seen
  | S f =>
    match todo with
    | [] => seen
    | p :: rest => if memP p seen then bfs f rest seen else bfs f (succs p ++ rest) (p :: seen)
    end
  end.
Definition pairs : list (nat * re_state) := Eval vm_compute in bfs 2000 [(a_init dfa, a_init re_aut)] [].

Lemma sim_ok_pairs : sim_ok pairs = true.
Proof. vm_compute. reflexivity. Qed.

(* ---------- from the validator to every input ---------- *)
Section Lift.
Variable ps : list (nat * re_state).
Hypothesis Hok : sim_ok ps = true.

Let Hrows : forallb row_ok lex_trans = true.
Proof. unfold sim_ok in Hok. apply andb_true_iff in Hok. destruct Hok as [H _]. apply andb_true_iff in H. tauto. Qed.
Let Hinit : In (a_init dfa, a_init re_aut) ps.
Proof. unfold sim_ok in Hok. apply andb_true_iff in Hok. destruct Hok as [H _]. apply andb_true_iff in H. destruct H as [_ H]. apply memP_In. exact H. Qed.
Let Hall : forall p, In p ps -> st_ok (snd p) = true /\ act_eq (fst p) (snd p) = true /\ forall c, In c reps -> step_ok ps p c = true.
Proof.
  unfold sim_ok in Hok. apply andb_true_iff in Hok. destruct Hok as [_ H]. rewrite forallb_forall in H.
  intros p Hp. specialize (H p Hp). apply andb_true_iff in H. destruct H as [H H3]. apply andb_true_iff in H. destruct H as [H1 H2].
  split; [exact H1|]. split; [exact H2|]. rewrite forallb_forall in H3. exact H3.
Qed.

(* one step, on ANY rune: both die, or both move to a related pair *)
Lemma step_related s R c : In (s, R) ps ->
  (a_step dfa s c = Some None /\ re_step R c = Some None) \/
  (exists s' R', a_step dfa s c = Some (Some s') /\ re_step R c = Some (Some R') /\ In (s', R') ps).
Proof.
  intros Hp. destruct (Hall _ Hp) as (Hst & _ & Hsteps). simpl in Hst.
  specialize (Hsteps (rep_of c) (dedupN_In _ _ (rep_in c))). unfold step_ok in Hsteps. simpl fst in Hsteps. simpl snd in Hsteps.
  rewrite (dfa_step_rep s c Hrows). rewrite (proj1 (re_step_rep R c Hst)).
  exact (step_cases ps (a_step dfa s (rep_of c)) (re_step R (rep_of c)) Hsteps).
Qed.

Lemma act_related s R : In (s, R) ps -> a_act dfa s = a_act re_aut R.
Proof.
  intros Hp. destruct (Hall _ Hp) as (_ & Ha & _). unfold act_eq in Ha. simpl fst in Ha. simpl snd in Ha.
  exact (act_cases (a_act dfa s) (a_act re_aut R) Ha).
Qed.

Lemma scan_loop_equiv : forall fuel s R pos rest start sfrom ty end_, In (s, R) ps ->
  scan_loop dfa fuel s pos rest start sfrom ty end_ = scan_loop re_aut fuel R pos rest start sfrom ty end_.
Proof.
  induction fuel as [|f IH]; intros s R pos rest start sfrom ty end_ Hp; [reflexivity|].
  cbn [scan_loop]. destruct rest as [|b rest]; [reflexivity|].
  destruct (decode_rune (b :: rest)) as [r size].
  change (a_step re_aut R r) with (re_step R r).
  destruct (step_related s R r Hp) as [[E1 E2]|[s' [R' [E1 [E2 Hp']]]]]; rewrite E1, E2; [reflexivity|].
  rewrite (act_related s' R' Hp').
  destruct (a_act re_aut R') as [[acc ign]|]; [|reflexivity].
  destruct (negb (Z.eqb acc (-1))); [apply IH; exact Hp'|].
  destruct ign; [apply IH; exact Hinit|apply IH; exact Hp'].
Qed.

Lemma scan_equiv rest : scan dfa rest = scan re_aut rest.
Proof. unfold scan. destruct rest; [reflexivity|]. apply scan_loop_equiv. exact Hinit. Qed.

Lemma lex_all_equiv : forall fuel rest, lex_all dfa fuel rest = lex_all re_aut fuel rest.
Proof.
  induction fuel as [|f IH]; intros rest; simpl; destruct rest as [|b rest]; try reflexivity.
  rewrite scan_equiv. destruct (scan re_aut (b :: rest)) as [t rest'| |]; try reflexivity.
  rewrite IH. reflexivity.
Qed.
End Lift.

(* the tables' lexer IS the grammar's lexical part, on every byte string *)
Theorem lexer_is_grammar : forall bs, lex_bytes bs = spec_lex_bytes bs.
Proof. intros bs. unfold lex_bytes, spec_lex_bytes, lex. apply (lex_all_equiv pairs sim_ok_pairs). Qed.
Print Assumptions lexer_is_grammar.

Theorem parse_bytes_exact_bnf : forall o bs v,
  parse_bytes o bs = Accept v <-> exists toks, spec_lex_bytes bs = (toks, LEnd) /\ sentence o toks v.
Proof. intros o bs v. rewrite <- lexer_is_grammar. apply parse_bytes_exact. Qed.

(* non-vacuity: the certificate relates every DFA state of the tables to a residual vector *)
Example certificate_covers_all_states :
  length pairs = length lex_trans /\ forallb (fun s => existsb (fun p => Nat.eqb (fst p) s) pairs) (seq 0 (length lex_trans)) = true.
Proof. vm_compute. split; reflexivity. Qed.
