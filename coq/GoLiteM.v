(* Primitives of the mini dialect of the Go -> Gallina translator (harness/cmd/genmicro -mini): goal lists as Go slices.
   A goal VALUE is a term of Goal.v (the closures that mini's combinators return are read as GDisj / GConj by the
   translator).  Model only: no proofs here. *)
From Coq Require Import List NArith ZArith Bool.
From GMK Require Import Term Goal GoLite.
Import ListNotations.

(* gs[i]: index out of range panics *)
Fixpoint nth_goal (gs : list goal) (i : nat) : R goal :=
  match gs, i with
  | [], _ => Panic
  | g :: _, O => Ret g
  | _ :: r, S i' => nth_goal r i'
  end.

(* gs[i:]: slice bounds out of range panics *)
Fixpoint from_goals (gs : list goal) (i : nat) : R (list goal) :=
  match i, gs with
  | O, _ => Ret gs
  | S _, [] => Panic
  | S i', _ :: r => from_goals r i'
  end.

(* make([]micro.Goal, n): n nil goals.  A nil goal is not a term of Goal.v; GFail stands in for it, and the equivalence
   proof shows that no entry survives (every one is overwritten before the slice is used). *)
Definition make_goals (n : nat) : list goal := repeat GFail n.

(* gs[i] = g: index out of range panics *)
Fixpoint set_goal (gs : list goal) (i : nat) (g : goal) : R (list goal) :=
  match gs, i with
  | [], _ => Panic
  | _ :: r, O => Ret (g :: r)
  | x :: r, S i' => bind (set_goal r i' g) (fun r' => Ret (x :: r'))
  end.
