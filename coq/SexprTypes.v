(* L6 model, part 1: the Go structs of sexpr/ast verbatim and the comparison building blocks.
   (Part 2, the Compare methods themselves, is GENERATED from sexpr/ast/compare.go: gen/CompareGen.v; part 3: SexprStruct.v.)
   No proofs in this file (so that the model still evaluates when a proof breaks).

   Go:  type SExpr struct { Pair ptr Pair; Atom ptr Atom }      [ptr-to-SExpr may be nil]
        type Pair  struct { Car, Cdr ptr SExpr }      [ptr-to-Pair may be nil]
        type Atom  struct { Str, Symbol ptr string; Float ptr float64; Int ptr int64; Var ptr Variable }
        type Variable struct { Name string; Index uint64 }
   Strings are byte lists (strings.Compare is bytewise lexicographic).
   A float64 other than NaN is represented by its order key in Z (sign-magnitude of the IEEE bits,
   +0 and -0 both 0): the key is strictly monotone and injective up to Go's ==, which is all that
   Compare and reflect.DeepEqual observe of a float. int64/uint64 are Z/N (no arithmetic is done on them). *)
From Coq Require Import List NArith ZArith Bool.
Import ListNotations.

Definition str := list N.

Record var := mkVar { vname : str; vidx : N }.

Record atom := mkAtom {
  a_str : option str;
  a_sym : option str;
  a_flt : option Z;
  a_int : option Z;
  a_var : option var }.

Inductive sexpr : Type :=
| SNull                                         (* nil SExpr pointer *)
| SNode (p : pairo) (a : option atom)          (* &SExpr{Pair: p, Atom: a} *)
with pairo : Type :=
| PNull                                         (* nil Pair pointer *)
| PCons (car cdr : sexpr).                      (* &Pair{car, cdr} *)

(* `if c := f(); c != 0 { return c }; rest` *)
Definition lex (c : comparison) (rest : comparison) : comparison :=
  match c with Eq => rest | _ => c end.

(* the nil-pointer preamble shared by every Compare method and compareXPtr helper *)
Definition cmp_opt {A} (cmp : A -> A -> comparison) (x y : option A) : comparison :=
  match x, y with
  | None, None => Eq
  | None, Some _ => Lt
  | Some _, None => Gt
  | Some a, Some b => cmp a b
  end.

(* strings.Compare *)
Fixpoint cmp_str (x y : str) : comparison :=
  match x, y with
  | [], [] => Eq
  | [], _ :: _ => Lt
  | _ :: _, [] => Gt
  | a :: x', b :: y' => lex (N.compare a b) (cmp_str x' y')
  end.

(* the lexicographic product of two component comparisons, and the comparison of nothing (end of a chain) *)
Definition cmp_prod {A B} (c1 : A -> A -> comparison) (c2 : B -> B -> comparison) (x y : A * B) : comparison :=
  lex (c1 (fst x) (fst y)) (c2 (snd x) (snd y)).
Definition cmp_unit (_ _ : unit) : comparison := Eq.
