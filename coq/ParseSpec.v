(* C14: the lexer and the LR driver put together: sexpr.Parse on an arbitrary byte string. *)
From Coq Require Import List NArith ZArith Bool Lia.
From GMK Require Import TableTypes gen.Tables gen.GrammarGen LexDriver LRDriver Grammar LexSpec LRSpec.
Import ListNotations.

Definition tables_ok : lr_parts := lr_ok_parts lr_ok_true.

(* for every byte string: no panic, no fuel exhaustion; acceptance only of token lists the grammar generates,
   with the tree of the semantic actions *)
Theorem parse_bytes_inv : forall o bs,
  exists toks, lex_bytes bs = (toks, LEnd) /\ concat (map snd toks) = bs /\ Forall real_token toks /\
  match parse_bytes o bs with
  | Accept v => derives o g_start toks v
  | ParseError => True
  | Stuck _ => False
  | OutOfFuel => False
  end.
Proof.
  intros o bs. destruct (lex_bytes_spec bs) as [toks [Hl [Hc [Hr _]]]].
  exists toks. repeat split; auto. unfold parse_bytes. rewrite Hl.
  pose proof (parse_tokens_inv o tables_ok toks Hr) as H. unfold parse_tokens in H.
  destruct (parse_input o (toks, LEnd)); auto.
Qed.
