(* C14: the lexer and the LR driver put together: sexpr.Parse on an arbitrary byte string. *)
From Coq Require Import List NArith ZArith Bool Lia.
From GMK Require Import TableTypes gen.Tables gen.GrammarGen LexDriver LRDriver Grammar LexSpec LRSpec.
Import ListNotations.

Definition tables_ok : lr_parts := lr_ok_parts lr_ok_true.

(* for every byte string: no panic, no fuel exhaustion; acceptance only of token lists the grammar generates,
   with the tree of the semantic actions *)
Theorem parse_bytes_inv : forall o bs,
  exists toks, lex_bytes bs = (toks, LEnd) /\ concat (map snd toks) = bs /\ Forall real_token toks /\
  match parse_bytes o bs with
  | Accept v => derives o g_start toks v
  | ParseError => True
  | Stuck _ => False
  | OutOfFuel => False
  end.
Proof.
  intros o bs. destruct (lex_bytes_spec bs) as [toks [Hl [Hc [Hr _]]]].
  exists toks. repeat split; auto. unfold parse_bytes. rewrite Hl.
  pose proof (parse_tokens_inv o tables_ok toks Hr) as H. unfold parse_tokens in H.
  destruct (parse_input o (toks, LEnd)); auto.
Qed.

(* ---- the other direction (LRComplete.v) ---- *)
From GMK Require Import LRComplete.
Definition ctables_ok : cparts := complete_ok_parts complete_ok_true.

Theorem parse_bytes_complete : forall o bs toks v,
  lex_bytes bs = (toks, LEnd) -> derives o g_start toks v -> parse_bytes o bs = Accept v.
Proof.
  intros o bs toks v Hl Hd. destruct (lex_bytes_spec bs) as [toks' [Hl' [_ [Hr _]]]].
  rewrite Hl in Hl'. inversion Hl'; subst toks'.
  unfold parse_bytes. rewrite Hl.
  exact (parse_tokens_complete o tables_ok ctables_ok toks v Hr Hd).
Qed.

(* Parse succeeds EXACTLY on the byte strings whose token list is a sentence, with exactly the grammar's tree *)
Theorem parse_bytes_exact : forall o bs v,
  parse_bytes o bs = Accept v <-> exists toks, lex_bytes bs = (toks, LEnd) /\ derives o g_start toks v.
Proof.
  intros o bs v. split.
  - intros H. destruct (parse_bytes_inv o bs) as [toks [Hl [_ [_ Hm]]]]. rewrite H in Hm. exists toks. split; auto.
  - intros [toks [Hl Hd]]. eapply parse_bytes_complete; eauto.
Qed.

(* the grammar assigns at most one tree to a list of real tokens *)
Theorem grammar_unambiguous : forall o toks v v', Forall real_token toks ->
  derives o g_start toks v -> derives o g_start toks v' -> v = v'.
Proof.
  intros o toks v v' Hr H1 H2.
  pose proof (parse_tokens_complete o tables_ok ctables_ok toks v Hr H1) as E1.
  pose proof (parse_tokens_complete o tables_ok ctables_ok toks v' Hr H2) as E2.
  rewrite E1 in E2. inversion E2. reflexivity.
Qed.
