(* Correspondence for C18: the observations of the real reflecttools.Map / Any / ZipReduce / IsNil
   (written by harness/c18.go) against the model Reflect.v.  The functions and predicates handed to the
   real code come from a small generated family that is data here and Go closures there; the Go side
   evaluates predicates and weights on the same gval encoding of the argument it was called with. *)
From Coq Require Import List NArith ZArith Bool.
From GMK Require Import Reflect CorrBase.
Import ListNotations.

(* ---- functions for Map ---- *)
Inductive mfun :=
| FId                 (* return a *)
| FCopy               (* return a pointer-disjoint deep copy of a *)
| FInc (k : Z)        (* ints / strings / pointers to them: +k in a fresh object; pointer to struct: fresh struct with every such field +k *)
| FZero               (* pointers, slices, maps: the typed nil of the same type; everything else unchanged *)
| FUntypedNil         (* return nil (the nil interface): Map stores the zero value of the slot's type *)
| FNilOn (n : Z).     (* nil interface when a is the scalar n or a pointer to it, otherwise a *)

Definition inc1 (k : Z) (a : gval) : gval :=
  match a with
  | GScalar c n => GScalar c (n + k)
  | GPtr (GScalar c n) => GPtr (GScalar c (n + k))
  | _ => a
  end.

(* the same on a struct field, which may be interface-typed *)
Definition inc_slot (k : Z) (s : gval) : gval :=
  match s with
  | GIface v => GIface (inc1 k v)
  | _ => inc1 k s
  end.

Definition apply_mfun (f : mfun) (a : gval) : gval :=
  match f with
  | FId | FCopy => a
  | FInc k => match a with GStructPtr fs => GStructPtr (map (inc_slot k) fs) | _ => inc1 k a end
  | FZero => match a with
             | GNilPtr | GStructPtr _ | GPtr _ => GNilPtr
             | GSlice _ _ => GSlice true []
             | GMap _ _ => GMap true []
             | _ => a
             end
  | FUntypedNil => GNil
  | FNilOn n => match a with
                | GScalar _ m | GPtr (GScalar _ m) => if Z.eqb m n then GNil else a
                | _ => a
                end
  end.

(* ---- predicates for Any ---- *)
Inductive pfun :=
| PFalse | PTrue
| PIsNil                       (* nil interface or nil pointer *)
| PNot (p : pfun)
| PScalarEq (n : Z)            (* the scalar n or a non-nil pointer to it *)
| PLenGe (n : nat)             (* slice / map / pointed-to struct with at least n elements / entries / fields *)
| PField (i : nat) (p : pfun). (* non-nil pointer to a struct whose field i satisfies p *)

Fixpoint apply_pfun (p : pfun) (a : gval) : bool :=
  match p with
  | PFalse => false
  | PTrue => true
  | PIsNil => is_nil a
  | PNot q => negb (apply_pfun q a)
  | PScalarEq n => match a with GScalar _ m | GPtr (GScalar _ m) => Z.eqb m n | _ => false end
  | PLenGe n => match a with
                | GSlice _ es => Nat.leb n (length es)
                | GMap _ en => Nat.leb n (length en)
                | GStructPtr fs => Nat.leb n (length fs)
                | _ => false
                end
  | PField i q => match a with
                  | GStructPtr fs => match nth_error fs i with Some c => apply_pfun q (unwrap c) | None => false end
                  | _ => false
                  end
  end.

(* ---- functions for ZipReduce ---- *)
Definition weight (a : gval) : Z :=
  match a with
  | GNil => 1
  | GIface _ => 9
  | GNilPtr => 2
  | GStructPtr fs => 3 + Z.of_nat (length fs)
  | GPtr (GScalar _ n) => n
  | GPtr _ => 5
  | GStruct _ => 7
  | GSlice n es => (if n then 11 else 12) + Z.of_nat (length es)
  | GMap n en => (if n then 20 else 21) + Z.of_nat (length en)
  | GScalar _ n => n
  end.

Inductive zfun :=
| ZCount               (* acc + 1 *)
| ZSeq                 (* acc * 10 + weight x : order sensitive *)
| ZSub                 (* acc - weight y : passes through zero and would recover *)
| ZConst (c : Z)
| ZEqW                 (* acc when the weights agree, else 0 *)
| ZMulDiff (k : Z)     (* acc * (weight x - weight y + k) *)
| ZUnify.              (* like gomini's unify: scalars compare, everything else recurses through ZipReduce itself *)

Fixpoint zunify (fuel : nat) (x y : gval) (acc : Z) : Z :=
  match fuel with
  | O => 0%Z
  | S fu =>
      match x, y with
      | GScalar j m, GScalar k n => if N.eqb j k && Z.eqb m n then acc else 0%Z
      | _, _ => fst (zipreduce 0%Z (Z.eqb 0) (zunify fu) acc x y)
      end
  end.

Definition apply_zfun (z : zfun) (x y : gval) (acc : Z) : Z :=
  match z with
  | ZCount => acc + 1
  | ZSeq => acc * 10 + weight x
  | ZSub => acc - weight y
  | ZConst c => c
  | ZEqW => if Z.eqb (weight x) (weight y) then acc else 0
  | ZMulDiff k => acc * (weight x - weight y + k)
  | ZUnify => zunify 40 x y acc
  end%Z.

(* the accumulator type B the real ZipReduce was instantiated with *)
Inductive bmode :=
| BInt     (* B = int, zero 0 *)
| BBool    (* B = bool, zero false; f' x y acc = (f x y (acc ? 1 : 0) != 0) *)
| BPtr.    (* B = pointer to struct{n int}, zero nil; f' x y nil = nil, f' x y &{a} = (g := f x y a; g < 0 ? nil : &{g});
              observed as -1 for nil and n for &{n}: a pointer to 0 is NOT the zero value *)

Definition z_of_opt (o : option Z) : Z := match o with None => (-1)%Z | Some a => a end.
Definition opt_of_z (z : Z) : option Z := if Z.ltb z 0 then None else Some z.

Definition zip_model (m : bmode) (init : Z) (z : zfun) (x y : gval) : Z * list (gval * gval) :=
  match m with
  | BInt => zipreduce 0%Z (Z.eqb 0) (apply_zfun z) init x y
  | BBool =>
      let f := fun a b (acc : bool) => negb (Z.eqb (apply_zfun z a b (if acc then 1 else 0)%Z) 0) in
      let (r, l) := zipreduce false negb f (negb (Z.eqb init 0)) x y in
      ((if r then 1 else 0)%Z, l)
  | BPtr =>
      let f := fun a b (acc : option Z) =>
                 match acc with None => None | Some v => opt_of_z (apply_zfun z a b v) end in
      let (r, l) := zipreduce None (fun o => match o with None => true | Some _ => false end) f (opt_of_z init) x y in
      (z_of_opt r, l)
  end.

(* ---- cases ---- *)
Inductive case18 :=
| CMap (x : gval) (f : mfun) (res : gval) (log : list gval)          (* Map(x, f) = res, f was called on log *)
| CAny (x : gval) (p : pfun) (res : bool) (log : list gval)          (* Any(x, p) = res *)
| CZip (x y : gval) (m : bmode) (init : Z) (f : zfun) (res : Z) (log : list (gval * gval))
| CIsNil (x : gval) (res : bool)
| CPanic (x : gval).                                                 (* the real function panicked on x: the model has no panics *)

Fixpoint remove1 (a : gval) (l : list gval) : option (list gval) :=
  match l with
  | [] => None
  | b :: l' => if gval_eqb a b then Some l' else option_map (cons b) (remove1 a l')
  end.

(* equality of call logs as multisets (map iteration order is random) *)
Fixpoint perm_eqb (l1 l2 : list gval) : bool :=
  match l1 with
  | [] => match l2 with [] => true | _ => false end
  | a :: l1' => match remove1 a l2 with Some l2' => perm_eqb l1' l2' | None => false end
  end.

Definition pair_eqb (p q : gval * gval) : bool := gval_eqb (fst p) (fst q) && gval_eqb (snd p) (snd q).

Definition check18 (c : case18) : bool :=
  match c with
  | CMap x f res log =>
      let (r, l) := rmap (apply_mfun f) x in
      gval_eqb r res &&
      match x with
      | GMap _ _ => perm_eqb l log          (* entries are encoded sorted by key on both sides; calls in any order *)
      | _ => list_eqb gval_eqb l log
      end
  | CAny x p res log =>
      let (r, l) := rany (apply_pfun p) x in Bool.eqb r res && list_eqb gval_eqb l log
  | CZip x y m init f res log =>
      let (r, l) := zip_model m init f x y in Z.eqb r res && list_eqb pair_eqb l log
  | CIsNil x res => Bool.eqb (is_nil x) res
  | CPanic _ => false
  end.
