(* The mini combinators equal their definitions: conj+/disj+/conde (with or without Zzz) vs right-nested
   binary conjunction / disjunction; ifte; once. *)
From Coq Require Import List NArith ZArith Bool Lia.
From GMK Require Import Term Unify Goal Stream Den InStream.
Import ListNotations.

Fixpoint nest_conj (gs : list goal) : goal :=
  match gs with
  | [] => GSucc
  | [g] => g
  | g :: rest => GConj g (nest_conj rest)
  end.

Fixpoint nest_disj (gs : list goal) : goal :=
  match gs with
  | [] => GFail
  | [g] => g
  | g :: rest => GDisj g (nest_disj rest)
  end.

Section Comb.
  Variable ds : defs.
  Variable uf : term -> term -> subst -> nat.

  Local Notation eval := (eval ds uf).
  Local Notation force := (force ds uf).
  Local Notation trace := (trace ds uf).
  Local Notation take := (take ds uf).
  Local Notation InStream := (InStream ds uf).
  Local Notation ReachErr := (ReachErr ds uf).
  Local Notation Finite := (Finite ds uf).
  Local Notation Fails := (Fails ds uf).
  Local Notation First := (First ds uf).

  (* ---------- interface to the membership lemmas (InStream.v) ---------- *)

  Lemma in_mplus_inv : forall x a b, InStream x (mplus a b) -> InStream x a \/ InStream x b.
  Proof. intros x a b. apply InS_mplus_inv. Qed.

  Lemma in_mplus_fair : forall x s o, InStream x s -> ~ ReachErr o ->
    InStream x (mplus s o) /\ InStream x (mplus o s).
  Proof. intros x s o H Ho. apply InS_mplus_both; assumption. Qed.

  Lemma err_mplus_iff : forall a b, ReachErr (mplus a b) <-> ReachErr a \/ ReachErr b.
  Proof. intros a b. apply RErr_mplus. Qed.

  Section BindI.
    Variable k : state -> stream.
    Variable mk : thunk -> thunk.
    Hypothesis Hmk : forall th, force (mk th) = bindk k mk (force th).

    Lemma in_bindk_inv : forall x s, InStream x (bindk k mk s) ->
      exists a, InStream a s /\ InStream x (k a).
    Proof. intros x s. apply InS_bind_inv; assumption. Qed.

    Lemma in_bindk : forall x a s, InStream a s -> InStream x (k a) ->
      ~ ReachErr (bindk k mk s) -> InStream x (bindk k mk s).
    Proof. intros x a s. apply InS_bind; assumption. Qed.

    Lemma err_bindk_iff : forall s,
      ReachErr (bindk k mk s) <-> ReachErr s \/ exists a, InStream a s /\ ReachErr (k a).
    Proof.
      intros s; split.
      - apply RErr_bind_inv; assumption.
      - intros [H|[a [Ha Hk]]].
        + apply RErr_bind_src; assumption.
        + eapply RErr_bind_k; eauto.
    Qed.
  End BindI.

  (* ---------- unfolding equations of the nested fixes in eval ---------- *)

  Lemma eval_disjplus_nil : forall e st, eval (GDisjPlus false []) e st = SNil.
  Proof. reflexivity. Qed.
  Lemma eval_disjplus_one : forall g e st, eval (GDisjPlus false [g]) e st = eval g e st.
  Proof. reflexivity. Qed.
  Lemma eval_disjplus_cons : forall g1 g2 r e st,
    eval (GDisjPlus false (g1 :: g2 :: r)) e st =
    mplus (eval g1 e st) (eval (GDisjPlus false (g2 :: r)) e st).
  Proof. reflexivity. Qed.

  Lemma eval_conjplus_nil : forall e st, eval (GConjPlus false []) e st = SCons st SNil.
  Proof. reflexivity. Qed.
  Lemma eval_conjplus_one : forall g e st, eval (GConjPlus false [g]) e st = eval g e st.
  Proof. reflexivity. Qed.
  Lemma eval_conjplus_cons : forall g1 g2 r e st,
    eval (GConjPlus false (g1 :: g2 :: r)) e st =
    bindk (fun a => eval (GConjPlus false (g2 :: r)) e a)
          (fun th => TBind th (GConjPlus false (g2 :: r)) e) (eval g1 e st).
  Proof. reflexivity. Qed.

  Lemma eval_conjplus_z_cons : forall g1 g2 r e st,
    eval (GConjPlus true (g1 :: g2 :: r)) e st =
    SSusp (TBind (TGoal g1 e st) (GConjPlus true (g2 :: r)) e).
  Proof. reflexivity. Qed.
  Lemma eval_disjplus_z_cons : forall g1 g2 r e st,
    eval (GDisjPlus true (g1 :: g2 :: r)) e st =
    SSusp (TMplus (eval (GDisjPlus true (g2 :: r)) e st) (TGoal g1 e st)).
  Proof. reflexivity. Qed.

  Lemma eval_nest_conj_cons : forall g1 g2 r e st,
    eval (nest_conj (g1 :: g2 :: r)) e st =
    bindk (fun a => eval (nest_conj (g2 :: r)) e a)
          (fun th => TBind th (nest_conj (g2 :: r)) e) (eval g1 e st).
  Proof. reflexivity. Qed.
  Lemma eval_nest_disj_cons : forall g1 g2 r e st,
    eval (nest_disj (g1 :: g2 :: r)) e st =
    mplus (eval g1 e st) (eval (nest_disj (g2 :: r)) e st).
  Proof. reflexivity. Qed.

  (* ---------- d. empty cases, conde ---------- *)

  Theorem conj_empty : forall z e st, eval (GConjPlus z []) e st = SCons st SNil.
  Proof. intros [|] e st; reflexivity. Qed.

  Theorem disj_empty : forall z e st, eval (GDisjPlus z []) e st = SNil.
  Proof. intros [|] e st; reflexivity. Qed.

  Theorem conde_def : forall gss, GConde gss = GDisjPlus true (map (GConjPlus true) gss).
  Proof. reflexivity. Qed.

  (* the empty conjunction succeeds exactly once, the empty disjunction fails *)
  Theorem conj_empty_once : forall z e st x, InStream x (eval (GConjPlus z []) e st) <-> x = st.
  Proof.
    intros z e st x. rewrite conj_empty. split.
    - intros H. inversion H; subst; [reflexivity|]. match goal with H' : InStream _ SNil |- _ => inversion H' end.
    - intros ->. constructor.
  Qed.

  Theorem disj_empty_fails : forall z e st, Fails (eval (GDisjPlus z []) e st).
  Proof. intros z e st. rewrite disj_empty. constructor. Qed.

  (* ---------- a. disj+ without Zzz: stream equality ---------- *)

  Theorem disj_nozzz_eq : forall gs e st,
    eval (GDisjPlus false gs) e st = eval (nest_disj gs) e st.
  Proof.
    induction gs as [|g1 rest IH]; intros e st; [reflexivity|].
    destruct rest as [|g2 r]; [reflexivity|].
    rewrite eval_disjplus_cons, eval_nest_disj_cons, IH. reflexivity.
  Qed.

  (* ---------- b. conj+ without Zzz: same stream up to the goal labels inside suspended binds ---------- *)

  (* "same shape": equal cells, suspensions related; the goals stored in TGoal/TBind/TIfte thunks may differ
     as long as they evaluate to related streams *)
  Inductive SR : stream -> stream -> Prop :=
  | SR_refl s : SR s s
  | SR_cons a t1 t2 : SR t1 t2 -> SR (SCons a t1) (SCons a t2)
  | SR_susp th1 th2 : TR th1 th2 -> SR (SSusp th1) (SSusp th2)
  with TR : thunk -> thunk -> Prop :=
  | TR_refl th : TR th th
  | TR_goal g1 g2 e st : SR (eval g1 e st) (eval g2 e st) -> TR (TGoal g1 e st) (TGoal g2 e st)
  | TR_mplus s1 s2 th1 th2 : SR s1 s2 -> TR th1 th2 -> TR (TMplus s1 th1) (TMplus s2 th2)
  | TR_bind th1 th2 g1 g2 e : TR th1 th2 -> (forall a, SR (eval g1 e a) (eval g2 e a)) ->
      TR (TBind th1 g1 e) (TBind th2 g2 e)
  | TR_ifte th1 th2 t1 t2 el1 el2 e st : TR th1 th2 -> (forall a, SR (eval t1 e a) (eval t2 e a)) ->
      SR (eval el1 e st) (eval el2 e st) -> TR (TIfte th1 t1 el1 e st) (TIfte th2 t2 el2 e st)
  | TR_once th1 th2 : TR th1 th2 -> TR (TOnce th1) (TOnce th2).

  Scheme SR_mind := Minimality for SR Sort Prop
    with TR_mind := Minimality for TR Sort Prop.

  Lemma SR_inv : forall s s', SR s s' ->
    match s with
    | SNil => s' = SNil
    | SErr => s' = SErr
    | SCons a t => exists t', s' = SCons a t' /\ SR t t'
    | SSusp th => exists th', s' = SSusp th' /\ TR th th'
    end.
  Proof.
    intros s s' H. destruct H as [s|a t1 t2 H|th1 th2 H].
    - destruct s; eauto using SR_refl, TR_refl.
    - eauto.
    - eauto.
  Qed.

  Lemma SR_sym : forall s s', SR s s' -> SR s' s.
  Proof.
    apply (SR_mind (fun s s' => SR s' s) (fun th th' => TR th' th)); intros;
      eauto using SR_refl, SR_cons, SR_susp, TR_refl, TR_goal, TR_mplus, TR_bind, TR_ifte, TR_once.
  Qed.

  Lemma mplus_SR : forall a a' b b', SR a a' -> SR b b' -> SR (mplus a b) (mplus a' b').
  Proof.
    induction a as [|x tl IH|th|]; intros a' b b' Ha Hb; apply SR_inv in Ha.
    - subst. assumption.
    - destruct Ha as [t' [-> Ht]]. simpl. apply SR_cons. apply IH; assumption.
    - destruct Ha as [th' [-> Ht]]. simpl. apply SR_susp. apply TR_mplus; assumption.
    - subst. apply SR_refl.
  Qed.

  Lemma bindk_SR : forall k1 k2 mk1 mk2,
    (forall a, SR (k1 a) (k2 a)) ->
    (forall th th', TR th th' -> TR (mk1 th) (mk2 th')) ->
    forall s s', SR s s' -> SR (bindk k1 mk1 s) (bindk k2 mk2 s').
  Proof.
    intros k1 k2 mk1 mk2 Hk Hm.
    induction s as [|x tl IH|th|]; intros s' Hs; apply SR_inv in Hs.
    - subst. apply SR_refl.
    - destruct Hs as [t' [-> Ht]]. simpl. apply mplus_SR; [apply Hk|apply IH; assumption].
    - destruct Hs as [th' [-> Ht]]. simpl. apply SR_susp. apply Hm; assumption.
    - subst. apply SR_refl.
  Qed.

  Lemma once_SR : forall s s', SR s s' -> SR (once_loop s) (once_loop s').
  Proof.
    intros s s' Hs. destruct s as [|x tl|th|]; apply SR_inv in Hs.
    - subst. apply SR_refl.
    - destruct Hs as [t' [-> Ht]]. apply SR_refl.
    - destruct Hs as [th' [-> Ht]]. simpl. apply SR_susp. apply TR_once; assumption.
    - subst. apply SR_refl.
  Qed.

  Lemma TBind_TR : forall g1 g2 e, (forall a, SR (eval g1 e a) (eval g2 e a)) ->
    forall th th', TR th th' -> TR (TBind th g1 e) (TBind th' g2 e).
  Proof. intros. apply TR_bind; assumption. Qed.

  Lemma ifte_SR : forall s s' t1 t2 el1 el2 e st, SR s s' ->
    (forall a, SR (eval t1 e a) (eval t2 e a)) -> SR (eval el1 e st) (eval el2 e st) ->
    SR (ifte_loop ds uf s t1 el1 e st) (ifte_loop ds uf s' t2 el2 e st).
  Proof.
    intros s s' t1 t2 el1 el2 e st Hs Ht Hel.
    destruct s as [|x tl|th|]; assert (Hi := SR_inv _ _ Hs); simpl in Hi.
    - subst. assumption.
    - destruct Hi as [t' [-> Htl]]. unfold ifte_loop.
      apply bindk_SR; [assumption|apply TBind_TR; assumption|assumption].
    - destruct Hi as [th' [-> Hth]]. simpl. apply SR_susp. apply TR_ifte; assumption.
    - subst. apply SR_refl.
  Qed.

  (* the heart of the bisimulation: related thunks force to related streams *)
  Lemma force_TR : forall th th', TR th th' -> SR (force th) (force th').
  Proof.
    intros th th' H.
    induction H as [th|g1 g2 e st H|s1 s2 th1 th2 Hs H IH|th1 th2 g1 g2 e H IH Hg
                   |th1 th2 t1 t2 el1 el2 e st H IH Ht Hel|th1 th2 H IH].
    - apply SR_refl.
    - exact H.
    - simpl. apply mplus_SR; assumption.
    - simpl. apply bindk_SR; [assumption|apply TBind_TR; assumption|assumption].
    - rewrite !force_TIfte. apply ifte_SR; assumption.
    - simpl. apply once_SR; assumption.
  Qed.

  Lemma SR_in_l : forall x s, InStream x s -> forall s', SR s s' -> InStream x s'.
  Proof.
    intros x s H. induction H as [tl|a tl H IH|th H IH]; intros s' Hs; apply SR_inv in Hs.
    - destruct Hs as [t' [-> Ht]]. constructor.
    - destruct Hs as [t' [-> Ht]]. constructor. auto.
    - destruct Hs as [th' [-> Ht]]. constructor. apply IH. apply force_TR; assumption.
  Qed.

  Theorem SR_in : forall x s s', SR s s' -> (InStream x s <-> InStream x s').
  Proof.
    intros x s s' H; split; intros Hx; eapply SR_in_l; eauto. apply SR_sym; assumption.
  Qed.

  Lemma SR_err_l : forall s, ReachErr s -> forall s', SR s s' -> ReachErr s'.
  Proof.
    intros s H. induction H as [|a tl H IH|th H IH]; intros s' Hs; apply SR_inv in Hs.
    - subst. constructor.
    - destruct Hs as [t' [-> Ht]]. constructor. auto.
    - destruct Hs as [th' [-> Ht]]. constructor. apply IH. apply force_TR; assumption.
  Qed.

  Theorem SR_err : forall s s', SR s s' -> (ReachErr s <-> ReachErr s').
  Proof.
    intros s s' H; split; intros Hx; eapply SR_err_l; eauto. apply SR_sym; assumption.
  Qed.

  Lemma SR_finite_l : forall s, Finite s -> forall s', SR s s' -> Finite s'.
  Proof.
    intros s H. induction H as [|a tl H IH|th H IH]; intros s' Hs; apply SR_inv in Hs.
    - subst. constructor.
    - destruct Hs as [t' [-> Ht]]. constructor. auto.
    - destruct Hs as [th' [-> Ht]]. constructor. apply IH. apply force_TR; assumption.
  Qed.

  Theorem SR_finite : forall s s', SR s s' -> (Finite s <-> Finite s').
  Proof.
    intros s s' H; split; intros Hx; eapply SR_finite_l; eauto. apply SR_sym; assumption.
  Qed.

  (* unfolding of trace *)
  Lemma trace_nil : forall f, trace f SNil = [EvNil].
  Proof. destruct f; reflexivity. Qed.
  Lemma trace_err : forall f, trace f SErr = [EvErr].
  Proof. destruct f; reflexivity. Qed.
  Lemma trace_cons : forall f a tl, trace f (SCons a tl) = EvA a :: trace f tl.
  Proof. destruct f; reflexivity. Qed.
  Lemma trace_susp_S : forall f th, trace (S f) (SSusp th) = EvS :: trace f (force th).
  Proof. reflexivity. Qed.
  Lemma trace_susp_O : forall th, trace O (SSusp th) = [EvBudget].
  Proof. reflexivity. Qed.

  (* related streams have the same cell trace for every budget of forces *)
  Theorem SR_trace : forall f s s', SR s s' -> trace f s = trace f s'.
  Proof.
    induction f as [|f IHf]; induction s as [|a tl IH|th|]; intros s' Hs; apply SR_inv in Hs.
    - subst. reflexivity.
    - destruct Hs as [t' [-> Ht]]. rewrite !trace_cons. f_equal. auto.
    - destruct Hs as [th' [-> Ht]]. reflexivity.
    - subst. reflexivity.
    - subst. reflexivity.
    - destruct Hs as [t' [-> Ht]]. rewrite !trace_cons. f_equal. auto.
    - destruct Hs as [th' [-> Ht]]. rewrite !trace_susp_S. f_equal. apply IHf. apply force_TR; assumption.
    - subst. reflexivity.
  Qed.

  (* ... and the same takeStream results for every fuel and n *)
  Theorem SR_take : forall f n s s', SR s s' -> take f n s = take f n s'.
  Proof.
    induction f as [|f IH]; intros n s s' Hs; [reflexivity|].
    simpl. destruct (Z.eqb n 0); [reflexivity|].
    destruct s as [|a tl|th|]; apply SR_inv in Hs.
    - subst. reflexivity.
    - destruct Hs as [t' [-> Ht]]. rewrite (IH _ _ _ Ht). reflexivity.
    - destruct Hs as [th' [-> Ht]]. apply IH. apply force_TR; assumption.
    - subst. reflexivity.
  Qed.

  Theorem conj_nozzz_SR : forall gs e st,
    SR (eval (GConjPlus false gs) e st) (eval (nest_conj gs) e st).
  Proof.
    induction gs as [|g1 rest IH]; intros e st; [apply SR_refl|].
    destruct rest as [|g2 r]; [apply SR_refl|].
    rewrite eval_conjplus_cons, eval_nest_conj_cons.
    apply bindk_SR.
    - intros a. apply IH.
    - apply TBind_TR. intros a. apply IH.
    - apply SR_refl.
  Qed.

  Theorem conj_nozzz_answers : forall gs e st x,
    InStream x (eval (GConjPlus false gs) e st) <-> InStream x (eval (nest_conj gs) e st).
  Proof. intros. apply SR_in. apply conj_nozzz_SR. Qed.

  Theorem conj_nozzz_trace : forall gs e st f,
    trace f (eval (GConjPlus false gs) e st) = trace f (eval (nest_conj gs) e st).
  Proof. intros. apply SR_trace. apply conj_nozzz_SR. Qed.

  Theorem conj_nozzz_take : forall gs e st f n,
    take f n (eval (GConjPlus false gs) e st) = take f n (eval (nest_conj gs) e st).
  Proof. intros. apply SR_take. apply conj_nozzz_SR. Qed.

  Theorem conj_nozzz_err : forall gs e st,
    ReachErr (eval (GConjPlus false gs) e st) <-> ReachErr (eval (nest_conj gs) e st).
  Proof. intros. apply SR_err. apply conj_nozzz_SR. Qed.

  (* ---------- c. the Zzz variants ---------- *)

  Lemma in_susp : forall x th, InStream x (SSusp th) <-> InStream x (force th).
  Proof. intros x th; split; intros H; [inversion H; subst; assumption|constructor; assumption]. Qed.

  Lemma err_susp : forall th, ReachErr (SSusp th) <-> ReachErr (force th).
  Proof. intros th; split; intros H; [inversion H; subst; assumption|constructor; assumption]. Qed.

  Lemma in_mplus_iff : forall x a b, ~ ReachErr a -> ~ ReachErr b ->
    (InStream x (mplus a b) <-> InStream x a \/ InStream x b).
  Proof.
    intros x a b Ha Hb; split; [apply in_mplus_inv|].
    intros [H|H].
    - apply (in_mplus_fair x a b H Hb).
    - apply (in_mplus_fair x b a H Ha).
  Qed.

  Lemma force_TMplus_TGoal : forall s g e st, force (TMplus s (TGoal g e st)) = mplus s (eval g e st).
  Proof. reflexivity. Qed.
  Lemma force_TGoal : forall g e st, force (TGoal g e st) = eval g e st.
  Proof. reflexivity. Qed.
  Lemma force_TBind_TGoal : forall g1 g e st,
    force (TBind (TGoal g1 e st) g e) =
    bindk (fun a => eval g e a) (fun th' => TBind th' g e) (eval g1 e st).
  Proof. reflexivity. Qed.

  (* errors: unconditional characterisation *)
  Lemma err_disj_z : forall gs e st,
    ReachErr (eval (GDisjPlus true gs) e st) <-> exists g, In g gs /\ ReachErr (eval g e st).
  Proof.
    induction gs as [|g1 rest IH]; intros e st.
    - split; [intros H; inversion H|intros [g [[] _]]].
    - destruct rest as [|g2 r].
      + change (eval (GDisjPlus true [g1]) e st) with (SSusp (TGoal g1 e st)).
        rewrite err_susp, force_TGoal. split.
        * intros H; exists g1; split; [left; reflexivity|assumption].
        * intros [g [[<-|[]] H]]; assumption.
      + rewrite eval_disjplus_z_cons, err_susp, force_TMplus_TGoal, err_mplus_iff, IH. split.
        * intros [[g [Hg H]]|H].
          -- exists g; split; [right; assumption|assumption].
          -- exists g1; split; [left; reflexivity|assumption].
        * intros [g [[<-|Hg] H]]; [right; assumption|left; exists g; split; assumption].
  Qed.

  Lemma err_nest_disj : forall gs e st,
    ReachErr (eval (nest_disj gs) e st) <-> exists g, In g gs /\ ReachErr (eval g e st).
  Proof.
    induction gs as [|g1 rest IH]; intros e st.
    - split; [intros H; inversion H|intros [g [[] _]]].
    - destruct rest as [|g2 r].
      + simpl nest_disj. split.
        * intros H; exists g1; split; [left; reflexivity|assumption].
        * intros [g [[<-|[]] H]]; assumption.
      + rewrite eval_nest_disj_cons, err_mplus_iff, IH. split.
        * intros [H|[g [Hg H]]].
          -- exists g1; split; [left; reflexivity|assumption].
          -- exists g; split; [right; assumption|assumption].
        * intros [g [[<-|Hg] H]]; [left; assumption|right; exists g; split; assumption].
  Qed.

  Theorem disj_zzz_err : forall gs e st,
    ReachErr (eval (GDisjPlus true gs) e st) <-> ReachErr (eval (nest_disj gs) e st).
  Proof. intros. rewrite err_disj_z, err_nest_disj. reflexivity. Qed.

  (* answers: the union of the answers of the arguments, when no argument reaches an error *)
  Lemma in_disj_z_inv : forall gs e st x,
    InStream x (eval (GDisjPlus true gs) e st) -> exists g, In g gs /\ InStream x (eval g e st).
  Proof.
    induction gs as [|g1 rest IH]; intros e st x H.
    - inversion H.
    - destruct rest as [|g2 r].
      + change (eval (GDisjPlus true [g1]) e st) with (SSusp (TGoal g1 e st)) in H.
        apply in_susp in H. exists g1; split; [left; reflexivity|assumption].
      + rewrite eval_disjplus_z_cons in H. apply in_susp in H. rewrite force_TMplus_TGoal in H.
        apply in_mplus_inv in H. destruct H as [H|H].
        * destruct (IH _ _ _ H) as [g [Hg Hx]]. exists g; split; [right; assumption|assumption].
        * exists g1; split; [left; reflexivity|assumption].
  Qed.

  Lemma in_disj_z : forall gs e st x g,
    (forall g, In g gs -> ~ ReachErr (eval g e st)) ->
    In g gs -> InStream x (eval g e st) -> InStream x (eval (GDisjPlus true gs) e st).
  Proof.
    induction gs as [|g1 rest IH]; intros e st x g Hne Hg Hx; [destruct Hg|].
    destruct rest as [|g2 r].
    - destruct Hg as [<-|[]]. apply in_susp. assumption.
    - rewrite eval_disjplus_z_cons. apply in_susp. rewrite force_TMplus_TGoal.
      apply in_mplus_iff.
      + rewrite err_disj_z. intros [g' [Hg' He]]. apply (Hne g'); [right; assumption|assumption].
      + apply Hne. left; reflexivity.
      + destruct Hg as [<-|Hg]; [right; assumption|left].
        apply (IH _ _ _ g); [|assumption|assumption].
        intros g' Hg'. apply Hne. right; assumption.
  Qed.

  Lemma in_nest_disj_inv : forall gs e st x,
    InStream x (eval (nest_disj gs) e st) -> exists g, In g gs /\ InStream x (eval g e st).
  Proof.
    induction gs as [|g1 rest IH]; intros e st x H.
    - inversion H.
    - destruct rest as [|g2 r].
      + exists g1; split; [left; reflexivity|assumption].
      + rewrite eval_nest_disj_cons in H.
        apply in_mplus_inv in H. destruct H as [H|H].
        * exists g1; split; [left; reflexivity|assumption].
        * destruct (IH _ _ _ H) as [g [Hg Hx]]. exists g; split; [right; assumption|assumption].
  Qed.

  Lemma in_nest_disj : forall gs e st x g,
    (forall g, In g gs -> ~ ReachErr (eval g e st)) ->
    In g gs -> InStream x (eval g e st) -> InStream x (eval (nest_disj gs) e st).
  Proof.
    induction gs as [|g1 rest IH]; intros e st x g Hne Hg Hx; [destruct Hg|].
    destruct rest as [|g2 r].
    - destruct Hg as [<-|[]]. assumption.
    - rewrite eval_nest_disj_cons.
      apply in_mplus_iff.
      + apply Hne. left; reflexivity.
      + rewrite err_nest_disj. intros [g' [Hg' He]]. apply (Hne g'); [right; assumption|assumption].
      + destruct Hg as [<-|Hg]; [left; assumption|right].
        apply (IH _ _ _ g); [|assumption|assumption].
        intros g' Hg'. apply Hne. right; assumption.
  Qed.

  (* both are the union of the answers of the arguments *)
  Theorem disj_zzz_union : forall gs e st x,
    (forall g, In g gs -> ~ ReachErr (eval g e st)) ->
    (InStream x (eval (GDisjPlus true gs) e st) <-> exists g, In g gs /\ InStream x (eval g e st)).
  Proof.
    intros gs e st x Hne; split; [apply in_disj_z_inv|].
    intros [g [Hg Hx]]. eapply in_disj_z; eauto.
  Qed.

  Theorem disj_zzz_answers : forall gs e st x,
    (forall g, In g gs -> ~ ReachErr (eval g e st)) ->
    (InStream x (eval (GDisjPlus true gs) e st) <-> InStream x (eval (nest_disj gs) e st)).
  Proof.
    intros gs e st x Hne. rewrite disj_zzz_union by assumption. split.
    - intros [g [Hg Hx]]. eapply in_nest_disj; eauto.
    - apply in_nest_disj_inv.
  Qed.

  (* the same under the single hypothesis that the specification side reaches no error *)
  Theorem disj_zzz_answers' : forall gs e st x,
    ~ ReachErr (eval (nest_disj gs) e st) ->
    (InStream x (eval (GDisjPlus true gs) e st) <-> InStream x (eval (nest_disj gs) e st)).
  Proof.
    intros gs e st x Hne. apply disj_zzz_answers.
    intros g Hg He. apply Hne. apply err_nest_disj. exists g; split; assumption.
  Qed.

  (* conj+ with Zzz *)
  Lemma TBind_mk : forall g e th,
    force (TBind th g e) = bindk (fun a => eval g e a) (fun th' => TBind th' g e) (force th).
  Proof. reflexivity. Qed.

  Theorem conj_zzz_err : forall gs e st,
    ReachErr (eval (GConjPlus true gs) e st) <-> ReachErr (eval (nest_conj gs) e st).
  Proof.
    induction gs as [|g1 rest IH]; intros e st; [reflexivity|].
    destruct rest as [|g2 r].
    - change (eval (GConjPlus true [g1]) e st) with (SSusp (TGoal g1 e st)).
      rewrite err_susp. reflexivity.
    - rewrite eval_conjplus_z_cons, err_susp, force_TBind_TGoal, eval_nest_conj_cons.
      rewrite !err_bindk_iff by (intros th; reflexivity).
      split; (intros [H|[a [Ha H]]]; [left; assumption|right; exists a; split; [assumption|]]);
        apply IH; assumption.
  Qed.

  Theorem conj_zzz_answers : forall gs e st x,
    ~ ReachErr (eval (nest_conj gs) e st) ->
    (InStream x (eval (GConjPlus true gs) e st) <-> InStream x (eval (nest_conj gs) e st)).
  Proof.
    induction gs as [|g1 rest IH]; intros e st x Hne; [reflexivity|].
    destruct rest as [|g2 r].
    - change (eval (GConjPlus true [g1]) e st) with (SSusp (TGoal g1 e st)).
      rewrite in_susp. reflexivity.
    - assert (Hne1 : ~ ReachErr (eval (GConjPlus true (g1 :: g2 :: r)) e st))
        by (rewrite conj_zzz_err; assumption).
      rewrite eval_conjplus_z_cons, err_susp, force_TBind_TGoal in Hne1.
      rewrite eval_nest_conj_cons in Hne.
      assert (Hk : forall a, InStream a (eval g1 e st) -> ~ ReachErr (eval (nest_conj (g2 :: r)) e a)).
      { intros a Ha He. apply Hne. apply err_bindk_iff; [intros th; reflexivity|].
        right. exists a; split; assumption. }
      rewrite eval_conjplus_z_cons, in_susp, force_TBind_TGoal, eval_nest_conj_cons.
      split; intros H.
      + apply in_bindk_inv in H; [|intros th; reflexivity]. destruct H as [a [Ha Hx]].
        apply in_bindk with (a := a); [intros th; reflexivity|assumption| |assumption].
        apply IH; [apply Hk; assumption|assumption].
      + apply in_bindk_inv in H; [|intros th; reflexivity]. destruct H as [a [Ha Hx]].
        apply in_bindk with (a := a); [intros th; reflexivity|assumption| |assumption].
        apply IH; [apply Hk; assumption|assumption].
  Qed.

  (* Conde: disj+ of conj+, both with Zzz *)
  Theorem conde_answers : forall gss e st x,
    (forall gs, In gs gss -> ~ ReachErr (eval (nest_conj gs) e st)) ->
    (InStream x (eval (GConde gss) e st) <->
     InStream x (eval (nest_disj (map nest_conj gss)) e st)).
  Proof.
    intros gss e st x Hne. unfold GConde.
    assert (H1 : forall g, In g (map (GConjPlus true) gss) -> ~ ReachErr (eval g e st)).
    { intros g Hg. apply in_map_iff in Hg. destruct Hg as [gs [<- Hgs]].
      rewrite conj_zzz_err. apply Hne; assumption. }
    assert (H2 : forall g, In g (map nest_conj gss) -> ~ ReachErr (eval g e st)).
    { intros g Hg. apply in_map_iff in Hg. destruct Hg as [gs [<- Hgs]]. apply Hne; assumption. }
    rewrite disj_zzz_union by assumption. split.
    - intros [g [Hg Hx]]. apply in_map_iff in Hg. destruct Hg as [gs [<- Hgs]].
      apply (in_nest_disj _ _ _ _ (nest_conj gs)); [assumption|apply in_map; assumption|].
      apply conj_zzz_answers; [apply Hne; assumption|assumption].
    - intros H. apply in_nest_disj_inv in H. destruct H as [g [Hg Hx]].
      apply in_map_iff in Hg. destruct Hg as [gs [<- Hgs]].
      exists (GConjPlus true gs). split; [apply in_map; assumption|].
      apply conj_zzz_answers; [apply Hne; assumption|assumption].
  Qed.

  (* ---------- e-g. IfThenElseO ---------- *)

  Local Notation ifte_loop := (ifte_loop ds uf).

  Lemma ifte_loop_susp : forall th t el e st,
    ifte_loop (SSusp th) t el e st = SSusp (TIfte th t el e st).
  Proof. reflexivity. Qed.
  Lemma ifte_loop_nil : forall t el e st, ifte_loop SNil t el e st = eval el e st.
  Proof. reflexivity. Qed.
  Lemma ifte_loop_cons : forall a tl t el e st,
    ifte_loop (SCons a tl) t el e st =
    bindk (fun a => eval t e a) (fun th => TBind th t e) (SCons a tl).
  Proof. reflexivity. Qed.
  Lemma bindk_susp : forall k mk th, bindk k mk (SSusp th) = SSusp (mk th).
  Proof. reflexivity. Qed.

  (* once the condition has an answer, ifte is the bind of the condition stream with the then-branch *)
  Lemma ifte_loop_then_in : forall t el e st a0 s, InStream a0 s -> forall x,
    InStream x (ifte_loop s t el e st) <->
    InStream x (bindk (fun a => eval t e a) (fun th => TBind th t e) s).
  Proof.
    intros t el e st a0 s H. induction H as [tl|a tl H IH|th H IH]; intros x.
    - reflexivity.
    - reflexivity.
    - rewrite ifte_loop_susp, bindk_susp, !in_susp, force_TIfte, TBind_mk. apply IH.
  Qed.

  Lemma ifte_loop_then_err : forall t el e st a0 s, InStream a0 s ->
    (ReachErr (ifte_loop s t el e st) <->
     ReachErr (bindk (fun a => eval t e a) (fun th => TBind th t e) s)).
  Proof.
    intros t el e st a0 s H. induction H as [tl|a tl H IH|th H IH].
    - reflexivity.
    - reflexivity.
    - rewrite ifte_loop_susp, bindk_susp, !err_susp, force_TIfte, TBind_mk. apply IH.
  Qed.

  Lemma ifte_loop_then_finite : forall t el e st a0 s, InStream a0 s ->
    (Finite (ifte_loop s t el e st) <->
     Finite (bindk (fun a => eval t e a) (fun th => TBind th t e) s)).
  Proof.
    intros t el e st a0 s H. induction H as [tl|a tl H IH|th H IH].
    - reflexivity.
    - reflexivity.
    - rewrite ifte_loop_susp, bindk_susp. split; intros HF; inversion HF; subst; constructor.
      + rewrite TBind_mk. apply IH. rewrite <- force_TIfte. assumption.
      + rewrite force_TIfte. apply IH. rewrite <- TBind_mk. assumption.
  Qed.

  (* e. the condition has an answer: exactly the answers of (c and then t); el is never used *)
  Theorem ifte_then_conj : forall c t el e st a0, InStream a0 (eval c e st) ->
    forall x, InStream x (eval (GIfte c t el) e st) <-> InStream x (eval (GConj c t) e st).
  Proof. intros c t el e st a0 H x. rewrite eval_GIfte. eapply ifte_loop_then_in; eauto. Qed.

  Theorem ifte_then_err : forall c t el e st a0, InStream a0 (eval c e st) ->
    (ReachErr (eval (GIfte c t el) e st) <-> ReachErr (eval (GConj c t) e st)).
  Proof. intros c t el e st a0 H. rewrite eval_GIfte. eapply ifte_loop_then_err; eauto. Qed.

  Theorem ifte_then_finite : forall c t el e st a0, InStream a0 (eval c e st) ->
    (Finite (eval (GIfte c t el) e st) <-> Finite (eval (GConj c t) e st)).
  Proof. intros c t el e st a0 H. rewrite eval_GIfte. eapply ifte_loop_then_finite; eauto. Qed.

  Theorem ifte_then_inv : forall c t el e st a0, InStream a0 (eval c e st) ->
    forall x, InStream x (eval (GIfte c t el) e st) ->
    exists a, InStream a (eval c e st) /\ InStream x (eval t e a).
  Proof.
    intros c t el e st a0 H x Hx. rewrite (ifte_then_conj _ _ _ _ _ _ H) in Hx.
    simpl in Hx. apply in_bindk_inv in Hx; [assumption|intros th; reflexivity].
  Qed.

  Theorem ifte_then : forall c t el e st a0, InStream a0 (eval c e st) ->
    ~ ReachErr (eval (GIfte c t el) e st) ->
    forall x, InStream x (eval (GIfte c t el) e st) <->
              exists a, InStream a (eval c e st) /\ InStream x (eval t e a).
  Proof.
    intros c t el e st a0 H Hne x. split; [eapply ifte_then_inv; eauto|].
    intros [a [Ha Hx]]. rewrite (ifte_then_conj _ _ _ _ _ _ H).
    rewrite (ifte_then_err _ _ _ _ _ _ H) in Hne. simpl in *.
    apply in_bindk with (a := a); [intros th; reflexivity|assumption|assumption|assumption].
  Qed.

  (* f. the condition fails finitely: exactly the else-branch *)
  Lemma ifte_loop_fails_in : forall t el e st s, Fails s -> forall x,
    InStream x (ifte_loop s t el e st) <-> InStream x (eval el e st).
  Proof.
    intros t el e st s H. induction H as [|th H IH]; intros x.
    - reflexivity.
    - rewrite ifte_loop_susp, in_susp, force_TIfte. apply IH.
  Qed.

  Lemma ifte_loop_fails_err : forall t el e st s, Fails s ->
    (ReachErr (ifte_loop s t el e st) <-> ReachErr (eval el e st)).
  Proof.
    intros t el e st s H. induction H as [|th H IH].
    - reflexivity.
    - rewrite ifte_loop_susp, err_susp, force_TIfte. apply IH.
  Qed.

  Theorem ifte_else : forall c t el e st, Fails (eval c e st) ->
    forall x, InStream x (eval (GIfte c t el) e st) <-> InStream x (eval el e st).
  Proof. intros c t el e st H x. rewrite eval_GIfte. apply ifte_loop_fails_in; assumption. Qed.

  Theorem ifte_else_err : forall c t el e st, Fails (eval c e st) ->
    (ReachErr (eval (GIfte c t el) e st) <-> ReachErr (eval el e st)).
  Proof. intros c t el e st H. rewrite eval_GIfte. apply ifte_loop_fails_err; assumption. Qed.

  (* g. silent divergence of the condition stays silent *)
  Lemma fails_susp : forall th, Fails (force th) -> Fails (SSusp th).
  Proof. intros; constructor; assumption. Qed.

  Lemma ifte_loop_in_src : forall t el e st x r, InStream x r ->
    forall s, r = ifte_loop s t el e st -> Fails s \/ exists a, InStream a s.
  Proof.
    intros t el e st x r H. induction H as [tl|a0 tl H IH|th H IH]; intros s E;
      (destruct s as [|a tl'|th'|]; [left; constructor|right; exists a; constructor| |discriminate]).
    - discriminate.
    - discriminate.
    - rewrite ifte_loop_susp in E. inversion E; subst.
      destruct (IH (force th') (force_TIfte _ _ _ _ _ _ _)) as [HF|[a Ha]].
      + left. constructor; assumption.
      + right. exists a. constructor; assumption.
  Qed.

  Lemma ifte_loop_err_src : forall t el e st r, ReachErr r ->
    forall s, r = ifte_loop s t el e st -> Fails s \/ (exists a, InStream a s) \/ ReachErr s.
  Proof.
    intros t el e st r H. induction H as [|a0 tl H IH|th H IH]; intros s E;
      (destruct s as [|a tl'|th'|];
       [left; constructor|right; left; exists a; constructor| |right; right; constructor]).
    - discriminate.
    - discriminate.
    - rewrite ifte_loop_susp in E. inversion E; subst.
      destruct (IH (force th') (force_TIfte _ _ _ _ _ _ _)) as [HF|[[a Ha]|He]].
      + left. constructor; assumption.
      + right; left. exists a. constructor; assumption.
      + right; right. constructor; assumption.
  Qed.

  Lemma ifte_loop_finite_src : forall t el e st r, Finite r ->
    forall s, r = ifte_loop s t el e st -> Fails s \/ exists a, InStream a s.
  Proof.
    intros t el e st r H. induction H as [|a0 tl H IH|th H IH]; intros s E;
      (destruct s as [|a tl'|th'|]; [left; constructor|right; exists a; constructor| |discriminate]).
    - discriminate.
    - discriminate.
    - rewrite ifte_loop_susp in E. inversion E; subst.
      destruct (IH (force th') (force_TIfte _ _ _ _ _ _ _)) as [HF|[a Ha]].
      + left. constructor; assumption.
      + right. exists a. constructor; assumption.
  Qed.

  Theorem ifte_silent : forall c t el e st,
    ~ Fails (eval c e st) -> (forall a, ~ InStream a (eval c e st)) -> ~ ReachErr (eval c e st) ->
    (forall x, ~ InStream x (eval (GIfte c t el) e st)) /\
    ~ ReachErr (eval (GIfte c t el) e st) /\
    ~ Finite (eval (GIfte c t el) e st).
  Proof.
    intros c t el e st HF HI HE. rewrite eval_GIfte. split; [|split].
    - intros x Hx. destruct (ifte_loop_in_src _ _ _ _ _ _ Hx _ eq_refl) as [H|[a H]]; [auto|eapply HI; eauto].
    - intros Hx. destruct (ifte_loop_err_src _ _ _ _ _ Hx _ eq_refl) as [H|[[a H]|H]];
        [auto|eapply HI; eauto|auto].
    - intros Hx. destruct (ifte_loop_finite_src _ _ _ _ _ Hx _ eq_refl) as [H|[a H]]; [auto|eapply HI; eauto].
  Qed.

  (* ---------- h. OnceO ---------- *)

  Lemma once_loop_in_first : forall x r, InStream x r -> forall s, r = once_loop s -> First x s.
  Proof.
    intros x r H. induction H as [tl|a0 tl H IH|th H IH]; intros s E;
      destruct s as [|a tl'|th'|]; simpl in E; try discriminate.
    - inversion E; subst. constructor.
    - inversion E; subst. inversion H.
    - inversion E; subst. constructor. apply IH. reflexivity.
  Qed.

  Lemma first_once_loop : forall x s, First x s -> InStream x (once_loop s).
  Proof.
    intros x s H. induction H as [tl|th H IH].
    - simpl. constructor.
    - simpl. constructor. simpl. assumption.
  Qed.

  Theorem once_first : forall g e st x,
    InStream x (eval (GOnce g) e st) <-> First x (eval g e st).
  Proof.
    intros g e st x. split.
    - intros H. eapply once_loop_in_first; eauto.
    - apply first_once_loop.
  Qed.

  Theorem first_unique : forall x y s, First x s -> First y s -> x = y.
  Proof.
    intros x y s H. induction H as [tl|th H IH]; intros Hy; inversion Hy; subst; auto.
  Qed.

  Theorem first_in : forall x s, First x s -> InStream x s.
  Proof. intros x s H. induction H; constructor; assumption. Qed.

  Theorem in_first_exists : forall a s, InStream a s -> exists x, First x s.
  Proof.
    intros a s H. induction H as [tl|a0 tl H IH|th H IH].
    - exists a. constructor.
    - exists a0. constructor.
    - destruct IH as [x Hx]. exists x. constructor; assumption.
  Qed.

  (* at most one answer, it is an answer of g, and there is one whenever g has an answer *)
  Theorem once_at_most_one : forall g e st x y,
    InStream x (eval (GOnce g) e st) -> InStream y (eval (GOnce g) e st) -> x = y.
  Proof. intros g e st x y Hx Hy. apply once_first in Hx, Hy. eapply first_unique; eauto. Qed.

  Theorem once_sub : forall g e st x, InStream x (eval (GOnce g) e st) -> InStream x (eval g e st).
  Proof. intros g e st x H. apply first_in. apply once_first. assumption. Qed.

  Theorem once_exists : forall g e st a, InStream a (eval g e st) ->
    exists x, InStream x (eval (GOnce g) e st).
  Proof.
    intros g e st a H. destruct (in_first_exists _ _ H) as [x Hx]. exists x. apply once_first. assumption.
  Qed.
End Comb.

Print Assumptions conj_empty.
Print Assumptions disj_empty.
Print Assumptions conde_def.
Print Assumptions disj_nozzz_eq.
Print Assumptions conj_nozzz_answers.
Print Assumptions conj_nozzz_trace.
Print Assumptions conj_nozzz_take.
Print Assumptions conj_nozzz_err.
Print Assumptions disj_zzz_err.
Print Assumptions disj_zzz_union.
Print Assumptions disj_zzz_answers.
Print Assumptions disj_zzz_answers'.
Print Assumptions conj_zzz_err.
Print Assumptions conj_zzz_answers.
Print Assumptions conde_answers.
Print Assumptions ifte_then_conj.
Print Assumptions ifte_then_err.
Print Assumptions ifte_then_finite.
Print Assumptions ifte_then_inv.
Print Assumptions ifte_then.
Print Assumptions ifte_else.
Print Assumptions ifte_else_err.
Print Assumptions ifte_silent.
Print Assumptions once_first.
Print Assumptions first_unique.
Print Assumptions first_in.
Print Assumptions once_at_most_one.
Print Assumptions once_sub.
Print Assumptions once_exists.
