(* L4 models for C11 "no goroutine outlives a finished or cancelled search".  Three small labelled transition
   systems; in each the schedule is an explicit list of labels, `step` is partial (None = the label is not enabled),
   so "for every schedule" is a plain forall over label lists.  No proofs in this file (LeakSpec.v has them).

   Module Conj   : concurrent.ConjPlus / ConjPlusZzz / DisjPlus (conj.go, disj.go): n+1 one-shot senders, a receiver
                   that may return early.  Parameters cap, cap2 = capacities of `ch` and `ch2`
                   (the code: make(chan answer), make(chan *StreamOfStates): cap = cap2 = 0), early = does the
                   receiver return at the first decisive message (ConjPlus: true; DisjPlus: false, it receives all n).
   Module Cancel : gomini tasks after ctx is cancelled (stream.go, operators.go, limit.go:Go).  Parameter
                   go_checks_cancel = does Go refuse to start a goroutine under a cancelled context
                   (the code: false, the result of waitForRoutine is ignored at limit.go:13).
   Module Ticker : the goroutine started by SetMaxRoutines (limit.go:30-46).  Parameter guarded = is the send
                   `limitChan <- struct{}{}` inside a select with `<-ctx.Done()` (the code: false). *)
From Coq Require Import List Arith Bool Lia.
Import ListNotations.

(* replace position i of a list (no-op when i is out of range) *)
Fixpoint upd {A : Type} (i : nat) (x : A) (l : list A) : list A :=
  match l, i with
  | [], _ => []
  | _ :: r, O => x :: r
  | y :: r, S j => y :: upd j x r
  end.

(* ------------------------------------------------------------------------------------------------------------- *)
Module Conj.

(* one-shot sender goroutine: evaluating its goal / blocked in `ch <- v` / its send completed into a buffer slot
   (the goroutine has terminated, the message sits in the buffer) / its message has been received (terminated) *)
Inductive sstatus := Computing | Sending | Buffered | Taken.
Inductive rstatus := Receiving | Returned.
(* the n workers send on ch, one more goroutine sends on ch2 *)
Inductive sender := Wk (i : nat) | Ch2.

Record cfg := mkC { ws : list sstatus; s2 : sstatus; rcv : rstatus }.

Inductive label :=
| LCompute (s : sender)                  (* the goal evaluation of s returns; s reaches its send statement.
                                            Always enabled for a Computing sender: goal evaluations are assumed to terminate *)
| LSend (s : sender)                     (* the send of s completes into a free buffer slot *)
| LRecv (s : sender) (decisive : bool).  (* the receiver takes the message of s (from the buffer, or handed over
                                            directly by the blocked sender); if decisive it returns *)

Definition is_buffered (s : sstatus) : bool := match s with Buffered => true | _ => false end.
(* the goroutine has terminated *)
Definition gone (s : sstatus) : bool := match s with Buffered | Taken => true | _ => false end.
Definition is_taken (s : sstatus) : bool := match s with Taken => true | _ => false end.
Definition count (p : sstatus -> bool) (l : list sstatus) : nat := length (filter p l).

Definition get (c : cfg) (s : sender) : option sstatus :=
  match s with Wk i => nth_error (ws c) i | Ch2 => Some (s2 c) end.
Definition set (c : cfg) (s : sender) (v : sstatus) : cfg :=
  match s with Wk i => mkC (upd i v (ws c)) (s2 c) (rcv c) | Ch2 => mkC (ws c) v (rcv c) end.
(* occupancy of the channel s sends on *)
Definition occ (c : cfg) (s : sender) : nat :=
  match s with Wk _ => count is_buffered (ws c) | Ch2 => if is_buffered (s2 c) then 1 else 0 end.
Definition capof (cap cap2 : nat) (s : sender) : nat := match s with Wk _ => cap | Ch2 => cap2 end.
(* a message on ch is decisive iff it is a nil stream (the label chooses); the message on ch2 always is *)
Definition decisive_ok (s : sender) (d : bool) : bool := match s with Wk _ => true | Ch2 => d end.

Definition step (cap cap2 : nat) (early : bool) (c : cfg) (l : label) : option cfg :=
  match l with
  | LCompute s =>
      match get c s with Some Computing => Some (set c s Sending) | _ => None end
  | LSend s =>
      match get c s with
      | Some Sending => if occ c s <? capof cap cap2 s then Some (set c s Buffered) else None
      | _ => None
      end
  | LRecv s d =>
      match rcv c with
      | Returned => None                  (* after the combinator returned nobody receives any more *)
      | Receiving =>
          match get c s with
          | Some Sending | Some Buffered =>
              if decisive_ok s d
              then let c' := set c s Taken in
                   Some (if d && early then mkC (ws c') (s2 c') Returned else c')
              else None
          | _ => None
          end
      end
  end.

Fixpoint run (cap cap2 : nat) (early : bool) (c : cfg) (ls : list label) : option cfg :=
  match ls with
  | [] => Some c
  | l :: r => match step cap cap2 early c l with Some c' => run cap cap2 early c' r | None => None end
  end.

(* ConjPlus over n goals: n workers on ch, one sender on ch2 *)
Definition init_conj (n : nat) : cfg := mkC (repeat Computing n) Computing Receiving.
(* DisjPlus over n goals: n workers on ch, no ch2, the receiver never returns early (run with early = false) *)
Definition init_disj (n : nat) : cfg := mkC (repeat Computing n) Taken Receiving.

(* goroutines that have not terminated / messages received so far *)
Definition leaked (c : cfg) : nat := count (fun s => negb (gone s)) (s2 c :: ws c).
Definition received (c : cfg) : nat := count is_taken (s2 c :: ws c).
Definition terminal (cap cap2 : nat) (early : bool) (c : cfg) : Prop := forall l, step cap cap2 early c l = None.

End Conj.

(* ------------------------------------------------------------------------------------------------------------- *)
Module Cancel.

(* The code a goroutine still has to run, as a tree: the spine (the k's) is the goroutine's own straight line,
   `Spawn child k` is Go(ctx, wg, child) followed by k, `Call r k` calls relation number r (its body is unfolded
   in place, then k), `Wait k` is wg.Wait().  Write/Read are writeToStream/readFromStream: a select with a
   `<-ctx.Done()` alternative, so under a cancelled context they complete at once.  (Before cancellation they
   need a partner; the model lets them complete freely there - the theorems are about cancelled configurations,
   and they quantify over ALL cancelled configurations, not only reachable ones.) *)
Inductive code :=
| Write (k : code) | Read (k : code) | Spawn (child k : code) | Call (r : nat) (k : code) | Wait (k : code) | Done.

Fixpoint seq (c k : code) : code :=
  match c with
  | Write c' => Write (seq c' k)
  | Read c' => Read (seq c' k)
  | Spawn ch c' => Spawn ch (seq c' k)
  | Call r c' => Call r (seq c' k)
  | Wait c' => Wait (seq c' k)
  | Done => k
  end.

Record task := mkT { par : option nat; pc : code }.
Record cfg := mkC { tasks : list task; cancelled : bool }.
Inductive label := LCancel | LStep (i : nat).

Definition body (rels : list code) (r : nat) : code := nth r rels Done.
Definition is_done (c : code) : bool := match c with Done => true | _ => false end.
Definition live (t : task) : bool := negb (is_done (pc t)).
Definition live_child_of (i : nat) (t : task) : bool :=
  match par t with Some p => (p =? i) && live t | None => false end.
Definition has_live_child (i : nat) (ts : list task) : bool := existsb (live_child_of i) ts.
Definition live_count (c : cfg) : nat := length (filter live (tasks c)).

Definition goto (c : cfg) (i : nat) (t : task) (k : code) : cfg :=
  mkC (upd i (mkT (par t) k) (tasks c)) (cancelled c).

Definition step (go_checks_cancel : bool) (rels : list code) (c : cfg) (l : label) : option cfg :=
  match l with
  | LCancel => if cancelled c then None else Some (mkC (tasks c) true)
  | LStep i =>
      match nth_error (tasks c) i with
      | None => None
      | Some t =>
          match pc t with
          | Done => None
          | Write k | Read k => Some (goto c i t k)
          | Spawn ch k =>
              if go_checks_cancel && cancelled c then Some (goto c i t k)   (* Go returns without starting ch *)
              else Some (mkC (tasks (goto c i t k) ++ [mkT (Some i) ch]) (cancelled c))
          | Call r k => Some (goto c i t (seq (body rels r) k))
          | Wait k => if has_live_child i (tasks c) then None else Some (goto c i t k)
          end
      end
  end.

Fixpoint run (gcc : bool) (rels : list code) (c : cfg) (ls : list label) : option cfg :=
  match ls with
  | [] => Some c
  | l :: r => match step gcc rels c l with Some c' => run gcc rels c' r | None => None end
  end.

(* length of the spine, and: the spine contains no Call *)
Fixpoint spine (c : code) : nat :=
  match c with
  | Write k | Read k | Wait k | Spawn _ k | Call _ k => S (spine k)
  | Done => 0
  end.
Fixpoint nocall (c : code) : bool :=
  match c with
  | Write k | Read k | Wait k | Spawn _ k => nocall k
  | Call _ _ => false
  | Done => true
  end.
(* every recursive call sits inside a spawned goal (a disjunct, a conjunct, a condition), never on the spine of a
   relation body: a relation that calls itself on its own spine is a sequential infinite loop that no context can stop *)
Definition guarded (rels : list code) : bool := forallb nocall rels.

(* the steps a goroutine can still take once Go refuses to start children: its spine, with each call counted
   together with the spine of the body it unfolds *)
Fixpoint psize (rels : list code) (c : code) : nat :=
  match c with
  | Write k | Read k | Wait k | Spawn _ k => S (psize rels k)
  | Call r k => S (spine (body rels r) + psize rels k)
  | Done => 0
  end.
Fixpoint total (rels : list code) (ts : list task) : nat :=
  match ts with [] => 0 | t :: r => psize rels (pc t) + total rels r end.
Definition measure (rels : list code) (c : cfg) : nat := total rels (tasks c).

(* parents were created before their children *)
Definition wfpar (c : cfg) : Prop := forall i t p, nth_error (tasks c) i = Some t -> par t = Some p -> p < i.

(* (define (fives x) (disj (== x 5) (fives x))) : disj2 = Go(g1); Go(g2); wg.Wait() *)
Definition fives_rels : list code := [Spawn (Write Done) (Spawn (Call 0 Done) (Wait Done))].
Definition fives_start : cfg := mkC [mkT None (Call 0 Done)] false.
(* one round of the relation run by task j: unfold, start the first disjunct, start the recursive disjunct *)
Fixpoint fives_sched (rounds j : nat) : list label :=
  match rounds with
  | O => []
  | S r => LStep j :: LStep j :: LStep j :: fives_sched r (S (S j))
  end.

End Cancel.

(* ------------------------------------------------------------------------------------------------------------- *)
Module Ticker.

(* for { select { case <-ctx.Done(): return; case <-time.After(10ms): limitChan <- struct{}{} } } *)
Inductive tstate := Waiting | SendingTick | Exited.
Record cfg := mkC { tokens : nat; max : nat; ticker : tstate; cancelled : bool }.

Inductive label :=
| LTimer      (* time.After fires: Waiting -> SendingTick.  Not enabled under a cancelled context: Done is ready at
                 once while a new timer needs 10ms; a timer that fires at the very moment of the cancellation is the
                 schedule LTimer; LCancel *)
| LTickSend   (* the ticker's send completes (needs a free slot) *)
| LTickExit   (* the ticker takes the ctx.Done alternative and returns *)
| LTake       (* environment: some waitForRoutine takes a token *)
| LPut        (* environment: some releaseRoutine puts a token *)
| LCancel.

Definition is_ticker_label (l : label) : bool :=
  match l with LTimer | LTickSend | LTickExit => true | _ => false end.
Definition is_take (l : label) : bool := match l with LTake => true | _ => false end.

Definition step (guarded : bool) (c : cfg) (l : label) : option cfg :=
  match l with
  | LTimer =>
      match ticker c with
      | Waiting => if cancelled c then None else Some (mkC (tokens c) (max c) SendingTick (cancelled c))
      | _ => None
      end
  | LTickSend =>
      match ticker c with
      | SendingTick => if tokens c <? max c then Some (mkC (S (tokens c)) (max c) Waiting (cancelled c)) else None
      | _ => None
      end
  | LTickExit =>
      if cancelled c then
        match ticker c with
        | Waiting => Some (mkC (tokens c) (max c) Exited true)
        | SendingTick => if guarded then Some (mkC (tokens c) (max c) Exited true) else None
        | Exited => None
        end
      else None
  | LTake => match tokens c with O => None | S k => Some (mkC k (max c) (ticker c) (cancelled c)) end
  | LPut => if tokens c <? max c then Some (mkC (S (tokens c)) (max c) (ticker c) (cancelled c)) else None
  | LCancel => if cancelled c then None else Some (mkC (tokens c) (max c) (ticker c) true)
  end.

Fixpoint run (guarded : bool) (c : cfg) (ls : list label) : option cfg :=
  match ls with
  | [] => Some c
  | l :: r => match step guarded c l with Some c' => run guarded c' r | None => None end
  end.

(* SetMaxRoutines(ctx, m): the channel is filled with m tokens *)
Definition init (m : nat) : cfg := mkC m m Waiting false.
(* steps the ticker itself can still take under a cancelled context *)
Definition tmeasure (c : cfg) : nat := match ticker c with Waiting => 1 | SendingTick => 2 | Exited => 0 end.
Definition ticker_steps (ls : list label) : nat := length (filter is_ticker_label ls).

End Ticker.
