(* C06 proofs: every schedule of a gomini goal delivers a permutation of the sequential answer list (runs_perm),
   the sequential order is itself a schedule (runs_exists), fuel monotonicity, agreement with the micro stream
   search on relational programs (gseq_stream_perm), soundness of every partial run (runs_prefix_sound). *)
From Coq Require Import List NArith ZArith Bool Lia Permutation.
From GMK Require Import Term Unify UnifySpec UnifyWf UnifyTotal Goal Stream Den InStream Sound Comb CombPerm.
From GMK Require Import GominiSeq GominiRuns.
Import ListNotations.

(* ---------- obind ---------- *)

Lemma obind_some k l r : obind k l = Some r ->
  (forall a, In a l -> exists la, k a = Some la) /\ r = flat_map (ktot k) l.
Proof.
  revert r. induction l as [|a tl IH]; simpl; intros r H.
  - inversion H; subst. split; [intros a []|reflexivity].
  - destruct (k a) as [la|] eqn:Ea; [|discriminate].
    destruct (obind k tl) as [lr|] eqn:Er; [|discriminate].
    inversion H; subst. destruct (IH lr eq_refl) as [H1 H2]. split.
    + intros b [Hb|Hb]; [subst b; eauto|auto].
    + rewrite H2. f_equal. unfold ktot. rewrite Ea. reflexivity.
Qed.

Lemma obind_total k l : (forall a, In a l -> exists la, k a = Some la) ->
  obind k l = Some (flat_map (ktot k) l).
Proof.
  induction l as [|a tl IH]; simpl; intros H; [reflexivity|].
  destruct (H a (or_introl eq_refl)) as [la Ea]. rewrite IH by (intros b Hb; apply H; right; exact Hb).
  rewrite Ea. do 2 f_equal. unfold ktot. rewrite Ea. reflexivity.
Qed.

Lemma obind_perm k l1 l2 r : obind k l1 = Some r -> Permutation l1 l2 ->
  exists r', obind k l2 = Some r' /\ Permutation r r'.
Proof.
  intros H P. destruct (obind_some _ _ _ H) as [Ht ->].
  exists (flat_map (ktot k) l2). split.
  - apply obind_total. intros a Ha. apply Ht. eapply Permutation_in; [apply Permutation_sym; exact P|exact Ha].
  - apply Permutation_flat_map. exact P.
Qed.

Lemma obind_mono k k' l r : (forall a la, k a = Some la -> k' a = Some la) ->
  obind k l = Some r -> obind k' l = Some r.
Proof.
  intros Hk. revert r. induction l as [|a tl IH]; simpl; intros r H; [exact H|].
  destruct (k a) as [la|] eqn:Ea; [|discriminate].
  destruct (obind k tl) as [lr|] eqn:Er; [|discriminate].
  rewrite (Hk a la Ea), (IH lr eq_refl). exact H.
Qed.

Lemma obind_ext k k' l : (forall a, k a = k' a) -> obind k l = obind k' l.
Proof.
  intros Hk. induction l as [|a tl IH]; simpl; [reflexivity|]. rewrite Hk, IH. reflexivity.
Qed.

Lemma obind_single k a : obind k [a] = match k a with Some la => Some (la ++ []) | None => None end.
Proof. simpl. destruct (k a); reflexivity. Qed.

(* ---------- interleavings ---------- *)

Lemma Interleave2_perm {A} (l1 l2 l : list A) : Interleave2 l1 l2 l -> Permutation l (l1 ++ l2).
Proof.
  induction 1 as [|a l1 l2 l H IH|a l1 l2 l H IH]; simpl.
  - constructor.
  - constructor. exact IH.
  - eapply Permutation_trans; [apply perm_skip; exact IH|]. apply Permutation_middle.
Qed.

Lemma Interleave_perm {A} (ls : list (list A)) l : Interleave ls l -> Permutation l (concat ls).
Proof.
  induction 1 as [|l1 ls lr l H IH H2]; simpl; [constructor|].
  eapply Permutation_trans; [apply (Interleave2_perm _ _ _ H2)|]. apply Permutation_app_head. exact IH.
Qed.

Lemma Interleave2_nil_r {A} (l : list A) : Interleave2 l [] l.
Proof. induction l; constructor; auto. Qed.

Lemma Interleave2_nil_l {A} (l : list A) : Interleave2 [] l l.
Proof. induction l; constructor; auto. Qed.

Lemma Interleave2_app {A} (l1 l2 : list A) : Interleave2 l1 l2 (l1 ++ l2).
Proof. induction l1 as [|a l1 IH]; simpl; [apply Interleave2_nil_l|constructor; exact IH]. Qed.

(* the other extreme: all of l2 before all of l1 *)
Lemma Interleave2_app_rev {A} (l1 l2 : list A) : Interleave2 l1 l2 (l2 ++ l1).
Proof. induction l2 as [|a l2 IH]; simpl; [apply Interleave2_nil_r|constructor; exact IH]. Qed.

Lemma Interleave_concat {A} (ls : list (list A)) : Interleave ls (concat ls).
Proof.
  induction ls as [|l1 ls IH]; simpl; [constructor|].
  econstructor; [exact IH|apply Interleave2_app].
Qed.

Lemma Interleave2_in {A} (l1 l2 l : list A) x : Interleave2 l1 l2 l -> In x l -> In x l1 \/ In x l2.
Proof.
  intros H Hx. apply (Permutation_in x (Interleave2_perm _ _ _ H)) in Hx. apply in_app_or. exact Hx.
Qed.

Lemma Interleave_in {A} (ls : list (list A)) l x : Interleave ls l -> In x l -> exists l0, In l0 ls /\ In x l0.
Proof.
  intros H Hx. apply (Permutation_in x (Interleave_perm _ _ H)) in Hx. apply in_concat in Hx. exact Hx.
Qed.

Scheme Runs_mind := Minimality for GominiRuns.Runs Sort Prop
  with RunsAll_mind := Minimality for GominiRuns.RunsAll Sort Prop
  with RunsEach_mind := Minimality for GominiRuns.RunsEach Sort Prop.
Combined Scheme Runs_mutind from Runs_mind, RunsAll_mind, RunsEach_mind.

Scheme RunsP_mind := Minimality for GominiRuns.RunsP Sort Prop
  with RunsPAll_mind := Minimality for GominiRuns.RunsPAll Sort Prop
  with RunsPEach_mind := Minimality for GominiRuns.RunsPEach Sort Prop.
Combined Scheme RunsP_mutind from RunsP_mind, RunsPAll_mind, RunsPEach_mind.

Section Spec.
  Variable ds : defs.
  Variable uf : term -> term -> subst -> nat.

  Local Notation gseq := (gseq ds uf).
  Local Notation Runs := (Runs ds uf).
  Local Notation RunsAll := (RunsAll ds uf).
  Local Notation RunsEach := (RunsEach ds uf).
  Local Notation RunsP := (RunsP ds uf).
  Local Notation RunsPAll := (RunsPAll ds uf).
  Local Notation RunsPEach := (RunsPEach ds uf).
  Local Notation eval := (eval ds uf).
  Local Notation force := (force ds uf).
  Local Notation Ans := (Ans ds uf).

  (* ---------- unfolding equations of gseq ---------- *)

  Lemma gseq_fail f e st : gseq f GFail e st = Some [].
  Proof. destruct f; reflexivity. Qed.
  Lemma gseq_succ f e st : gseq f GSucc e st = Some [st].
  Proof. destruct f; reflexivity. Qed.
  Lemma gseq_eq f t1 t2 e st : gseq f (GEq t1 t2) e st =
    match unify_eq uf t1 t2 e st with Ok s' => Some [mkSt s' (ctr st)] | Fail => Some [] | OOF => None end.
  Proof. destruct f; reflexivity. Qed.
  Lemma gseq_disj f g1 g2 e st : gseq f (GDisj g1 g2) e st =
    match gseq f g1 e st, gseq f g2 e st with Some l1, Some l2 => Some (l1 ++ l2) | _, _ => None end.
  Proof. destruct f; reflexivity. Qed.
  Lemma gseq_conj f g1 g2 e st : gseq f (GConj g1 g2) e st =
    match gseq f g1 e st with Some l1 => obind (fun a => gseq f g2 e a) l1 | None => None end.
  Proof. destruct f; reflexivity. Qed.
  Lemma gseq_fresh f g e st : gseq f (GFresh g) e st = gseq f g (TVar (ctr st) :: e) (fresh_state st).
  Proof. destruct f; reflexivity. Qed.
  Lemma gseq_zzz f g e st : gseq f (GZzz g) e st = gseq f g e st.
  Proof. destruct f; reflexivity. Qed.
  Lemma gseq_let f args g e st : gseq f (GLet args g) e st = gseq f g (arg_env e args) st.
  Proof. destruct f; reflexivity. Qed.
  Lemma gseq_call_O r args e st : gseq O (GCall r args) e st = None.
  Proof. reflexivity. Qed.
  Lemma gseq_call_S f r args e st : gseq (S f) (GCall r args) e st =
    match ds r with Some body => gseq f body (arg_env e args) st | None => None end.
  Proof. reflexivity. Qed.
  Lemma gseq_conjplus_nil f z e st : gseq f (GConjPlus z []) e st = Some [st].
  Proof. destruct f; reflexivity. Qed.
  Lemma gseq_conjplus_one f z g e st : gseq f (GConjPlus z [g]) e st = gseq f g e st.
  Proof. destruct f; reflexivity. Qed.
  Lemma gseq_conjplus_cons f z g1 g2 rest e st : gseq f (GConjPlus z (g1 :: g2 :: rest)) e st =
    match gseq f g1 e st with
    | Some l1 => obind (fun a => gseq f (GConjPlus z (g2 :: rest)) e a) l1
    | None => None end.
  Proof. destruct f; reflexivity. Qed.
  Lemma gseq_disjplus_nil f z e st : gseq f (GDisjPlus z []) e st = Some [].
  Proof. destruct f; reflexivity. Qed.
  Lemma gseq_disjplus_cons f z g1 rest e st : gseq f (GDisjPlus z (g1 :: rest)) e st =
    match gseq f g1 e st, gseq f (GDisjPlus z rest) e st with
    | Some l1, Some lr => Some (l1 ++ lr) | _, _ => None end.
  Proof. destruct f; reflexivity. Qed.
  Lemma gseq_ifte f c t el e st : gseq f (GIfte c t el) e st =
    match gseq f c e st with
    | None => None
    | Some [] => gseq f el e st
    | Some (h :: rest) => obind (fun a => gseq f t e a) (h :: rest)
    end.
  Proof. destruct f; reflexivity. Qed.
  Lemma gseq_once f g e st : gseq f (GOnce g) e st = None.
  Proof. destruct f; reflexivity. Qed.


  (* ---------- fuel monotonicity ---------- *)

  Lemma mono_goal f f' :
    (forall r args e st l, gseq f (GCall r args) e st = Some l -> gseq f' (GCall r args) e st = Some l) ->
    forall g e st l, gseq f g e st = Some l -> gseq f' g e st = Some l.
  Proof.
    intros Hcall.
    induction g as [ | | t1 t2 | g1 g2 IH1 IH2 | g1 g2 IH1 IH2 | g1 IH1 | g1 IH1 | r args | args g1 IH1
                     | z gs IHgs | z gs IHgs | c t el IHc IHt IHel | g1 IH1 ] using goal_ind';
      intros e st l H.
    - rewrite gseq_fail in *. exact H.
    - rewrite gseq_succ in *. exact H.
    - rewrite gseq_eq in *. exact H.
    - rewrite gseq_conj in *. destruct (gseq f g1 e st) as [l1|] eqn:E1; [|discriminate].
      rewrite (IH1 _ _ _ E1). eapply obind_mono; [|exact H]. intros a la. apply IH2.
    - rewrite gseq_disj in *. destruct (gseq f g1 e st) as [l1|] eqn:E1; [|discriminate].
      destruct (gseq f g2 e st) as [l2|] eqn:E2; [|discriminate].
      rewrite (IH1 _ _ _ E1), (IH2 _ _ _ E2). exact H.
    - rewrite gseq_fresh in *. apply IH1. exact H.
    - rewrite gseq_zzz in *. apply IH1. exact H.
    - apply Hcall. exact H.
    - rewrite gseq_let in *. apply IH1. exact H.
    - revert st l H. induction IHgs as [|g1 rest Hg1 Hrest IHrest]; intros st l H.
      + rewrite gseq_conjplus_nil in *. exact H.
      + destruct rest as [|g2 rest].
        * rewrite gseq_conjplus_one in *. apply Hg1. exact H.
        * rewrite gseq_conjplus_cons in *. destruct (gseq f g1 e st) as [l1|] eqn:E1; [|discriminate].
          rewrite (Hg1 _ _ _ E1). eapply obind_mono; [|exact H]. intros a la. apply IHrest.
    - revert l H. induction IHgs as [|g1 rest Hg1 Hrest IHrest]; intros l H.
      + rewrite gseq_disjplus_nil in *. exact H.
      + rewrite gseq_disjplus_cons in *. destruct (gseq f g1 e st) as [l1|] eqn:E1; [|discriminate].
        destruct (gseq f (GDisjPlus z rest) e st) as [lr|] eqn:Er; [|discriminate].
        rewrite (Hg1 _ _ _ E1), (IHrest _ eq_refl). exact H.
    - rewrite gseq_ifte in *. destruct (gseq f c e st) as [lc|] eqn:Ec; [|discriminate].
      rewrite (IHc _ _ _ Ec). destruct lc as [|h rest].
      + apply IHel. exact H.
      + eapply obind_mono; [|exact H]. intros a la. apply IHt.
    - rewrite gseq_once in H. discriminate.
  Qed.

  Theorem gseq_fuel_mono : forall f f' g e st l, f <= f' ->
    gseq f g e st = Some l -> gseq f' g e st = Some l.
  Proof.
    induction f as [|f IHf]; intros f' g e st l L; apply mono_goal.
    - intros r args e0 st0 l0 H. rewrite gseq_call_O in H. discriminate.
    - destruct f' as [|f']; [lia|]. intros r args e0 st0 l0 H. rewrite gseq_call_S in *.
      destruct (ds r) as [body|]; [|discriminate]. apply (IHf f'); [lia|exact H].
  Qed.

  (* ---------- the sequential order is one of the schedules ---------- *)

  Lemma obind_runs_each k g e : (forall a la, k a = Some la -> Runs g e a la) ->
    forall l1 l, obind k l1 = Some l -> exists ls, RunsEach g e l1 ls /\ concat ls = l.
  Proof.
    intros Hk. induction l1 as [|a tl IH]; simpl; intros l H.
    - inversion H; subst. exists []. split; [constructor|reflexivity].
    - destruct (k a) as [la|] eqn:Ea; [|discriminate].
      destruct (obind k tl) as [lr|] eqn:Er; [|discriminate]. inversion H; subst.
      destruct (IH lr eq_refl) as [ls [H1 H2]]. exists (la :: ls). split.
      + constructor; [apply Hk; exact Ea|exact H1].
      + simpl. rewrite H2. reflexivity.
  Qed.

  Lemma exists_goal f :
    (forall r args e st l, gseq f (GCall r args) e st = Some l -> Runs (GCall r args) e st l) ->
    forall g e st l, gseq f g e st = Some l -> Runs g e st l.
  Proof.
    intros Hcall.
    induction g as [ | | t1 t2 | g1 g2 IH1 IH2 | g1 g2 IH1 IH2 | g1 IH1 | g1 IH1 | r args | args g1 IH1
                     | z gs IHgs | z gs IHgs | c t el IHc IHt IHel | g1 IH1 ] using goal_ind';
      intros e st l H.
    - rewrite gseq_fail in H. inversion H; subst. constructor.
    - rewrite gseq_succ in H. inversion H; subst. constructor.
    - rewrite gseq_eq in H. destruct (unify_eq uf t1 t2 e st) as [| |s'] eqn:Eu; [discriminate| |];
        inversion H; subst.
      + apply R_eq_fail. exact Eu.
      + apply R_eq_ok. exact Eu.
    - rewrite gseq_conj in H. destruct (gseq f g1 e st) as [l1|] eqn:E1; [|discriminate].
      destruct (obind_runs_each _ g2 e (fun a la => IH2 e a la) _ _ H) as [ls [H1 H2]]. subst l.
      eapply R_conj; [apply IH1; exact E1|exact H1|apply Interleave_concat].
    - rewrite gseq_disj in H. destruct (gseq f g1 e st) as [l1|] eqn:E1; [|discriminate].
      destruct (gseq f g2 e st) as [l2|] eqn:E2; [|discriminate]. inversion H; subst.
      eapply R_disj; [apply IH1; exact E1|apply IH2; exact E2|apply Interleave2_app].
    - rewrite gseq_fresh in H. constructor. apply IH1. exact H.
    - rewrite gseq_zzz in H. constructor. apply IH1. exact H.
    - apply Hcall. exact H.
    - rewrite gseq_let in H. constructor. apply IH1. exact H.
    - revert st l H. induction IHgs as [|g1 rest Hg1 Hrest IHrest]; intros st l H.
      + rewrite gseq_conjplus_nil in H. inversion H; subst. constructor.
      + destruct rest as [|g2 rest].
        * rewrite gseq_conjplus_one in H. constructor. apply Hg1. exact H.
        * rewrite gseq_conjplus_cons in H. destruct (gseq f g1 e st) as [l1|] eqn:E1; [|discriminate].
          destruct (obind_runs_each _ (GConjPlus z (g2 :: rest)) e (fun a la => IHrest a la) _ _ H)
            as [ls [H1 H2]]. subst l.
          eapply R_conjplus_cons; [apply Hg1; exact E1|exact H1|apply Interleave_concat].
    - assert (HA: exists ls, RunsAll gs e st ls /\ concat ls = l).
      { revert l H. induction IHgs as [|g1 rest Hg1 Hrest IHrest]; intros l H.
        - rewrite gseq_disjplus_nil in H. inversion H; subst. exists []. split; [constructor|reflexivity].
        - rewrite gseq_disjplus_cons in H. destruct (gseq f g1 e st) as [l1|] eqn:E1; [|discriminate].
          destruct (gseq f (GDisjPlus z rest) e st) as [lr|] eqn:Er; [|discriminate]. inversion H; subst.
          destruct (IHrest lr eq_refl) as [ls [H1 H2]]. exists (l1 :: ls). split.
          + constructor; [apply Hg1; exact E1|exact H1].
          + simpl. rewrite H2. reflexivity. }
      destruct HA as [ls [H1 H2]]. subst l. eapply R_disjplus; [exact H1|apply Interleave_concat].
    - rewrite gseq_ifte in H. destruct (gseq f c e st) as [lc|] eqn:Ec; [|discriminate].
      destruct lc as [|h rest].
      + apply R_ifte_else; [apply IHc; exact Ec|apply IHel; exact H].
      + destruct (obind_runs_each _ t e (fun a la => IHt e a la) _ _ H) as [ls [H1 H2]]. subst l.
        inversion H1; subst.
        eapply R_ifte_then; [apply IHc; exact Ec|eassumption|eassumption|apply Interleave_concat].
    - rewrite gseq_once in H. discriminate.
  Qed.

  Theorem runs_exists : forall f g e st l, gseq f g e st = Some l -> Runs g e st l.
  Proof.
    induction f as [|f IHf]; intros g e st l; apply exists_goal.
    - intros r args e0 st0 l0 H. rewrite gseq_call_O in H. discriminate.
    - intros r args e0 st0 l0 H. rewrite gseq_call_S in H.
      destruct (ds r) as [body|] eqn:Eb; [|discriminate].
      eapply R_call; [exact Eb|]. apply IHf. exact H.
  Qed.

  (* ---------- every schedule delivers a permutation of the sequential answer list ---------- *)

  Lemma runs_perm_mut :
    (forall g e st outs, Runs g e st outs -> forall f l, gseq f g e st = Some l -> Permutation outs l) /\
    (forall gs e st ls, RunsAll gs e st ls ->
       forall f z l, gseq f (GDisjPlus z gs) e st = Some l -> Permutation (concat ls) l) /\
    (forall g e sts ls, RunsEach g e sts ls ->
       forall f l, obind (fun a => gseq f g e a) sts = Some l -> Permutation (concat ls) l).
  Proof.
    apply Runs_mutind.
    - intros e st f l H. rewrite gseq_fail in H. inversion H; subst. constructor.
    - intros e st f l H. rewrite gseq_succ in H. inversion H; subst. apply Permutation_refl.
    - intros t1 t2 e st s' Eu f l H. rewrite gseq_eq, Eu in H. inversion H; subst. apply Permutation_refl.
    - intros t1 t2 e st Eu f l H. rewrite gseq_eq, Eu in H. inversion H; subst. constructor.
    - intros g1 g2 e st l1 l2 l _ IH1 _ IH2 HI f l' H. rewrite gseq_disj in H.
      destruct (gseq f g1 e st) as [a|] eqn:E1; [|discriminate].
      destruct (gseq f g2 e st) as [b|] eqn:E2; [|discriminate]. inversion H; subst.
      eapply Permutation_trans; [apply (Interleave2_perm _ _ _ HI)|].
      apply Permutation_app; [eapply IH1; eauto|eapply IH2; eauto].
    - intros z gs e st ls l _ IHA HI f l' H.
      eapply Permutation_trans; [apply (Interleave_perm _ _ HI)|]. eapply IHA. exact H.
    - intros g1 g2 e st l1 ls l _ IH1 _ IHE HI f l' H. rewrite gseq_conj in H.
      destruct (gseq f g1 e st) as [l1'|] eqn:E1; [|discriminate].
      destruct (obind_perm _ _ l1 _ H (Permutation_sym (IH1 _ _ E1))) as [r' [Hr' P]].
      eapply Permutation_trans; [apply (Interleave_perm _ _ HI)|].
      eapply Permutation_trans; [apply (IHE _ _ Hr')|apply Permutation_sym; exact P].
    - intros z e st f l H. rewrite gseq_conjplus_nil in H. inversion H; subst. apply Permutation_refl.
    - intros z g e st l _ IH f l' H. rewrite gseq_conjplus_one in H. eapply IH. exact H.
    - intros z g1 g2 rest e st l1 ls l _ IH1 _ IHE HI f l' H. rewrite gseq_conjplus_cons in H.
      destruct (gseq f g1 e st) as [l1'|] eqn:E1; [|discriminate].
      destruct (obind_perm _ _ l1 _ H (Permutation_sym (IH1 _ _ E1))) as [r' [Hr' P]].
      eapply Permutation_trans; [apply (Interleave_perm _ _ HI)|].
      eapply Permutation_trans; [apply (IHE _ _ Hr')|apply Permutation_sym; exact P].
    - intros g e st l _ IH f l' H. rewrite gseq_fresh in H. eapply IH. exact H.
    - intros g e st l _ IH f l' H. rewrite gseq_zzz in H. eapply IH. exact H.
    - intros args g e st l _ IH f l' H. rewrite gseq_let in H. eapply IH. exact H.
    - intros r args body e st l Eb _ IH f l' H. destruct f as [|f].
      + rewrite gseq_call_O in H. discriminate.
      + rewrite gseq_call_S, Eb in H. eapply IH. exact H.
    - intros c t el e st l _ IHc _ IHel f l' H. rewrite gseq_ifte in H.
      destruct (gseq f c e st) as [lc|] eqn:Ec; [|discriminate].
      pose proof (IHc _ _ Ec) as Pc. apply Permutation_nil in Pc. subst lc. eapply IHel. exact H.
    - intros c t el e st h rest lh ls l _ IHc _ IHt _ IHE HI f l' H. rewrite gseq_ifte in H.
      destruct (gseq f c e st) as [lc|] eqn:Ec; [|discriminate].
      pose proof (IHc _ _ Ec) as Pc.
      assert (H' : obind (fun a => gseq f t e a) lc = Some l').
      { destruct lc as [|h' rest']; [|exact H]. apply Permutation_sym, Permutation_nil in Pc. discriminate. }
      destruct (obind_perm _ _ (h :: rest) _ H' (Permutation_sym Pc)) as [r' [Hr' P]].
      simpl in Hr'. destruct (gseq f t e h) as [la|] eqn:Ea; [|discriminate].
      destruct (obind (fun a => gseq f t e a) rest) as [lr|] eqn:Er; [|discriminate]. inversion Hr'; subst r'.
      eapply Permutation_trans; [apply (Interleave_perm _ _ HI)|]. simpl.
      eapply Permutation_trans; [|apply Permutation_sym; exact P].
      apply Permutation_app; [eapply IHt; eauto|eapply IHE; eauto].
    - intros e st f z l H. rewrite gseq_disjplus_nil in H. inversion H; subst. constructor.
    - intros g gs e st l ls _ IH _ IHA f z l' H. rewrite gseq_disjplus_cons in H.
      destruct (gseq f g e st) as [a|] eqn:E1; [|discriminate].
      destruct (gseq f (GDisjPlus z gs) e st) as [b|] eqn:E2; [|discriminate]. inversion H; subst.
      simpl. apply Permutation_app; [eapply IH; eauto|eapply IHA; eauto].
    - intros g e f l H. simpl in H. inversion H; subst. constructor.
    - intros g e a tl la ll _ IH _ IHE f l H. simpl in H.
      destruct (gseq f g e a) as [la'|] eqn:Ea; [|discriminate].
      destruct (obind (fun a => gseq f g e a) tl) as [lr|] eqn:Er; [|discriminate]. inversion H; subst.
      simpl. apply Permutation_app; [eapply IH; eauto|eapply IHE; eauto].
  Qed.

  Theorem runs_perm : forall g e st outs, Runs g e st outs ->
    forall f l, gseq f g e st = Some l -> Permutation outs l.
  Proof. exact (proj1 runs_perm_mut). Qed.

  (* two schedules of the same goal deliver the same multiset, whenever the search is finite within some call depth *)
  Corollary runs_perm_runs : forall g e st o1 o2 f l, gseq f g e st = Some l ->
    Runs g e st o1 -> Runs g e st o2 -> Permutation o1 o2.
  Proof.
    intros g e st o1 o2 f l H H1 H2.
    eapply Permutation_trans; [eapply runs_perm; eauto|apply Permutation_sym; eapply runs_perm; eauto].
  Qed.


  (* ---------- agreement with the micro stream search (relational programs) ---------- *)

  Lemma bind_stream_perm (k : state -> option (list state)) (K : state -> stream) l1 l ls ll l' :
    obind k l1 = Some l -> Permutation l1 ls ->
    Forall2 (fun a la => Ans (K a) la) ls ll -> Permutation l' (concat ll) ->
    (forall a la la', k a = Some la -> Ans (K a) la' -> Permutation la la') ->
    Permutation l l'.
  Proof.
    intros H P F P' Hk. destruct (obind_some _ _ _ H) as [Ht ->].
    eapply Permutation_trans; [apply Permutation_flat_map; exact P|].
    eapply Permutation_trans; [|apply Permutation_sym; exact P'].
    assert (Ht' : forall a, In a ls -> exists la, k a = Some la).
    { intros a Ha. apply Ht. eapply Permutation_in; [apply Permutation_sym; exact P|exact Ha]. }
    clear - F Ht' Hk. induction F as [|a la ls ll Ha F IH]; simpl; [constructor|].
    apply Permutation_app.
    - destruct (Ht' a (or_introl eq_refl)) as [la0 Ea]. unfold ktot. rewrite Ea. eapply Hk; eauto.
    - apply IH. intros b Hb. apply Ht'. right; exact Hb.
  Qed.

  Lemma disjplus_ans_inv z gs e st l : Ans (eval (GDisjPlus z gs) e st) l ->
    exists ll, Forall2 (fun g la => Ans (eval g e st) la) gs ll /\ Permutation l (concat ll).
  Proof.
    destruct z.
    - apply disj_z_ans_inv.
    - rewrite disj_nozzz_eq. apply nest_disj_ans_inv.
  Qed.

  Lemma stream_goal f :
    (forall r args e st l l', gseq f (GCall r args) e st = Some l ->
       Ans (eval (GCall r args) e st) l' -> Permutation l l') ->
    forall g, relational g = true -> forall e st l l',
      gseq f g e st = Some l -> Ans (eval g e st) l' -> Permutation l l'.
  Proof.
    intros Hcall.
    induction g as [ | | t1 t2 | g1 g2 IH1 IH2 | g1 g2 IH1 IH2 | g1 IH1 | g1 IH1 | r args | args g1 IH1
                     | z gs IHgs | z gs IHgs | c t el IHc IHt IHel | g1 IH1 ] using goal_ind';
      intros Hrel e st l l' H HA.
    - rewrite gseq_fail in H. inversion H; subst. simpl in HA. inversion HA; subst. constructor.
    - rewrite gseq_succ in H. inversion H; subst. simpl in HA. inversion HA; subst.
      match goal with H0 : Ans SNil _ |- _ => inversion H0; subst end. apply Permutation_refl.
    - rewrite gseq_eq in H.
      change (eval (GEq t1 t2) e st) with
        (match unify_eq uf t1 t2 e st with
         | Ok s' => SCons (mkSt s' (ctr st)) SNil | Fail => SNil | OOF => SErr end) in HA.
      destruct (unify_eq uf t1 t2 e st) as [| |s']; [discriminate| |]; inversion H; subst; inversion HA; subst.
      + constructor.
      + match goal with H0 : Ans SNil _ |- _ => inversion H0; subst end. apply Permutation_refl.
    - simpl in Hrel. apply andb_true_iff in Hrel. destruct Hrel as [R1 R2].
      rewrite gseq_conj in H. destruct (gseq f g1 e st) as [l1|] eqn:E1; [|discriminate].
      change (eval (GConj g1 g2) e st) with
        (bindk (fun a => eval g2 e a) (fun th => TBind th g2 e) (eval g1 e st)) in HA.
      apply Ans_bindk_inv in HA; [|intros th; reflexivity]. destruct HA as [ls [ll [Hs [F P]]]].
      eapply (bind_stream_perm _ (fun a => eval g2 e a)); [exact H|apply (IH1 R1 _ _ _ _ E1 Hs)|exact F|exact P|].
      intros a la la' Ha Ha'. apply (IH2 R2 _ _ _ _ Ha Ha').
    - simpl in Hrel. apply andb_true_iff in Hrel. destruct Hrel as [R1 R2].
      rewrite gseq_disj in H. destruct (gseq f g1 e st) as [l1|] eqn:E1; [|discriminate].
      destruct (gseq f g2 e st) as [l2|] eqn:E2; [|discriminate]. inversion H; subst.
      change (eval (GDisj g1 g2) e st) with (mplus (eval g1 e st) (eval g2 e st)) in HA.
      apply Ans_mplus_inv in HA. destruct HA as [la [lb [Ha [Hb P]]]].
      eapply Permutation_trans; [|apply Permutation_sym; exact P].
      apply Permutation_app; [apply (IH1 R1 _ _ _ _ E1 Ha)|apply (IH2 R2 _ _ _ _ E2 Hb)].
    - simpl in Hrel. rewrite gseq_fresh in H. apply (IH1 Hrel _ _ _ _ H). exact HA.
    - simpl in Hrel. rewrite gseq_zzz in H. simpl in HA. inversion HA; subst.
      apply (IH1 Hrel _ _ _ _ H). assumption.
    - eapply Hcall; eauto.
    - simpl in Hrel. rewrite gseq_let in H. apply (IH1 Hrel _ _ _ _ H). exact HA.
    - simpl in Hrel. revert st l l' H HA.
      induction IHgs as [|g1 rest Hg1 Hrest IHrest]; intros st l l' H HA.
      + rewrite gseq_conjplus_nil in H. inversion H; subst.
        rewrite conj_empty in HA. inversion HA; subst.
        match goal with H0 : Ans SNil _ |- _ => inversion H0; subst end. apply Permutation_refl.
      + simpl in Hrel. apply andb_true_iff in Hrel. destruct Hrel as [R1 Rr].
        destruct rest as [|g2 rest].
        * rewrite gseq_conjplus_one in H. apply (Hg1 R1 _ _ _ _ H).
          destruct z.
          -- change (eval (GConjPlus true [g1]) e st) with (SSusp (TGoal g1 e st)) in HA.
             inversion HA; subst. assumption.
          -- rewrite eval_conjplus_one in HA. exact HA.
        * rewrite gseq_conjplus_cons in H. destruct (gseq f g1 e st) as [l1|] eqn:E1; [|discriminate].
          assert (HB : Ans (bindk (fun a => eval (GConjPlus z (g2 :: rest)) e a)
                                  (fun th => TBind th (GConjPlus z (g2 :: rest)) e) (eval g1 e st)) l').
          { destruct z.
            - rewrite eval_conjplus_z_cons in HA. inversion HA; subst.
              rewrite force_TBind_TGoal in *. assumption.
            - rewrite eval_conjplus_cons in HA. exact HA. }
          apply Ans_bindk_inv in HB; [|intros th; reflexivity]. destruct HB as [ls [ll [Hs [F P]]]].
          eapply (bind_stream_perm _ (fun a => eval (GConjPlus z (g2 :: rest)) e a));
            [exact H|apply (Hg1 R1 _ _ _ _ E1 Hs)|exact F|exact P|].
          intros a la la' Ha Ha'. apply (IHrest Rr _ _ _ Ha Ha').
    - simpl in Hrel. apply disjplus_ans_inv in HA. destruct HA as [ll [F P]].
      eapply Permutation_trans; [|apply Permutation_sym; exact P]. clear P l'.
      revert l H ll F. induction IHgs as [|g1 rest Hg1 Hrest IHrest]; intros l H ll F.
      + rewrite gseq_disjplus_nil in H. inversion H; subst. inversion F; subst. constructor.
      + simpl in Hrel. apply andb_true_iff in Hrel. destruct Hrel as [R1 Rr].
        rewrite gseq_disjplus_cons in H. destruct (gseq f g1 e st) as [l1|] eqn:E1; [|discriminate].
        destruct (gseq f (GDisjPlus z rest) e st) as [lr|] eqn:Er; [|discriminate]. inversion H; subst.
        inversion F as [|? la ? ll' Hg F']; subst. simpl.
        apply Permutation_app; [apply (Hg1 R1 _ _ _ _ E1 Hg)|apply (IHrest Rr _ eq_refl _ F')].
    - discriminate.
    - discriminate.
  Qed.

  Theorem gseq_stream_perm : defs_relational ds -> forall f g e st l, relational g = true ->
    gseq f g e st = Some l -> forall l', Ans (eval g e st) l' -> Permutation l l'.
  Proof.
    intros Hdr. induction f as [|f IHf]; intros g e st l Hrel H l' HA; eapply stream_goal; eauto.
    - intros r args e0 st0 l0 l0' H0 _. rewrite gseq_call_O in H0. discriminate.
    - intros r args e0 st0 l0 l0' H0 HA0. rewrite gseq_call_S in H0.
      change (eval (GCall r args) e0 st0) with
        (match ds r with Some body => evalh body (arg_env e0 args) st0 | None => SErr end) in HA0.
      destruct (ds r) as [body|] eqn:Eb; [|discriminate].
      destruct (guardedb body) eqn:Eg.
      + rewrite (evalh_guarded ds uf body Eg) in HA0.
        apply (IHf body _ _ _ (Hdr r body Eb) H0 _ HA0).
      + rewrite (evalh_unguarded body Eg) in HA0. inversion HA0.
  Qed.

  (* ---------- soundness of every partial run ---------- *)

  Lemma Good_map g g' e st x : (forall ve, Den ds g ve -> Den ds g' ve) -> Good ds g e st x -> Good ds g' e st x.
  Proof.
    intros Hd [He [Hl [Hw Hs]]]. split; [exact He|]. split; [exact Hl|]. split; [exact Hw|].
    intros r Hr. destruct (Hs r Hr) as [H1 H2]. split; [exact H1|auto].
  Qed.

  Lemma Good_seq g1 g2 g e st a x : (forall ve, Den ds g1 ve -> Den ds g2 ve -> Den ds g ve) ->
    Good ds g1 e st a -> Good ds g2 e a x -> Good ds g e st x.
  Proof.
    intros Hd [[e1 He1] [Hl1 [Hw1 Hs1]]] [[e2 He2] [Hl2 [Hw2 Hs2]]].
    split. { exists (e1 ++ e2). rewrite He2, He1, app_assoc. reflexivity. }
    split; [lia|]. split; [exact Hw2|].
    intros r Hr. destruct (Hs2 r Hr) as [Ha D2]. destruct (Hs1 r Ha) as [H0 D1]. split; [exact H0|auto].
  Qed.

  Lemma runsP_sound_mut :
    (forall g e st outs, RunsP g e st outs -> wf_state st -> env_ok e (ctr st) ->
       forall x, In x outs -> Good ds g e st x) /\
    (forall gs e st ls, RunsPAll gs e st ls -> wf_state st -> env_ok e (ctr st) ->
       forall l0 x, In l0 ls -> In x l0 -> exists g, In g gs /\ Good ds g e st x) /\
    (forall g e sts ls, RunsPEach g e sts ls ->
       forall l0 x, In l0 ls -> In x l0 ->
       exists a, In a sts /\ (wf_state a -> env_ok e (ctr a) -> Good ds g e a x)).
  Proof.
    apply RunsP_mutind.
    - (* stop *) intros g e st _ _ x [].
    - (* succ *) intros e st Hwf He x [Hx|[]]. subst x. apply Good_refl; [exact Hwf|]. intros r _. apply DSucc.
    - (* eq *) intros t1 t2 e st s' Eu Hwf He x [Hx|[]]. subst x. apply (Good_eq ds uf); assumption.
    - (* disj2 *) intros g1 g2 e st l1 l2 l _ IH1 _ IH2 HI Hwf He x Hx.
      destruct (Interleave2_in _ _ _ _ HI Hx) as [H|H].
      + eapply Good_map; [|apply (IH1 Hwf He x H)]. intros ve. apply DDisjL.
      + eapply Good_map; [|apply (IH2 Hwf He x H)]. intros ve. apply DDisjR.
    - (* DisjO *) intros z gs e st ls l _ IHA HI Hwf He x Hx.
      destruct (Interleave_in _ _ _ HI Hx) as [l0 [H0 H1]].
      destruct (IHA Hwf He l0 x H0 H1) as [g [Hg HG]].
      eapply Good_map; [|exact HG]. intros ve Hd. eapply DDisjPlus; eauto.
    - (* conj2 *) intros g1 g2 e st l1 ls l _ IH1 _ IHE HI Hwf He x Hx.
      destruct (Interleave_in _ _ _ HI Hx) as [l0 [H0 H1]].
      destruct (IHE l0 x H0 H1) as [a [Ha HG]].
      pose proof (IH1 Hwf He a Ha) as HG1.
      eapply Good_seq; [|exact HG1|apply HG; [eapply Good_wf; eauto|eapply Good_env_ok; eauto]].
      intros ve. apply DConj.
    - (* ConjO() *) intros z e st Hwf He x [Hx|[]]. subst x. apply Good_refl; [exact Hwf|].
      intros r _. apply DConjPlus. apply DAnil.
    - (* ConjO(g) *) intros z g e st l _ IH Hwf He x Hx.
      eapply Good_map; [|apply (IH Hwf He x Hx)]. intros ve. apply Den_conjplus_one.
    - (* ConjO(g1, g2...) *) intros z g1 g2 rest e st l1 ls l _ IH1 _ IHE HI Hwf He x Hx.
      destruct (Interleave_in _ _ _ HI Hx) as [l0 [H0 H1]].
      destruct (IHE l0 x H0 H1) as [a [Ha HG]].
      pose proof (IH1 Hwf He a Ha) as HG1.
      eapply Good_seq; [|exact HG1|apply HG; [eapply Good_wf; eauto|eapply Good_env_ok; eauto]].
      intros ve. apply Den_conjplus_cons.
    - (* ExistO *) intros g e st l _ IH Hwf He x Hx.
      apply (GoodO_fresh ds uf g e st (Some x)). simpl.
      apply IH; [apply wf_state_fresh; exact Hwf|apply env_ok_fresh; exact He|exact Hx].
    - (* zzz *) intros g e st l _ IH Hwf He x Hx.
      eapply Good_map; [|apply (IH Hwf He x Hx)]. intros ve. apply DZzz.
    - (* let *) intros args g e st l _ IH Hwf He x Hx.
      apply (GoodO_let ds uf args g e st (Some x)). simpl.
      apply IH; [exact Hwf|apply env_ok_arg_env; exact He|exact Hx].
    - (* call *) intros r args body e st l Eb _ IH Hwf He x Hx.
      apply (GoodO_call ds uf r args body e st (Some x) Eb). simpl.
      apply IH; [exact Hwf|apply env_ok_arg_env; exact He|exact Hx].
    - (* ifte else *) intros c t el e st l _ _ IH Hwf He x Hx.
      eapply Good_map; [|apply (IH Hwf He x Hx)]. intros ve. apply DIfteElse.
    - (* ifte then *) intros c t el e st h rest lh ls l _ IHc _ IHt _ IHE HI Hwf He x Hx.
      destruct (Interleave_in _ _ _ HI Hx) as [l0 [[H0|H0] H1]].
      + subst l0. pose proof (IHc Hwf He h (or_introl eq_refl)) as HG1.
        eapply Good_seq; [|exact HG1|apply IHt; [eapply Good_wf; eauto|eapply Good_env_ok; eauto|exact H1]].
        intros ve. apply DIfteThen.
      + destruct (IHE l0 x H0 H1) as [a [Ha HG]].
        pose proof (IHc Hwf He a (or_intror Ha)) as HG1.
        eapply Good_seq; [|exact HG1|apply HG; [eapply Good_wf; eauto|eapply Good_env_ok; eauto]].
        intros ve. apply DIfteThen.
    - intros e st _ _ l0 x [].
    - intros g gs e st l ls _ IH _ IHA Hwf He l0 x [H0|H0] H1.
      + subst l0. exists g. split; [left; reflexivity|apply IH; assumption].
      + destruct (IHA Hwf He l0 x H0 H1) as [g' [Hg HG]]. exists g'. split; [right; exact Hg|exact HG].
    - intros g e l0 x [].
    - intros g e a tl la ll _ IH _ IHE l0 x [H0|H0] H1.
      + subst l0. exists a. split; [left; reflexivity|]. intros Hwf He. apply IH; assumption.
      + destruct (IHE l0 x H0 H1) as [a' [Ha HG]]. exists a'. split; [right; exact Ha|exact HG].
  Qed.

  (* every state delivered by any partial run, under any schedule, extends the input state, is consistent, and every
     valuation solving it makes the goal's formula true: the soundness conclusion of eval_sound *)
  Theorem runs_prefix_sound : forall g e st outs, RunsP g e st outs ->
    wf_state st -> env_ok e (ctr st) -> forall x, In x outs ->
    (exists ext, sub x = sub st ++ ext) /\ (ctr st <= ctr x)%N /\ wf_state x /\
    forall r, sat r (sub x) -> sat r (sub st) /\ Den ds g (map (inst r) e).
  Proof. exact (proj1 runsP_sound_mut). Qed.

  (* complete runs are partial runs *)
  Lemma Runs_RunsP_mut :
    (forall g e st l, Runs g e st l -> RunsP g e st l) /\
    (forall gs e st ls, RunsAll gs e st ls -> RunsPAll gs e st ls) /\
    (forall g e sts ls, RunsEach g e sts ls -> RunsPEach g e sts ls).
  Proof.
    apply Runs_mutind; intros; try (econstructor; eassumption).
  Qed.

  Theorem Runs_RunsP : forall g e st l, Runs g e st l -> RunsP g e st l.
  Proof. exact (proj1 Runs_RunsP_mut). Qed.

  Corollary runs_sound : forall g e st outs, Runs g e st outs ->
    wf_state st -> env_ok e (ctr st) -> forall x, In x outs ->
    (exists ext, sub x = sub st ++ ext) /\ (ctr st <= ctr x)%N /\ wf_state x /\
    forall r, sat r (sub x) -> sat r (sub st) /\ Den ds g (map (inst r) e).
  Proof. intros g e st outs H. apply runs_prefix_sound. apply Runs_RunsP. exact H. Qed.

End Spec.

Print Assumptions gseq_fuel_mono.
Print Assumptions runs_exists.
Print Assumptions runs_perm.
Print Assumptions gseq_stream_perm.
Print Assumptions runs_prefix_sound.
Print Assumptions Runs_RunsP.

(* ====================================================================================================
   The protocol kernel of one DisjO node (ChanKernel.v): safety over all schedules, progress, delivery.
   ==================================================================================================== *)
From GMK Require Import ChanKernel.

Lemma count_run_app ks m : count_run (ks ++ [KRun m]) = S (count_run ks).
Proof. unfold count_run. rewrite filter_app, app_length. simpl. lia. Qed.

Lemma remaining_app ks m : remaining (ks ++ [KRun m]) = remaining ks + m.
Proof. induction ks as [|[n|] ks IH]; simpl; [lia| |]; rewrite ?IH; lia. Qed.

Lemma count_run_set_run ks : forall j m n, nth_error ks j = Some (KRun m) ->
  count_run (set_nth ks j (KRun n)) = count_run ks.
Proof.
  induction ks as [|k ks IH]; intros [|j] m n H; simpl in H; try discriminate.
  - inversion H; subst. reflexivity.
  - unfold count_run in *. simpl. destruct k; simpl; rewrite (IH j m n H); reflexivity.
Qed.

Lemma count_run_set_done ks : forall j m, nth_error ks j = Some (KRun m) ->
  S (count_run (set_nth ks j KDone)) = count_run ks.
Proof.
  induction ks as [|k ks IH]; intros [|j] m H; simpl in H; try discriminate.
  - inversion H; subst. reflexivity.
  - unfold count_run in *. simpl. destruct k; simpl; rewrite <- (IH j m H); reflexivity.
Qed.

Lemma remaining_set_send ks : forall j n, nth_error ks j = Some (KRun (S n)) ->
  S (remaining (set_nth ks j (KRun n))) = remaining ks.
Proof.
  induction ks as [|k ks IH]; intros [|j] n H; simpl in H; try discriminate.
  - inversion H; subst. simpl. reflexivity.
  - simpl. destruct k; rewrite <- (IH j n H); lia.
Qed.

Lemma remaining_set_done ks : forall j, nth_error ks j = Some (KRun 0) ->
  remaining (set_nth ks j KDone) = remaining ks.
Proof.
  induction ks as [|k ks IH]; intros [|j] H; simpl in H; try discriminate.
  - inversion H; subst. simpl. reflexivity.
  - simpl. destruct k; rewrite (IH j H); reflexivity.
Qed.

Lemma count_run_pos ks j m : nth_error ks j = Some (KRun m) -> 1 <= count_run ks.
Proof.
  revert j. induction ks as [|k ks IH]; intros [|j] H; simpl in H; try discriminate.
  - inversion H; subst. unfold count_run. simpl. lia.
  - unfold count_run in *. simpl. destruct k; simpl; specialize (IH j H); lia.
Qed.

Lemma count_run_zero ks : count_run ks = 0 -> Forall (fun k => k = KDone) ks /\ remaining ks = 0.
Proof.
  induction ks as [|k ks IH]; intros H; [split; [constructor|reflexivity]|].
  unfold count_run in *. destruct k; simpl in H; [discriminate|].
  destruct (IH H) as [F R]. split; [constructor; [reflexivity|exact F]|exact R].
Qed.

Lemma count_run_witness ks : 1 <= count_run ks -> exists j m, nth_error ks j = Some (KRun m).
Proof.
  induction ks as [|k ks IH]; intros H; [unfold count_run in H; simpl in H; lia|].
  destruct k as [m|].
  - exists 0, m. reflexivity.
  - unfold count_run in *. simpl in H. destruct (IH H) as [j [m Hj]]. exists (S j), m. exact Hj.
Qed.

Record KInv (ms : list nat) (s : kst) : Prop := mkKInv {
  ki_bad : bad s = false;
  ki_wg : wg s = (Z.of_nat (count_run (kids s)) + (if added s then 1 else 0))%Z;
  ki_closed : closed s = cdone s;
  ki_closed_ret : closed s = true -> pc s = PRet;
  ki_ret : pc s = PRet -> count_run (kids s) = 0 /\ todo s = [] /\ added s = false;
  ki_wait : pc s = PWait -> todo s = [] /\ added s = false;
  ki_added : added s = true -> pc s = PLoop /\ todo s <> [];
  ki_sum : delivered s + total (todo s) + remaining (kids s) = total ms
}.

Lemma kinv_init ms : KInv ms (kinit ms).
Proof.
  constructor; simpl; try reflexivity; try discriminate; try lia.
Qed.

Lemma kinv_step ms s l s' : KInv ms s -> kstep s l = Some s' -> KInv ms s'.
Proof.
  intros [Ib Iw Ic Icr Ir Iwt Ia Is] H. destruct l as [| | | |j|j|]; simpl in H.
  - (* Add *)
    destruct (pc s) eqn:Ep; try discriminate. destruct (todo s) as [|m r] eqn:Et; try discriminate.
    destruct (added s) eqn:Ea; try discriminate. inversion H; subst; clear H. simpl in Iw.
    apply mkKInv; simpl.
    + exact Ib.
    + rewrite Iw. lia.
    + exact Ic.
    + exact Icr.
    + discriminate.
    + discriminate.
    + intros _. split; [reflexivity|discriminate].
    + exact Is.
  - (* Go *)
    destruct (pc s) eqn:Ep; try discriminate. destruct (todo s) as [|m r] eqn:Et; try discriminate.
    destruct (added s) eqn:Ea; try discriminate. inversion H; subst; clear H. simpl in Iw.
    change (total (m :: r)) with (m + total r) in Is.
    apply mkKInv; simpl.
    + exact Ib.
    + rewrite Iw, count_run_app. lia.
    + exact Ic.
    + exact Icr.
    + discriminate.
    + discriminate.
    + discriminate.
    + rewrite remaining_app. lia.
  - (* LoopEnd *)
    destruct (pc s) eqn:Ep; try discriminate. destruct (todo s) as [|m r] eqn:Et; try discriminate.
    inversion H; subst; clear H.
    assert (Ea : added s = false).
    { destruct (added s) eqn:Ea; [|reflexivity]. destruct (Ia eq_refl) as [_ N]. congruence. }
    apply mkKInv; simpl.
    + exact Ib.
    + exact Iw.
    + exact Ic.
    + intros Hc. specialize (Icr Hc). discriminate.
    + discriminate.
    + intros _. split; [reflexivity|exact Ea].
    + rewrite Ea. discriminate.
    + exact Is.
  - (* Wait *)
    destruct (pc s) eqn:Ep; try discriminate. destruct (Z.eqb_spec (wg s) 0) as [E0|]; [|discriminate].
    inversion H; subst; clear H. destruct (Iwt eq_refl) as [Et Ea].
    apply mkKInv; simpl.
    + exact Ib.
    + exact Iw.
    + exact Ic.
    + intros _. reflexivity.
    + intros _. rewrite Iw, Ea in E0. split; [lia|]. split; [exact Et|exact Ea].
    + discriminate.
    + rewrite Ea. discriminate.
    + exact Is.
  - (* Send *)
    destruct (nth_error (kids s) j) as [[[|n]|]|] eqn:En; try discriminate. inversion H; subst; clear H.
    pose proof (count_run_pos _ _ _ En) as Hpos.
    assert (Ecl : closed s = false).
    { destruct (closed s) eqn:Ecl; [|reflexivity]. destruct (Ir (Icr eq_refl)) as [Z0 _]. lia. }
    apply mkKInv; simpl.
    + rewrite Ib, Ecl. reflexivity.
    + rewrite (count_run_set_run _ _ _ n En). exact Iw.
    + exact Ic.
    + exact Icr.
    + intros Hp. destruct (Ir Hp) as [Z0 _]. lia.
    + exact Iwt.
    + exact Ia.
    + rewrite Ecl. rewrite <- (remaining_set_send _ _ _ En) in Is. lia.
  - (* Done *)
    destruct (nth_error (kids s) j) as [[[|n]|]|] eqn:En; try discriminate. inversion H; subst; clear H.
    pose proof (count_run_pos _ _ _ En) as Hpos. pose proof (count_run_set_done _ _ _ En) as Hc.
    apply mkKInv; simpl.
    + rewrite Ib. simpl. apply Z.ltb_ge. rewrite Iw. destruct (added s); lia.
    + rewrite Iw. rewrite <- Hc. lia.
    + exact Ic.
    + exact Icr.
    + intros Hp. destruct (Ir Hp) as [Z0 _]. lia.
    + exact Iwt.
    + exact Ia.
    + rewrite (remaining_set_done _ _ En). exact Is.
  - (* Close *)
    destruct (pc s) eqn:Ep; try discriminate. destruct (cdone s) eqn:Ed; [discriminate|].
    inversion H; subst; clear H.
    apply mkKInv; simpl.
    + rewrite Ib, Ic. reflexivity.
    + exact Iw.
    + reflexivity.
    + intros _. reflexivity.
    + exact Ir.
    + discriminate.
    + exact Ia.
    + exact Is.
Qed.

Theorem kernel_inv : forall ms ls s, krun (kinit ms) ls = Some s -> KInv ms s.
Proof.
  intros ms ls. assert (G : forall s0 s, KInv ms s0 -> krun s0 ls = Some s -> KInv ms s).
  { induction ls as [|l r IH]; intros s0 s I H; simpl in H.
    - inversion H; subst. exact I.
    - destruct (kstep s0 l) as [s1|] eqn:E; [|discriminate]. eapply IH; [eapply kinv_step; eauto|exact H]. }
  intros s. apply G. apply kinv_init.
Qed.

(* safety, under every schedule: no panic (no send on a closed channel, no double close, no negative counter); the
   counter is the number of running children (plus one between Add and go); the channel is closed only by the creator,
   only after the goal returned, i.e. after every writer has returned - and then every answer has been delivered *)
Theorem kernel_safe : forall ms ls s, krun (kinit ms) ls = Some s ->
  bad s = false /\ (0 <= wg s)%Z /\
  (pc s = PRet -> Forall (fun k => k = KDone) (kids s) /\ todo s = []) /\
  (closed s = true -> pc s = PRet /\ Forall (fun k => k = KDone) (kids s) /\ todo s = [] /\
                      delivered s = total ms).
Proof.
  intros ms ls s H. destruct (kernel_inv _ _ _ H) as [Ib Iw Ic Icr Ir Iwt Ia Is].
  split; [exact Ib|]. split; [rewrite Iw; destruct (added s); lia|]. split.
  - intros Hp. destruct (Ir Hp) as [Z0 [Et _]]. split; [apply (count_run_zero _ Z0)|exact Et].
  - intros Hc. pose proof (Icr Hc) as Hp. destruct (Ir Hp) as [Z0 [Et _]].
    destruct (count_run_zero _ Z0) as [F R]. split; [exact Hp|]. split; [exact F|]. split; [exact Et|].
    rewrite Et, R in Is. simpl in Is. lia.
Qed.

(* progress: as long as the channel is not closed some step is enabled, whatever the schedule did so far; hence every
   maximal schedule ends with the channel closed and all answers delivered *)
Theorem kernel_progress : forall ms ls s, krun (kinit ms) ls = Some s -> closed s = false ->
  exists l s', kstep s l = Some s'.
Proof.
  intros ms ls s H Hc. destruct (kernel_inv _ _ _ H) as [Ib Iw Ic Icr Ir Iwt Ia Is].
  destruct (pc s) eqn:Ep.
  - destruct (todo s) as [|m r] eqn:Et.
    + exists LLoopEnd. simpl. rewrite Ep, Et. eauto.
    + destruct (added s) eqn:Ea.
      * exists LGo. simpl. rewrite Ep, Et, Ea. eauto.
      * exists LAdd. simpl. rewrite Ep, Et, Ea. eauto.
  - destruct (Z.eqb_spec (wg s) 0) as [E0|N0].
    + exists LWait. simpl. rewrite Ep. destruct (Z.eqb_spec (wg s) 0); [eauto|contradiction].
    + destruct (Iwt eq_refl) as [_ Ea]. rewrite Ea in Iw.
      destruct (count_run_witness (kids s)) as [j [m Hj]]; [lia|].
      destruct m as [|n].
      * exists (LDone j). simpl. rewrite Hj. eauto.
      * exists (LSend j). simpl. rewrite Hj. eauto.
  - exists LClose. simpl. rewrite Ep. rewrite <- Ic, Hc. eauto.
Qed.

(* Add inside the new goroutine instead of before `go`: one child, the parent's Wait returns before the child runs,
   the creator closes, the child sends on the closed channel *)
Theorem kernel_refuted_add_in_child : exists s,
  krun_add_in_child (kinit [1]) [LGo; LLoopEnd; LWait; LClose; LSend 0] = Some s /\ bad s = true.
Proof. eexists. split; reflexivity. Qed.

(* non-vacuity: a complete schedule of two children with 2 and 1 answers *)
Lemma kernel_example : exists s,
  krun (kinit [2; 1]) [LAdd; LGo; LSend 0; LAdd; LGo; LLoopEnd; LSend 1; LDone 1; LSend 0; LDone 0; LWait; LClose] = Some s /\
  closed s = true /\ delivered s = 3 /\ bad s = false /\ wg s = 0%Z.
Proof. eexists. split; [vm_compute; reflexivity|]. vm_compute. auto. Qed.

Print Assumptions kernel_safe.
Print Assumptions kernel_progress.
Print Assumptions kernel_refuted_add_in_child.
