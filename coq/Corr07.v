(* Correspondence for C07: histories of the real operations (micro exts through the hook, gomini NewState / Set / NewVar)
   against the memory model MemModel.v with the code's implementations (impl_code).  The observation is the view
   through EVERY published value after the whole history. Executable, evaluated with vm_compute. *)
From Coq Require Import List NArith ZArith Bool.
From GMK Require Import Term MemModel CorrBase.
Import ListNotations.

Inductive case07 :=
| C07Hist (ops : list op) (sl : list (list (option cell))) (gs : list (list (N * term) * list N))
| C07Skip.

Definition cell_eqb (a b : cell) : bool := N.eqb (fst a) (fst b) && term_eqb (snd a) (snd b).

(* maps are compared as key-sorted association lists *)
Fixpoint insert_kv (p : N * term) (l : list (N * term)) : list (N * term) :=
  match l with
  | [] => [p]
  | q :: r => if N.leb (fst p) (fst q) then p :: l else q :: insert_kv p r
  end.
Definition sort_kv (l : list (N * term)) : list (N * term) := fold_right insert_kv [] l.

Definition gview_eqb (m : list (N * term) * list (N * term)) (i : list (N * term) * list N) : bool :=
  list_eqb cell_eqb (sort_kv (fst m)) (fst i) && list_eqb N.eqb (map fst (sort_kv (snd m))) (snd i).

Fixpoint all2 {A B} (f : A -> B -> bool) (x : list A) (y : list B) : bool :=
  match x, y with
  | [], [] => true
  | a :: x', b :: y' => f a b && all2 f x' y'
  | _, _ => false
  end.

Definition check07 (c : case07) : bool :=
  match c with
  | C07Skip => true
  | C07Hist ops sl gs =>
    match run impl_code empty_world ops with
    | Some (w, _) =>
      list_eqb (list_eqb (opt_eqb cell_eqb)) (map (view_slice (hp w)) (slices w)) sl
      && all2 gview_eqb (map (view_gstate (hp w)) (gstates w)) gs
    | None => false
    end
  end.
