(* Completeness of the interleaving search for relational goals of programs with delayed recursion:
   every solution of the formula is an instance of an answer that occurs at a finite position of the stream. *)
From Coq Require Import List NArith ZArith Bool Lia Arith.
From GMK Require Import Term Unify UnifySpec UnifyWf UnifyTotal Goal Stream Den InStream Sound.
Import ListNotations.

(* ---------- valuations that agree on the relevant variables ---------- *)

Lemma inst_ext (r r' : val) t : (forall y, In y (vars t) -> r' y = r y) -> inst r' t = inst r t.
Proof.
  induction t as [| a | x | a IHa d IHd]; simpl; intros H; auto.
  - f_equal; [apply IHa|apply IHd]; intros y Hy; apply H; apply in_or_app; auto.
Qed.

Lemma sat_ext (r r' : val) s : (forall y, In y (subst_vars s) -> r' y = r y) -> sat r s -> sat r' s.
Proof.
  intros H Hs x t Hin.
  assert (Hx: In x (subst_vars s)).
  { unfold subst_vars. apply in_flat_map. exists (x, t). split; [exact Hin|left; reflexivity]. }
  rewrite (H x Hx). rewrite (Hs x t Hin). symmetry. apply inst_ext. intros y Hy. apply H.
  unfold subst_vars. apply in_flat_map. exists (x, t). split; [exact Hin|right; exact Hy].
Qed.

Lemma map_inst_ext (r r' : val) e c : env_ok e c -> (forall y, (y < c)%N -> r' y = r y) ->
  map (inst r') e = map (inst r) e.
Proof.
  intros He H. apply map_ext_in. intros t Ht. apply inst_ext. intros y Hy. apply H. eapply He; eauto.
Qed.

Section Complete.
  Variable ds : defs.
  Variable uf : term -> term -> subst -> nat.
  Hypothesis Hu : uf_ok uf.
  Hypothesis Hdf : defs_ok ds.
  Hypothesis Hrl : defs_relational ds.

  Notation eval := (eval ds uf).
  Notation force := (force ds uf).
  Notation InS := (InStream ds uf).
  Notation RErr := (ReachErr ds uf).

  Definition Compl (g : goal) (ve : list term) : Prop :=
    forall e st r, ve = map (inst r) e -> relational g = true -> calls_okb ds g = true ->
      wf_state st -> env_ok e (ctr st) -> sat r (sub st) ->
      exists x r', InS x (eval g e st) /\ sat r' (sub x) /\ (forall y, (y < ctr st)%N -> r' y = r y).

  Definition ComplAll (gs : list goal) (ve : list term) : Prop := forall z, Compl (GConjPlus z gs) ve.

  Lemma no_err g e st : calls_okb ds g = true -> wf_state st -> env_ok e (ctr st) -> ~ RErr (eval g e st).
  Proof. intros. apply eval_no_err; assumption. Qed.

  (* two goals in sequence: an answer of the first, then an answer of the second started there *)
  Lemma compl_chain g1 g2 ve : Compl g1 ve -> Compl g2 ve ->
    forall e st r, ve = map (inst r) e ->
      relational g1 = true -> relational g2 = true -> calls_okb ds g1 = true -> calls_okb ds g2 = true ->
      wf_state st -> env_ok e (ctr st) -> sat r (sub st) ->
      exists x1 x r', InS x1 (eval g1 e st) /\ InS x (eval g2 e x1) /\ sat r' (sub x) /\
                      (forall y, (y < ctr st)%N -> r' y = r y).
  Proof.
    intros C1 C2 e st r Eve R1 R2 K1 K2 Hwf He Hs.
    destruct (C1 e st r Eve R1 K1 Hwf He Hs) as [x1 [r1 [Hin1 [Hs1 Hag1]]]].
    destruct (eval_sound ds uf g1 e st x1 Hwf He Hin1) as [_ [Hle [Hwf1 _]]].
    assert (He1: env_ok e (ctr x1)) by (eapply env_ok_mono; eauto).
    assert (Eve1: ve = map (inst r1) e).
    { rewrite Eve. symmetry. apply (map_inst_ext r r1 e (ctr st) He Hag1). }
    destruct (C2 e x1 r1 Eve1 R2 K2 Hwf1 He1 Hs1) as [x [r' [Hin2 [Hs2 Hag2]]]].
    exists x1, x, r'. split; [exact Hin1|]. split; [exact Hin2|]. split; [exact Hs2|].
    intros y Hy. rewrite Hag2 by lia. apply Hag1. exact Hy.
  Qed.

  (* a member of one disjunct is a member of the n-ary disjunction *)
  Lemma InS_disjplus_false x g e st : forall gs, In g gs -> InS x (eval g e st) ->
    ~ RErr (eval (GDisjPlus false gs) e st) -> InS x (eval (GDisjPlus false gs) e st).
  Proof.
    induction gs as [|g1 rest IH]; intros Hin Hx Hne; [contradiction|].
    destruct rest as [|g2 rest].
    - destruct Hin as [E|[]]. subst g1. rewrite eval_disjplus_false_1. exact Hx.
    - rewrite eval_disjplus_false_2 in *. apply not_RErr_mplus in Hne. destruct Hne as [N1 N2].
      destruct Hin as [E|Hin].
      + subst g1. apply InS_mplus_l; assumption.
      + apply InS_mplus_r; [|exact N1]. apply IH; assumption.
  Qed.

  Lemma InS_disjplus_true x g e st : forall gs, In g gs -> InS x (eval g e st) ->
    ~ RErr (disjplus_z gs e st) -> InS x (disjplus_z gs e st).
  Proof.
    induction gs as [|g1 rest IH]; intros Hin Hx Hne; [contradiction|].
    destruct rest as [|g2 rest].
    - destruct Hin as [E|[]]. subst g1. simpl. constructor. exact Hx.
    - change (disjplus_z (g1 :: g2 :: rest) e st)
        with (mplus (SSusp (TGoal g1 e st)) (disjplus_z (g2 :: rest) e st)) in *.
      apply not_RErr_mplus in Hne. destruct Hne as [N1 N2].
      destruct Hin as [E|Hin].
      + subst g1. apply InS_mplus_l; [|exact N2]. constructor. exact Hx.
      + apply InS_mplus_r; [|exact N1]. apply IH; assumption.
  Qed.

  Lemma compl_all : forall g ve, Den ds g ve -> Compl g ve.
  Proof.
    apply (Den_mut ds (fun g ve _ => Compl g ve) (fun gs ve _ => ComplAll gs ve)).
    - (* DSucc *)
      intros ve e st r _ _ _ Hwf He Hs. exists st, r. split; [simpl; constructor|]. split; [exact Hs|auto].
    - (* DEq *)
      intros t1 t2 ve Heq e st r Eve _ _ Hwf He Hs. subst ve. rewrite <- !inst_close in Heq.
      pose proof (unify_complete (uf (close e t1) (close e t2) (sub st)) (close e t1) (close e t2) (sub st) r Hs Heq)
        as C.
      simpl.
      destruct (unify (uf (close e t1) (close e t2) (sub st)) (close e t1) (close e t2) (sub st))
        as [| |s'] eqn:Eu.
      + exfalso. apply (Hu _ _ _ (proj1 Hwf) Eu).
      + contradiction.
      + exists (mkSt s' (ctr st)), r. split; [constructor|]. split; [exact C|auto].
    - (* DConj *)
      intros g1 g2 ve _ C1 _ C2 e st r Eve Hr Hc Hwf He Hs.
      simpl in Hr, Hc. apply andb_true_iff in Hr. apply andb_true_iff in Hc.
      destruct Hr as [R1 R2]. destruct Hc as [K1 K2].
      destruct (compl_chain g1 g2 ve C1 C2 e st r Eve R1 R2 K1 K2 Hwf He Hs)
        as [x1 [x [r' [Hin1 [Hin2 [Hs2 Hag]]]]]].
      exists x, r'. split; [|split; assumption].
      assert (Hne: ~ RErr (eval (GConj g1 g2) e st)).
      { apply no_err; [simpl; rewrite K1, K2; reflexivity|exact Hwf|exact He]. }
      simpl in *. eapply InS_bind; [intros th; reflexivity|exact Hin1|exact Hin2|exact Hne].
    - (* DDisjL *)
      intros g1 g2 ve _ C1 e st r Eve Hr Hc Hwf He Hs.
      simpl in Hr, Hc. apply andb_true_iff in Hr. apply andb_true_iff in Hc.
      destruct Hr as [R1 R2]. destruct Hc as [K1 K2].
      destruct (C1 e st r Eve R1 K1 Hwf He Hs) as [x [r' [Hin [Hs' Hag]]]].
      exists x, r'. split; [|split; assumption]. simpl.
      apply InS_mplus_l; [exact Hin|]. apply no_err; assumption.
    - (* DDisjR *)
      intros g1 g2 ve _ C2 e st r Eve Hr Hc Hwf He Hs.
      simpl in Hr, Hc. apply andb_true_iff in Hr. apply andb_true_iff in Hc.
      destruct Hr as [R1 R2]. destruct Hc as [K1 K2].
      destruct (C2 e st r Eve R2 K2 Hwf He Hs) as [x [r' [Hin [Hs' Hag]]]].
      exists x, r'. split; [|split; assumption]. simpl.
      apply InS_mplus_r; [exact Hin|]. apply no_err; assumption.
    - (* DFresh *)
      intros g ve t _ C e st r Eve Hr Hc Hwf He Hs. simpl in Hr, Hc.
      set (c := ctr st).
      set (r2 := fun y => if N.eqb y c then t else r y).
      assert (Hag2: forall y, (y < c)%N -> r2 y = r y).
      { intros y Hy. unfold r2. destruct (N.eqb_spec y c) as [E|E]; [lia|reflexivity]. }
      assert (Eve2: t :: ve = map (inst r2) (TVar c :: e)).
      { simpl. f_equal.
        - unfold r2. rewrite N.eqb_refl. reflexivity.
        - rewrite Eve. symmetry. apply (map_inst_ext r r2 e c He Hag2). }
      assert (Hs2: sat r2 (sub (fresh_state st))).
      { simpl. apply (sat_ext r r2); [|exact Hs]. intros y Hy. apply Hag2. apply (proj2 Hwf). exact Hy. }
      destruct (C (TVar c :: e) (fresh_state st) r2 Eve2 Hr Hc (wf_state_fresh st Hwf) (env_ok_fresh e c He) Hs2)
        as [x [r' [Hin [Hs' Hag]]]].
      exists x, r'. split; [exact Hin|]. split; [exact Hs'|].
      intros y Hy. rewrite Hag.
      + apply Hag2. exact Hy.
      + assert (E: ctr (fresh_state st) = (ctr st + 1)%N) by reflexivity. lia.
    - (* DZzz *)
      intros g ve _ C e st r Eve Hr Hc Hwf He Hs. simpl in Hr, Hc.
      destruct (C e st r Eve Hr Hc Hwf He Hs) as [x [r' [Hin [Hs' Hag]]]].
      exists x, r'. split; [|split; assumption]. simpl. constructor. exact Hin.
    - (* DCall *)
      intros r0 args body ve Hb _ C e st r Eve _ _ Hwf He Hs.
      destruct (Hdf r0 body Hb) as [Hg Hk]. pose proof (Hrl r0 body Hb) as Hr.
      assert (Eve': arg_env ve args = map (inst r) (arg_env e args)).
      { rewrite Eve. symmetry. apply inst_arg_env. }
      destruct (C (arg_env e args) st r Eve' Hr Hk Hwf (env_ok_arg_env e (ctr st) args He) Hs)
        as [x [r' [Hin [Hs' Hag]]]].
      exists x, r'. split; [|split; assumption]. simpl. rewrite Hb.
      rewrite (evalh_guarded ds uf body Hg). exact Hin.
    - (* DLet *)
      intros args g ve _ C e st r Eve Hr Hc Hwf He Hs. simpl in Hr, Hc.
      assert (Eve': arg_env ve args = map (inst r) (arg_env e args)).
      { rewrite Eve. symmetry. apply inst_arg_env. }
      destruct (C (arg_env e args) st r Eve' Hr Hc Hwf (env_ok_arg_env e (ctr st) args He) Hs)
        as [x [r' [Hin [Hs' Hag]]]].
      exists x, r'. split; [|split; assumption]. exact Hin.
    - (* DConjPlus *)
      intros z gs ve _ C. apply C.
    - (* DDisjPlus *)
      intros z gs g ve Hin _ C e st r Eve Hr Hc Hwf He Hs.
      assert (Hne: ~ RErr (eval (GDisjPlus z gs) e st)) by (apply no_err; assumption).
      simpl in Hr, Hc. rewrite forallb_forall in Hr, Hc.
      destruct (C e st r Eve (Hr g Hin) (Hc g Hin) Hwf He Hs) as [x [r' [Hx [Hs' Hag]]]].
      exists x, r'. split; [|split; assumption].
      destruct z.
      + rewrite eval_disjplus_true in *. apply (InS_disjplus_true x g e st gs Hin Hx Hne).
      + apply (InS_disjplus_false x g e st gs Hin Hx Hne).
    - (* DIfteThen *) intros c t e0 ve _ _ _ _ e st r _ Hr. discriminate.
    - (* DIfteElse *) intros c t e0 ve _ _ e st r _ Hr. discriminate.
    - (* DOnce *) intros g ve _ _ e st r _ Hr. discriminate.
    - (* DAnil *)
      intros ve z e st r _ _ _ Hwf He Hs. exists st, r.
      split; [destruct z; simpl; constructor|]. split; [exact Hs|auto].
    - (* DAcons *)
      intros g gs ve _ C _ CA z e st r Eve Hr Hc Hwf He Hs.
      assert (Hne: ~ RErr (eval (GConjPlus z (g :: gs)) e st)) by (apply no_err; assumption).
      change (relational (GConjPlus z (g :: gs))) with (relational g && relational (GConjPlus z gs)) in Hr.
      change (calls_okb ds (GConjPlus z (g :: gs))) with (calls_okb ds g && calls_okb ds (GConjPlus z gs)) in Hc.
      apply andb_true_iff in Hr. apply andb_true_iff in Hc.
      destruct Hr as [R1 R2]. destruct Hc as [K1 K2].
      destruct gs as [|g2 rest].
      + destruct (C e st r Eve R1 K1 Hwf He Hs) as [x [r' [Hx [Hs' Hag]]]].
        exists x, r'. split; [|split; assumption].
        destruct z; [simpl; constructor; exact Hx|exact Hx].
      + destruct (compl_chain g (GConjPlus z (g2 :: rest)) ve C (CA z) e st r Eve R1 R2 K1 K2 Hwf He Hs)
          as [x1 [x [r' [Hin1 [Hin2 [Hs2 Hag]]]]]].
        exists x, r'. split; [|split; assumption].
        destruct z.
        * rewrite eval_conjplus_true in *. simpl in *. constructor. rewrite force_TBind.
          eapply InS_bind; [intros th; reflexivity|exact Hin1|exact Hin2|].
          intros E. apply Hne. constructor. exact E.
        * rewrite eval_conjplus_false_2 in *.
          eapply InS_bind; [intros th; reflexivity|exact Hin1|exact Hin2|exact Hne].
  Qed.
End Complete.

(* ---------- (D) completeness with fairness ---------- *)

Theorem eval_complete : forall ds uf, uf_ok uf -> defs_ok ds -> defs_relational ds ->
  forall g ve, Den ds g ve ->
  forall e st r, ve = map (inst r) e -> relational g = true -> calls_okb ds g = true ->
    wf_state st -> env_ok e (ctr st) -> sat r (sub st) ->
    exists x r', InStream ds uf x (eval ds uf g e st) /\ sat r' (sub x) /\
                 (forall y, (y < ctr st)%N -> r' y = r y).
Proof.
  intros ds uf Hu Hdf Hrl g ve Hd. apply (compl_all ds uf Hu Hdf Hrl g ve Hd).
Qed.
Print Assumptions eval_complete.

(* a finite position: some take returns it *)
Corollary eval_complete_take : forall ds uf x s, InStream ds uf x s ->
  exists f n l, take ds uf f n s = Some l /\ In x l.
Proof.
  intros ds uf x s H. destruct (take_complete ds uf x s H) as [f [n [l [_ [Ht Hl]]]]]. eauto.
Qed.
Print Assumptions eval_complete_take.

Corollary eval_complete_take_answer : forall ds uf, uf_ok uf -> defs_ok ds -> defs_relational ds ->
  forall g e st r, Den ds g (map (inst r) e) -> relational g = true -> calls_okb ds g = true ->
    wf_state st -> env_ok e (ctr st) -> sat r (sub st) ->
    exists f n l x r', take ds uf f n (eval ds uf g e st) = Some l /\ In x l /\ sat r' (sub x) /\
                       (forall y, (y < ctr st)%N -> r' y = r y).
Proof.
  intros ds uf Hu Hdf Hrl g e st r Hd Hr Hc Hwf He Hs.
  destruct (eval_complete ds uf Hu Hdf Hrl g _ Hd e st r eq_refl Hr Hc Hwf He Hs) as [x [r' [Hin [Hs' Hag]]]].
  destruct (eval_complete_take ds uf x _ Hin) as [f [n [l [Ht Hl]]]].
  exists f, n, l, x, r'. auto.
Qed.
Print Assumptions eval_complete_take_answer.
