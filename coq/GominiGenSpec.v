(* The functions generated from gomini/unify.go (gen/GominiGen.v, regenerated from /repo on every run) ARE the
   transcription GCore.v that the theorems of C04 / C08 are proved about, for every input and every fuel; and they never
   panic.  The reflecttools calls are the model Reflect.v of C18 in both. *)
From Coq Require Import List NArith ZArith Bool Lia.
From GMK Require Import Term Unify UnifySpec UnifyWf UnifyTotal Reflect ReflectSpec GCore GCoreSpec GoLite GoLiteG gen.GominiGen.
Import ListNotations.

Definition of_optg {A} (o : option A) : R A := match o with Some a => Ret a | None => OOF_ end.
Definition of_gres (r : gres) : R (option gsub) :=
  match r with GROOF => OOF_ | GRFail => Ret None | GROk s => Ret (Some s) end.

Lemma gm_walk_spec : forall f x s, gm_walk f x s = of_optg (gwalk f x s).
Proof.
  induction f as [|f IH]; intros x s; [reflexivity|].
  cbn [gm_walk gwalk]. unfold cast_var2, gget. destruct (cast_var x) as [i|]; [|reflexivity].
  destruct (gassv i s) as [v|]; [|reflexivity]. cbn. apply IH.
Qed.

Lemma any_loopR_spec (p : gval -> R bool) (q : gval -> option bool) :
  (forall e, p e = of_optg (q e)) -> forall l, any_loopR p l = of_optg (any_loopM q l).
Proof.
  intros H. induction l as [|sl l IH]; [reflexivity|]. cbn [any_loopR any_loopM]. rewrite H.
  destruct (q (unwrap sl)) as [[|]|]; cbn; try reflexivity. exact IH.
Qed.
Lemma ranyR_spec (p : gval -> R bool) (q : gval -> option bool) :
  (forall e, p e = of_optg (q e)) -> forall x, ranyR p x = of_optg (ranyM q x).
Proof.
  intros H x. unfold ranyR, ranyM. destruct (is_nil x); [reflexivity|].
  destruct x; try reflexivity; apply any_loopR_spec; exact H.
Qed.

Lemma gm_hasCycle_spec : forall f i y s, gm_hasCycle f i y s = of_optg (ghascycle f i y s).
Proof.
  induction f as [|f IH]; intros i y s; [reflexivity|].
  cbn [gm_hasCycle ghascycle]. rewrite gm_walk_spec. destruct (gwalk f y s) as [y'|]; [|reflexivity].
  cbn [of_optg bind]. unfold cast_var2. destruct (cast_var y') as [j|]; [reflexivity|].
  apply ranyR_spec. intros e. apply IH.
Qed.

Lemma gm_isLeaf_spec x : gm_isLeaf x = Ret (is_leaf x).
Proof. unfold gm_isLeaf, is_leaf. destruct (is_nil x); [reflexivity|]. destruct (kind_of x); reflexivity. Qed.

(* ZipReduce is parametric in the accumulator type: the fold at R (option gsub) is the fold at gres *)
Lemma zip_loop_param (g1 : gval -> gval -> gsub -> gres) (g2 : gval -> gval -> gsub -> R (option gsub)) :
  (forall a b s, g2 a b s = of_gres (g1 a b s)) ->
  forall xs ys acc,
    fst (zip_loop (Ret None) state_is_nil (fun a b acc => match acc with Ret (Some s1) => g2 a b s1 | other => other end) xs ys (of_gres acc))
    = of_gres (fst (zip_loop GRFail gres_is_fail (fun a b acc => match acc with GROk s1 => g1 a b s1 | other => other end) xs ys acc)).
Proof.
  intros H.
  set (F2 := fun (a b : gval) (acc : R (option gsub)) => match acc with Ret (Some s1) => g2 a b s1 | other => other end).
  set (F1 := fun (a b : gval) (acc : gres) => match acc with GROk s1 => g1 a b s1 | other => other end).
  assert (E : forall a b acc, F2 a b (of_gres acc) = of_gres (F1 a b acc)).
  { intros a b acc. unfold F1, F2. destruct acc; cbn; try reflexivity. apply H. }
  induction xs as [|sx xs IH]; intros ys acc; [reflexivity|]. destruct ys as [|sy ys]; [reflexivity|].
  cbn [zip_loop]. cbv zeta. rewrite E.
  assert (Z : state_is_nil (of_gres (F1 (unwrap sx) (unwrap sy) acc)) = gres_is_fail (F1 (unwrap sx) (unwrap sy) acc))
    by (destruct (F1 (unwrap sx) (unwrap sy) acc); reflexivity).
  rewrite Z. destruct (gres_is_fail (F1 (unwrap sx) (unwrap sy) acc)); [reflexivity|].
  specialize (IH ys (F1 (unwrap sx) (unwrap sy) acc)).
  destruct (zip_loop (Ret None) state_is_nil F2 xs ys (of_gres (F1 (unwrap sx) (unwrap sy) acc))) as [r2 l2].
  destruct (zip_loop GRFail gres_is_fail F1 xs ys (F1 (unwrap sx) (unwrap sy) acc)) as [r1 l1]. exact IH.
Qed.

Lemma zipreduce_state_spec (g1 : gval -> gval -> gsub -> gres) (g2 : gval -> gval -> gsub -> R (option gsub)) :
  (forall a b s, g2 a b s = of_gres (g1 a b s)) ->
  forall x y s, zipreduce_state g2 x y s
    = of_gres (fst (zipreduce GRFail gres_is_fail (fun a b acc => match acc with GROk s1 => g1 a b s1 | other => other end) (GROk s) x y)).
Proof.
  intros H x y s. unfold zipreduce_state, zipreduce.
  change (Ret (Some s)) with (of_gres (GROk s)).
  destruct (is_nil x); [destruct (is_nil y); reflexivity|]. destruct (is_nil y); [reflexivity|].
  destruct (negb (kind_eqb (kind_of x) (kind_of y))); [reflexivity|].
  destruct (kind_of x); try reflexivity.
  - destruct (negb (kind_eqb (elem_kind x) (elem_kind y))); [reflexivity|].
    destruct x; try reflexivity. destruct y; try reflexivity.
    destruct (negb (Nat.eqb (length fields) (length fields0))); [reflexivity|]. apply zip_loop_param. exact H.
  - destruct x; try reflexivity. destruct y; try reflexivity.
    destruct (negb (Nat.eqb (length elems) (length elems0))); [reflexivity|]. apply zip_loop_param. exact H.
Qed.

Lemma gm_unify_spec : forall f x y s, gm_unify f x y s = of_gres (gunify f x y s).
Proof.
  induction f as [|f IH]; intros x y s; [reflexivity|].
  cbn [gm_unify gunify]. rewrite !gm_walk_spec.
  destruct (gwalk f x s) as [x'|]; [|reflexivity]. cbn [of_optg bind].
  destruct (gwalk f y s) as [y'|]; [|reflexivity]. cbn [of_optg bind].
  unfold cast_var2, gbind. destruct (cast_var x') as [i|]; destruct (cast_var y') as [j|]; cbn [andb].
  - destruct (N.eqb i j); [reflexivity|]. rewrite gm_hasCycle_spec. destruct (ghascycle f i y' s) as [[|]|]; reflexivity.
  - rewrite gm_hasCycle_spec. destruct (ghascycle f i y' s) as [[|]|]; reflexivity.
  - rewrite gm_hasCycle_spec. destruct (ghascycle f j x' s) as [[|]|]; reflexivity.
  - rewrite !gm_isLeaf_spec. cbn [bind]. destruct (is_leaf x'); cbn [orb bind].
    + destruct (gval_eqb x' y'); reflexivity.
    + destruct (is_leaf y'); [destruct (gval_eqb x' y'); reflexivity|].
      apply zipreduce_state_spec. exact IH.
Qed.

Theorem gomini_code_never_panics : forall f x y s i,
  gm_unify f x y s <> Panic /\ gm_walk f x s <> Panic /\ gm_hasCycle f i y s <> Panic /\ gm_isLeaf x <> Panic.
Proof.
  intros f x y s i. rewrite gm_unify_spec, gm_walk_spec, gm_hasCycle_spec, gm_isLeaf_spec.
  repeat split; try discriminate.
  - destruct (gunify f x y s); discriminate.
  - destruct (gwalk f x s); discriminate.
  - destruct (ghascycle f i y s); discriminate.
Qed.

(* the property, on the generated code: the text of gomini/unify.go computes, on the term encodings of its arguments,
   what micro's verified unify computes *)
Theorem gm_unify_is_unify : forall f x y s tx ty ts,
  tenc x = Some tx -> tenc y = Some ty -> senc s = Some ts ->
  match gm_unify f x y s with
  | Ret None => exists f2, unify f2 tx ty ts = Fail
  | Ret (Some s') => exists ts' f2, senc s' = Some ts' /\ unify f2 tx ty ts = Ok ts'
  | OOF_ => True
  | Panic => False
  end.
Proof.
  intros f x y s tx ty ts Hx Hy Hs. rewrite gm_unify_spec. pose proof (gunify_enc f x y s tx ty ts Hx Hy Hs) as H.
  destruct (gunify f x y s); exact H.
Qed.

Theorem gm_unify_mgu : forall f x y s s' tx ty ts,
  tenc x = Some tx -> tenc y = Some ty -> senc s = Some ts -> gm_unify f x y s = Ret (Some s') ->
  exists ts', senc s' = Some ts' /\ (exists ext, ts' = ts ++ ext) /\ (forall r, sat r ts' <-> sat r ts /\ inst r tx = inst r ty).
Proof.
  intros f x y s s' tx ty ts Hx Hy Hs H. rewrite gm_unify_spec in H.
  destruct (gunify f x y s) as [| |s1] eqn:E; try discriminate. inversion H; subst s1.
  exact (gunify_ok f x y s s' tx ty ts Hx Hy Hs E).
Qed.

Theorem gm_unify_fail : forall f x y s tx ty ts,
  tenc x = Some tx -> tenc y = Some ty -> senc s = Some ts -> gm_unify f x y s = Ret None ->
  ~ exists r, sat r ts /\ inst r tx = inst r ty.
Proof.
  intros f x y s tx ty ts Hx Hy Hs H. rewrite gm_unify_spec in H.
  destruct (gunify f x y s) as [| |s1] eqn:E; try discriminate.
  exact (gunify_fail f x y s tx ty ts Hx Hy Hs E).
Qed.
