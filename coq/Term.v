(* L0: terms of micro/mini (the S-expressions built by the exported constructors), valuations, instances.
   Model only: no proofs here. *)
From Coq Require Import List NArith ZArith Bool.
Import ListNotations.

(* Atoms other than variables. Symbols and strings are interned to N by the harness (injectively, by content);
   floats by their order key (see SexprStruct.v); ARei k is the reified name _k (the symbol "_k"). *)
Inductive atom := ASym (s : N) | AInt (z : Z) | AStr (s : N) | AFlt (k : Z) | ARei (k : N).

Definition atom_eqb (a b : atom) : bool :=
  match a, b with
  | ASym x, ASym y => N.eqb x y
  | AInt x, AInt y => Z.eqb x y
  | AStr x, AStr y => N.eqb x y
  | AFlt x, AFlt y => Z.eqb x y
  | ARei x, ARei y => N.eqb x y
  | _, _ => false
  end.

(* Run-time terms. A logic variable is identified by its Index alone (assv / Variable.Equal look at Index only). *)
Inductive term := TNil | TAtom (a : atom) | TVar (i : N) | TPair (a d : term).

Fixpoint term_eqb (t u : term) : bool :=
  match t, u with
  | TNil, TNil => true
  | TAtom a, TAtom b => atom_eqb a b
  | TVar x, TVar y => N.eqb x y
  | TPair a d, TPair a' d' => term_eqb a a' && term_eqb d d'
  | _, _ => false
  end.

Fixpoint size (t : term) : nat := match t with TPair a d => S (size a + size d) | _ => 1%nat end.

Fixpoint vars (t : term) : list N :=
  match t with TVar x => [x] | TPair a d => vars a ++ vars d | _ => [] end.

(* Substitutions in the exact order of the Go slice: exts appends at the end, assv scans from the front. *)
Definition subst := list (N * term).

(* Valuations: arbitrary (possibly non-ground) finite terms for every variable. *)
Definition val := N -> term.
Fixpoint inst (r : val) (t : term) : term :=
  match t with TVar x => r x | TPair a d => TPair (inst r a) (inst r d) | _ => t end.
(* r is a solution of the triangular substitution s *)
Definition sat (r : val) (s : subst) : Prop := forall x t, In (x, t) s -> r x = inst r t.

(* acyclic, with distinct keys: the property's "consistent starting state" *)
Definition wf (s : subst) : Prop :=
  NoDup (map fst s) /\
  exists rank : N -> nat, forall x t y, In (x, t) s -> In y (vars t) -> (rank y < rank x)%nat.
