(* L4 model for C05, lineage TREES: several gomini states derived from one another are alive at the same time (the
   branches of a disjunction each derive their own child of the same parent state), and each state keeps its
   placeholders alive through some storage.  The storage is modelled at the memory level, as C07 does for
   substitutions: arrays with a capacity, a state's placeholder list is a prefix (array, len) of one array.

     policy Copy  (the code: NewVar copies the parent's map and adds the new placeholder): the child gets its OWN array;
     policy Share (handing the parent's slice down and appending to it): when the parent's array has room the child
                  writes the next slot of THE SAME array - a sibling derived later writes the same slot again.

   The collector and the allocator are arbitrary, as in AddrHeap.v.  No proofs here. *)
From Coq Require Import List NArith Arith Bool Lia.
From GMK Require Import AddrHeap.
Import ListNotations.

Record gst := mkG { glisted : list addr; garr : nat; glen : nat }.

Record tworld := mkTW {
  tlive : list addr;
  troots : list addr;               (* placeholders the caller still references *)
  tarrays : list (list (option addr)); (* array id -> slots (length = capacity) *)
  tstates : list gst;               (* the states that are alive (held by the caller / by running branches) *)
  tconsts : list addr               (* values allocated later *)
}.

Inductive tlabel :=
| TNewVar (s : nat) (a : addr)      (* derive a child of state s with a new variable whose placeholder is at a *)
| TDropRoot (a : addr)
| TGC (freed : list addr)
| TAlloc (a : addr).

Definition slots_of (w : tworld) (g : gst) : list (option addr) := firstn (glen g) (nth (garr g) (tarrays w) []).

(* what a state keeps alive *)
Definition retained (w : tworld) (g : gst) : list addr :=
  flat_map (fun o => match o with Some a => [a] | None => [] end) (slots_of w g).

Definition treachable (w : tworld) (a : addr) : bool :=
  mem a (troots w) || existsb (fun g => mem a (retained w g)) (tstates w).

Fixpoint set_nth {A} (n : nat) (x : A) (l : list A) : list A :=
  match n, l with
  | O, _ :: r => x :: r
  | S k, y :: r => y :: set_nth k x r
  | _, [] => []
  end.

(* share = false: policy Copy (spare capacity `extra` is irrelevant: nobody else sees the new array);
   share = true:  policy Share, new arrays get `extra` spare slots *)
Definition tstep (share : bool) (extra : nat) (w : tworld) (l : tlabel) : option tworld :=
  match l with
  | TNewVar s a =>
      if mem a (tlive w) then None
      else match nth_error (tstates w) s with
      | None => None
      | Some g =>
          let arr := nth (garr g) (tarrays w) [] in
          if share && (glen g <? length arr) then
            (* room left: write the next slot of the parent's array in place *)
            Some (mkTW (a :: tlive w) (a :: troots w)
                       (set_nth (garr g) (set_nth (glen g) (Some a) arr) (tarrays w))
                       (tstates w ++ [mkG (a :: glisted g) (garr g) (S (glen g))]) (tconsts w))
          else
            (* a new array: the parent's placeholders, the new one, spare room *)
            Some (mkTW (a :: tlive w) (a :: troots w)
                       (tarrays w ++ [slots_of w g ++ [Some a] ++ repeat None extra])
                       (tstates w ++ [mkG (a :: glisted g) (length (tarrays w)) (S (glen g))]) (tconsts w))
      end
  | TDropRoot a => Some (mkTW (tlive w) (remove_all [a] (troots w)) (tarrays w) (tstates w) (tconsts w))
  | TGC freed =>
      if forallb (fun a => mem a (tlive w) && negb (treachable w a)) freed
      then Some (mkTW (remove_all freed (tlive w)) (troots w) (tarrays w) (tstates w) (remove_all freed (tconsts w)))
      else None
  | TAlloc a =>
      if mem a (tlive w) then None
      else Some (mkTW (a :: tlive w) (a :: troots w) (tarrays w) (tstates w) (a :: tconsts w))
  end.

Fixpoint trun (share : bool) (extra : nat) (w : tworld) (ls : list tlabel) : option tworld :=
  match ls with
  | [] => Some w
  | l :: r => match tstep share extra w l with Some w' => trun share extra w' r | None => None end
  end.

(* the initial state: no variables, an empty array with `cap` slots *)
Definition tinit (cap : nat) : tworld := mkTW [] [] [repeat None cap] [mkG [] 0 0] [].

(* CastVar of state number s *)
Definition tcastvar (w : tworld) (s : nat) (a : addr) : bool :=
  match nth_error (tstates w) s with Some g => mem a (glisted g) | None => false end.
