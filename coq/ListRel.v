(* The list relations of mini (AppendO, NullO, ConsO, CarO, MemberO, MapO) and gomini/concato (ConcatO, PrependO):
   the logical reading Den of the GENERATED goal terms (gen/RelMini.v, gen/RelConcato.v) is the intended relation
   on terms, and the search (Sound.v / Complete.v) therefore enumerates exactly that relation.

   Method.  Section DenInv proves one inversion equivalence per goal constructor.  Their simultaneous application
   is the structural interpretation `Sem S g ve` (a Fixpoint on the goal, calls interpreted by S), with
     sem_den  : Sem (DenCall ds) g ve <-> Den ds g ve          (all inversion lemmas at once)
     den_lfp  : Den is the LEAST solution: a pre-fixed point `spec` of the table contains every call.
   A proof about a generated body is then: `unfold appendo_body ...; simpl` and first-order reasoning.  The bodies
   are never copied here. *)
From Coq Require Import List NArith ZArith Bool Lia Arith Setoid Morphisms.
From GMK Require Import Term Unify UnifyTotal Goal Stream Den InStream Sound Complete.
From GMK.gen Require Import RelMini RelPeano RelConcato.
Import ListNotations.

(* (x1 ... xn . tl); the Go proper list is tlist xs TNil *)
Fixpoint tlist (xs : list term) (tl : term) : term :=
  match xs with [] => tl | x :: r => TPair x (tlist r tl) end.

Lemma tlist_app xs ys tl : tlist (xs ++ ys) tl = tlist xs (tlist ys tl).
Proof. induction xs as [|x xs IH]; simpl; [reflexivity|rewrite IH; reflexivity]. Qed.

Lemma tlist_inj : forall xs ys, tlist xs TNil = tlist ys TNil -> xs = ys.
Proof.
  induction xs as [|x xs IH]; intros [|y ys] H; simpl in H; try discriminate; [reflexivity|].
  inversion H. f_equal. apply IH. assumption.
Qed.

(* ================================================================================================ *)
Section DenInv.
  Variable ds : defs.

  Lemma den_fail ve : Den ds GFail ve <-> False.
  Proof. split; [intros H; inversion H|contradiction]. Qed.

  Lemma den_succ ve : Den ds GSucc ve <-> True.
  Proof. split; [trivial|intros _; constructor]. Qed.

  Lemma den_eq t1 t2 ve : Den ds (GEq t1 t2) ve <-> close ve t1 = close ve t2.
  Proof. split; [intros H; inversion H; assumption|apply DEq]. Qed.

  Lemma den_conj a b ve : Den ds (GConj a b) ve <-> Den ds a ve /\ Den ds b ve.
  Proof. split; [intros H; inversion H; auto|intros [H1 H2]; apply DConj; assumption]. Qed.

  Lemma den_disj a b ve : Den ds (GDisj a b) ve <-> Den ds a ve \/ Den ds b ve.
  Proof.
    split; [intros H; inversion H; auto|intros [H|H]; [apply DDisjL|apply DDisjR]; assumption].
  Qed.

  Lemma den_fresh g ve : Den ds (GFresh g) ve <-> exists t, Den ds g (t :: ve).
  Proof. split; [intros H; inversion H; eauto|intros [t H]; eapply DFresh; eauto]. Qed.

  Lemma den_zzz g ve : Den ds (GZzz g) ve <-> Den ds g ve.
  Proof. split; [intros H; inversion H; assumption|apply DZzz]. Qed.

  Lemma den_let args g ve : Den ds (GLet args g) ve <-> Den ds g (arg_env ve args).
  Proof. split; [intros H; inversion H; assumption|apply DLet]. Qed.

  Lemma den_call r args ve :
    Den ds (GCall r args) ve <-> exists body, ds r = Some body /\ Den ds body (arg_env ve args).
  Proof. split; [intros H; inversion H; eauto|intros [b [H1 H2]]; eapply DCall; eauto]. Qed.

  Lemma denall_forall gs ve : DenAll ds gs ve <-> Forall (fun g => Den ds g ve) gs.
  Proof.
    split.
    - induction gs as [|g gs IH]; intros H; [constructor|]. inversion H; subst. constructor; auto.
    - induction 1; constructor; assumption.
  Qed.

  Lemma den_conjplus z gs ve : Den ds (GConjPlus z gs) ve <-> Forall (fun g => Den ds g ve) gs.
  Proof.
    rewrite <- denall_forall. split; [intros H; inversion H; assumption|apply DConjPlus].
  Qed.

  Lemma den_disjplus z gs ve : Den ds (GDisjPlus z gs) ve <-> Exists (fun g => Den ds g ve) gs.
  Proof.
    rewrite Exists_exists. split.
    - intros H; inversion H; subst. eauto.
    - intros [g [Hin H]]. eapply DDisjPlus; eauto.
  Qed.

  Lemma den_conde gss ve :
    Den ds (GConde gss) ve <-> Exists (fun gs => Forall (fun g => Den ds g ve) gs) gss.
  Proof.
    unfold GConde. rewrite den_disjplus, Exists_map.
    split; intros H; eapply Exists_impl; try exact H; intros gs; apply den_conjplus.
  Qed.

  Lemma den_ifte c t e ve : Den ds (GIfte c t e) ve <-> (Den ds c ve /\ Den ds t ve) \/ Den ds e ve.
  Proof.
    split; [intros H; inversion H; auto|intros [[H1 H2]|H]; [apply DIfteThen|apply DIfteElse]; assumption].
  Qed.

  Lemma den_once g ve : Den ds (GOnce g) ve <-> Den ds g ve.
  Proof. split; [intros H; inversion H; assumption|apply DOnce]. Qed.

  (* ---------- all of them at once: the structural interpretation, calls read by S ---------- *)

  Fixpoint Sem (S : nat -> list term -> Prop) (g : goal) (ve : list term) {struct g} : Prop :=
    match g with
    | GFail => False
    | GSucc => True
    | GEq t1 t2 => close ve t1 = close ve t2
    | GConj a b => Sem S a ve /\ Sem S b ve
    | GDisj a b => Sem S a ve \/ Sem S b ve
    | GFresh g1 => exists t, Sem S g1 (t :: ve)
    | GZzz g1 => Sem S g1 ve
    | GCall r args => S r (arg_env ve args)
    | GLet args g1 => Sem S g1 (arg_env ve args)
    | GConjPlus _ gs =>
        (fix all (l : list goal) : Prop := match l with [] => True | g1 :: r => Sem S g1 ve /\ all r end) gs
    | GDisjPlus _ gs =>
        (fix any (l : list goal) : Prop := match l with [] => False | g1 :: r => Sem S g1 ve \/ any r end) gs
    | GIfte c t e => (Sem S c ve /\ Sem S t ve) \/ Sem S e ve
    | GOnce g1 => Sem S g1 ve
    end.

  Lemma sem_conjplus S z gs ve : Sem S (GConjPlus z gs) ve <-> Forall (fun g => Sem S g ve) gs.
  Proof.
    induction gs as [|g gs IH]; simpl.
    - split; [constructor|trivial].
    - simpl in IH. split.
      + intros [H1 H2]. constructor; [exact H1|apply IH; exact H2].
      + intros H. inversion H; subst. split; [assumption|apply IH; assumption].
  Qed.

  Lemma sem_disjplus S z gs ve : Sem S (GDisjPlus z gs) ve <-> Exists (fun g => Sem S g ve) gs.
  Proof.
    induction gs as [|g gs IH]; simpl.
    - split; [contradiction|intros H; inversion H].
    - simpl in IH. split.
      + intros [H|H]; [left; exact H|right; apply IH; exact H].
      + intros H. inversion H; subst; [left; assumption|right; apply IH; assumption].
  Qed.

  Lemma sem_mono (S S' : nat -> list term -> Prop) : (forall r e, S r e -> S' r e) ->
    forall g ve, Sem S g ve -> Sem S' g ve.
  Proof.
    intros HS.
    induction g as [ | | t1 t2 | g1 g2 IH1 IH2 | g1 g2 IH1 IH2 | g1 IH1 | g1 IH1 | r args | args g1 IH1
                     | z gs IHgs | z gs IHgs | c t el IHc IHt IHel | g1 IH1 ] using goal_ind'; intros ve H.
    - exact H.
    - exact H.
    - exact H.
    - simpl in *. destruct H; split; auto.
    - simpl in *. destruct H; [left|right]; auto.
    - simpl in *. destruct H as [t H]. exists t. auto.
    - simpl in *. auto.
    - simpl in *. auto.
    - simpl in *. auto.
    - rewrite sem_conjplus in *. rewrite Forall_forall in *. intros g Hg. apply IHgs; auto.
    - rewrite sem_disjplus in *. rewrite Exists_exists in *. destruct H as [g [Hg H1]].
      exists g. split; [exact Hg|]. rewrite Forall_forall in IHgs. apply IHgs; auto.
    - simpl in *. destruct H as [[H1 H2]|H]; [left; split|right]; auto.
    - simpl in *. auto.
  Qed.

  Definition DenCall (r : nat) (env : list term) : Prop :=
    exists body, ds r = Some body /\ Den ds body env.

  Lemma den_call_iff r args ve : Den ds (GCall r args) ve <-> DenCall r (arg_env ve args).
  Proof. apply den_call. Qed.

  Lemma sem_to_den : forall g ve, Sem DenCall g ve -> Den ds g ve.
  Proof.
    induction g as [ | | t1 t2 | g1 g2 IH1 IH2 | g1 g2 IH1 IH2 | g1 IH1 | g1 IH1 | r args | args g1 IH1
                     | z gs IHgs | z gs IHgs | c t el IHc IHt IHel | g1 IH1 ] using goal_ind'; intros ve H.
    - simpl in H. contradiction.
    - constructor.
    - apply den_eq. exact H.
    - simpl in H. apply den_conj. split; [apply IH1|apply IH2]; tauto.
    - simpl in H. apply den_disj. destruct H; [left|right]; auto.
    - simpl in H. destruct H as [t H]. apply den_fresh. exists t. auto.
    - apply den_zzz. auto.
    - apply den_call_iff. exact H.
    - apply den_let. auto.
    - rewrite sem_conjplus in H. apply den_conjplus. rewrite Forall_forall in *. intros g Hg. apply IHgs; auto.
    - rewrite sem_disjplus in H. apply den_disjplus. rewrite Exists_exists in *. destruct H as [g [Hg H1]].
      exists g. split; [exact Hg|]. rewrite Forall_forall in IHgs. apply IHgs; auto.
    - simpl in H. apply den_ifte. destruct H as [[H1 H2]|H]; [left; split|right]; auto.
    - apply den_once. auto.
  Qed.

  (* Den is the least solution of the table: least-fixed-point induction, with the derivations of the calls kept *)
  Section Lfp.
    Variable spec : nat -> list term -> Prop.
    Let S := fun r e => spec r e /\ DenCall r e.
    Hypothesis Hspec : forall r body env, ds r = Some body -> Sem S body env -> spec r env.

    Theorem den_lfp : forall g ve, Den ds g ve -> Sem S g ve.
    Proof.
      apply (Den_mut ds (fun g ve _ => Sem S g ve) (fun gs ve _ => Forall (fun g => Sem S g ve) gs)).
      - intros ve. exact I.
      - intros t1 t2 ve H. exact H.
      - intros g1 g2 ve _ H1 _ H2. split; assumption.
      - intros g1 g2 ve _ H1. left. exact H1.
      - intros g1 g2 ve _ H2. right. exact H2.
      - intros g ve t _ H. exists t. exact H.
      - intros g ve _ H. exact H.
      - intros r args body ve Hb Hd IH. split.
        + eapply Hspec; eauto.
        + exists body. auto.
      - intros args g ve _ H. exact H.
      - intros z gs ve _ IH. apply (sem_conjplus S z). exact IH.
      - intros z gs g ve Hin _ IH. apply (sem_disjplus S z). apply Exists_exists. eauto.
      - intros c t e ve _ H1 _ H2. left. split; assumption.
      - intros c t e ve _ H. right. exact H.
      - intros g ve _ H. exact H.
      - intros ve. constructor.
      - intros g gs ve _ H1 _ H2. constructor; assumption.
    Qed.

    Corollary call_lfp r env : DenCall r env -> spec r env.
    Proof. intros [body [Hb Hd]]. eapply Hspec; [exact Hb|]. apply den_lfp. exact Hd. Qed.
  End Lfp.

  Theorem sem_den g ve : Sem DenCall g ve <-> Den ds g ve.
  Proof.
    split; [apply sem_to_den|]. intros H.
    apply (sem_mono (fun r e => True /\ DenCall r e)); [tauto|].
    apply (den_lfp (fun _ _ => True)); auto.
  Qed.

  (* what a proof about a body may use of a sub-goal it does not look into (e.g. MapO's function argument) *)
  Lemma sem_spec_den (spec : nat -> list term -> Prop) g ve :
    Sem (fun r e => spec r e /\ DenCall r e) g ve -> Den ds g ve.
  Proof. intros H. apply sem_den. revert H. apply sem_mono. tauto. Qed.
End DenInv.
Print Assumptions den_lfp.
Print Assumptions sem_den.

(* first-order clean-up of an unfolded body *)
Ltac sem_destruct :=
  repeat match goal with
         | H : _ /\ _ |- _ => destruct H
         | H : _ \/ _ |- _ => destruct H
         | H : exists _, _ |- _ => destruct H
         | H : False |- _ => contradiction
         | H : True |- _ => clear H
         end.

(* the `den_simpl` of the plan: replace Den of a compound goal by the formula it stands for *)
Ltac den_simpl := apply sem_den; simpl.
Ltac den_simpl_in H := apply sem_den in H; simpl in H.

(* backtracking proof search for an unfolded body: independent of the order of the clauses / conjuncts and of the
   orientation of the equations; `tac` closes the leaves that are not equations (the recursive call, f) *)
Ltac sem_leaf :=
  multimatch goal with
  | |- True => exact I
  | H : _ |- _ => exact H
  | H : _ |- _ => symmetry; exact H
  | |- _ => reflexivity
  end.
Ltac sem_auto tac :=
  multimatch goal with
  | |- True => exact I
  | |- _ /\ _ => split; sem_auto tac
  | |- _ \/ _ => (left; sem_auto tac) + (right; sem_auto tac)
  | |- exists _, _ => eexists; sem_auto tac
  | |- _ => sem_leaf + tac
  end.
(* the body of table entry r is `body` *)
Ltac table_entry Hb := simpl in Hb; inversion Hb; subst; clear Hb.

(* ================================================================================================ *)
(* the non-recursive helpers (any table) *)
Section Helpers.
  Variable ds : defs.

  Theorem nullo_den x ve : Den ds (GLet [x] nullo_body) ve <-> close ve x = TNil.
  Proof. rewrite <- sem_den. unfold nullo_body. simpl. reflexivity. Qed.

  Theorem conso_den a d p ve :
    Den ds (GLet [a; d; p] conso_body) ve <-> close ve p = TPair (close ve a) (close ve d).
  Proof. rewrite <- sem_den. unfold conso_body. simpl. split; intros H; symmetry; exact H. Qed.

  Theorem caro_den p a ve : Den ds (GLet [p; a] caro_body) ve <-> exists d, close ve p = TPair (close ve a) d.
  Proof.
    rewrite <- sem_den. unfold caro_body. simpl.
    split; intros [d H]; exists d; symmetry; exact H.
  Qed.

  Theorem prependo_den h t l ve :
    Den ds (GLet [h; t; l] prependo_body) ve <-> close ve l = TPair (close ve h) (close ve t).
  Proof. rewrite <- sem_den. unfold prependo_body. simpl. reflexivity. Qed.
End Helpers.
Print Assumptions nullo_den.
Print Assumptions conso_den.
Print Assumptions caro_den.
Print Assumptions prependo_den.

(* ================================================================================================ *)
(* pure list facts *)

(* a list of length n has exactly its n+1 splits *)
Theorem append_splits os L T :
  (exists xs, L = tlist xs TNil /\ tlist os TNil = tlist xs T) <->
  (exists k, (k <= length os)%nat /\ L = tlist (firstn k os) TNil /\ T = tlist (skipn k os) TNil).
Proof.
  split.
  - intros [xs [HL HO]]. subst L. revert os HO.
    induction xs as [|x xs IH]; intros os HO.
    + exists 0%nat. simpl in *. split; [lia|]. split; [reflexivity|]. symmetry. exact HO.
    + destruct os as [|o os]; simpl in HO; [discriminate|]. inversion HO; subst.
      destruct (IH os H1) as [k [Hk [E1 E2]]]. exists (S k). simpl. split; [lia|].
      split; [rewrite E1; reflexivity|exact E2].
  - intros [k [Hk [HL HT]]]. exists (firstn k os). split; [exact HL|]. subst T.
    rewrite <- tlist_app, firstn_skipn. reflexivity.
Qed.
Print Assumptions append_splits.

Lemma tlist_member : forall l a, (exists pre rest, tlist l TNil = tlist pre (TPair a rest)) <-> In a l.
Proof.
  intros l a. split.
  - intros [pre [rest H]]. revert l H. induction pre as [|p pre IH]; intros l H.
    + destruct l as [|x l]; simpl in H; [discriminate|]. inversion H. left. reflexivity.
    + destruct l as [|x l]; simpl in H; [discriminate|]. inversion H. right. eapply IH; eauto.
  - intros H. apply in_split in H. destruct H as [l1 [l2 E]]. subst l.
    exists l1, (tlist l2 TNil). rewrite tlist_app. reflexivity.
Qed.

(* ================================================================================================ *)
Section Mini.
  (* the goal that applies MapO's function argument f to two terms *)
  Variable fcall : list pterm -> goal.
  Notation ds := (mini_defs fcall).

  (* ---------- AppendO(l, t, out): environment [out; t; l] ---------- *)

  Definition app_spec (env : list term) : Prop :=
    exists xs, nth 2 env TNil = tlist xs TNil /\ nth 0 env TNil = tlist xs (nth 1 env TNil).

  Lemma append_core env : DenCall ds appendo_idx env <-> app_spec env.
  Proof.
    split.
    - intros H. refine (call_lfp ds (fun r e => r = appendo_idx -> app_spec e) _ _ _ H eq_refl).
      clear env H. intros r body env Hb HS Hr. subst r. unfold mini_defs, appendo_idx in Hb. table_entry Hb.
      unfold appendo_body, nullo_body, conso_body in HS. simpl in HS. sem_destruct;
        try match goal with H : _ -> app_spec _ |- _ => destruct (H eq_refl) as [xs [E1 E2]]; simpl in E1, E2 end;
        first [ exists []; simpl; split; congruence
              | match goal with a : term |- _ => exists (a :: xs); simpl; split; congruence end ].
    - intros [xs [H2 H0]]. revert env H2 H0. induction xs as [|x xs IH]; intros env H2 H0; simpl in H2, H0;
        (exists appendo_body; split; [reflexivity|]); den_simpl; unfold appendo_body, nullo_body, conso_body; simpl.
      + sem_auto fail.
      + sem_auto ltac:(apply IH; simpl; reflexivity).
  Qed.

  Theorem append_den l t o ve :
    Den ds (GCall appendo_idx [l; t; o]) ve <->
    exists xs, close ve l = tlist xs TNil /\ close ve o = tlist xs (close ve t).
  Proof. rewrite den_call_iff, append_core. unfold app_spec, arg_env. simpl. reflexivity. Qed.

  (* ---------- MemberO(x, y): environment [y; x] ---------- *)

  Definition mem_spec (env : list term) : Prop :=
    exists pre rest, nth 0 env TNil = tlist pre (TPair (nth 1 env TNil) rest).

  Lemma member_core env : DenCall ds membero_idx env <-> mem_spec env.
  Proof.
    split.
    - intros H. refine (call_lfp ds (fun r e => r = membero_idx -> mem_spec e) _ _ _ H eq_refl).
      clear env H. intros r body env Hb HS Hr. subst r. unfold mini_defs, membero_idx in Hb. table_entry Hb.
      unfold membero_body in HS. simpl in HS. sem_destruct;
        try match goal with H : _ -> mem_spec _ |- _ => destruct (H eq_refl) as [pre [rest E]]; simpl in E end;
        first [ match goal with d : term |- _ => exists [], d; simpl; congruence end
              | match goal with a : term |- _ => exists (a :: pre), rest; simpl; congruence end ].
    - intros [pre [rest H0]]. revert env H0. induction pre as [|p pre IH]; intros env H0; simpl in H0;
        (exists membero_body; split; [reflexivity|]); den_simpl; unfold membero_body; simpl.
      + sem_auto fail.
      + sem_auto ltac:(apply IH; simpl; reflexivity).
  Qed.

  Theorem member_den x y ve :
    Den ds (GCall membero_idx [x; y]) ve <->
    exists pre rest, close ve y = tlist pre (TPair (close ve x) rest).
  Proof. rewrite den_call_iff, member_core. unfold mem_spec, arg_env. simpl. reflexivity. Qed.

  (* ---------- the table: delayed recursion, relational ---------- *)

  Theorem mini_defs_ok : (forall args, calls_okb ds (fcall args) = true) -> defs_ok ds.
  Proof.
    intros Hf r body Hb. unfold mini_defs in Hb.
    destruct r as [|[|[|r]]]; simpl in Hb; try (destruct r; discriminate); inversion Hb; subst body; clear Hb.
    - split; reflexivity.
    - split; reflexivity.
    - split; [reflexivity|]. unfold mapo_body. simpl. rewrite Hf. reflexivity.
  Qed.

  Theorem mini_defs_relational : (forall args, relational (fcall args) = true) -> defs_relational ds.
  Proof.
    intros Hf r body Hb. unfold mini_defs in Hb.
    destruct r as [|[|[|r]]]; simpl in Hb; try (destruct r; discriminate); inversion Hb; subst body; clear Hb.
    - reflexivity.
    - reflexivity.
    - unfold mapo_body. simpl. rewrite Hf. reflexivity.
  Qed.

  (* ---------- MapO(x, y) with f: environment [y; x] ---------- *)
  Section MapO.
    Variable R : term -> term -> Prop.
    Hypothesis HR : forall ve a b, Den ds (fcall [a; b]) ve <-> R (close ve a) (close ve b).

    Definition map_spec (env : list term) : Prop :=
      exists xs ys, nth 1 env TNil = tlist xs TNil /\ nth 0 env TNil = tlist ys TNil /\ Forall2 R xs ys.

    Lemma map_core env : DenCall ds mapo_idx env <-> map_spec env.
    Proof.
      split.
      - intros H. refine (call_lfp ds (fun r e => r = mapo_idx -> map_spec e) _ _ _ H eq_refl).
        clear env H. intros r body env Hb HS Hr. subst r. unfold mini_defs, mapo_idx in Hb. table_entry Hb.
        unfold mapo_body in HS. simpl in HS. sem_destruct;
          try match goal with
              | H : _ -> map_spec _ |- _ => destruct (H eq_refl) as [xs [ys [E1 [E0 F]]]]; simpl in E1, E0
              end;
          try match goal with H : Sem _ (fcall _) _ |- _ => apply sem_spec_den in H; apply HR in H; simpl in H end;
          first [ exists [], []; simpl; split; [congruence|split; [congruence|constructor]]
                | match goal with
                  | xa : term, ya : term |- _ =>
                      exists (xa :: xs), (ya :: ys); simpl;
                      split; [congruence|split; [congruence|constructor; assumption]]
                  end ].
      - intros [xs [ys [H1 [H0 F]]]]. revert env H1 H0. induction F as [|x y xs ys Hxy F IH]; intros env H1 H0;
          simpl in H1, H0; (exists (mapo_body fcall); split; [reflexivity|]); den_simpl; unfold mapo_body; simpl.
        + sem_auto fail.
        + sem_auto ltac:(first [apply IH; simpl; reflexivity | apply sem_den; apply HR; simpl; exact Hxy]).
    Qed.

    Theorem map_den x y ve :
      Den ds (GCall mapo_idx [x; y]) ve <->
      exists xs ys, close ve x = tlist xs TNil /\ close ve y = tlist ys TNil /\ Forall2 R xs ys.
    Proof. rewrite den_call_iff, map_core. unfold map_spec, arg_env. simpl. reflexivity. Qed.
  End MapO.
End Mini.
Print Assumptions append_den.
Print Assumptions member_den.
Print Assumptions mini_defs_ok.
Print Assumptions mini_defs_relational.
Print Assumptions map_den.

(* ================================================================================================ *)
(* gomini/concato: ConcatO(xs, ys, zs), environment [zs; ys; xs] *)

Lemma concat_core env : DenCall concato_defs concato_idx env <-> app_spec env.
Proof.
  split.
  - intros H. refine (call_lfp concato_defs (fun r e => r = concato_idx -> app_spec e) _ _ _ H eq_refl).
    clear env H. intros r body env Hb HS Hr. subst r. unfold concato_defs, concato_idx in Hb. table_entry Hb.
    unfold concato_body in HS. simpl in HS. sem_destruct;
      try match goal with H : _ -> app_spec _ |- _ => destruct (H eq_refl) as [xs [E1 E2]]; simpl in E1, E2 end;
      first [ exists []; simpl; split; congruence
            | match goal with a : term |- _ => exists (a :: xs); simpl; split; congruence end ].
  - intros [xs [H2 H0]]. revert env H2 H0. induction xs as [|x xs IH]; intros env H2 H0; simpl in H2, H0;
      (exists concato_body; split; [reflexivity|]); den_simpl; unfold concato_body; simpl.
    + sem_auto fail.
    + sem_auto ltac:(apply IH; simpl; reflexivity).
Qed.

Theorem concat_den xs ys zs ve :
  Den concato_defs (GCall concato_idx [xs; ys; zs]) ve <->
  exists l, close ve xs = tlist l TNil /\ close ve zs = tlist l (close ve ys).
Proof. rewrite den_call_iff, concat_core. unfold app_spec, arg_env. simpl. reflexivity. Qed.
Print Assumptions concat_den.

(* the two engines (mini.AppendO on S-expressions, gomini ConcatO) define the same relation *)
Theorem engines_agree fcall a b c ve :
  Den concato_defs (GCall concato_idx [a; b; c]) ve <-> Den (mini_defs fcall) (GCall appendo_idx [a; b; c]) ve.
Proof. rewrite concat_den, append_den. reflexivity. Qed.
Print Assumptions engines_agree.

(* ================================================================================================ *)
(* end to end: the answers of the search for AppendO *)

Lemma ufuel_ok : uf_ok ufuel.
Proof. intros u v s Hwf. apply ufuel_enough. exact Hwf. Qed.

(* every instantiation of every answer is a concatenation (and still solves the start state) *)
Theorem append_search_sound fcall l t o e st x :
  wf_state st -> env_ok e (ctr st) ->
  InStream (mini_defs fcall) ufuel x (eval (mini_defs fcall) ufuel (GCall appendo_idx [l; t; o]) e st) ->
  forall r, sat r (sub x) ->
    sat r (sub st) /\
    exists xs, inst r (close e l) = tlist xs TNil /\ inst r (close e o) = tlist xs (inst r (close e t)).
Proof.
  intros Hwf He Hin r Hr.
  destruct (eval_sound _ _ _ _ _ _ Hwf He Hin) as [_ [_ [_ Hs]]].
  destruct (Hs r Hr) as [H0 Hd]. split; [exact H0|].
  apply append_den in Hd. rewrite !inst_close. exact Hd.
Qed.
Print Assumptions append_search_sound.

(* every concatenation that solves the start state is, below the counter, an instance of an answer that occurs
   at a finite position of the stream *)
Theorem append_search_complete fcall l t o e st r xs :
  (forall args, calls_okb (mini_defs fcall) (fcall args) = true) ->
  (forall args, relational (fcall args) = true) ->
  wf_state st -> env_ok e (ctr st) -> sat r (sub st) ->
  inst r (close e l) = tlist xs TNil -> inst r (close e o) = tlist xs (inst r (close e t)) ->
  exists x r',
    InStream (mini_defs fcall) ufuel x (eval (mini_defs fcall) ufuel (GCall appendo_idx [l; t; o]) e st) /\
    (exists f n ans, take (mini_defs fcall) ufuel f n
                       (eval (mini_defs fcall) ufuel (GCall appendo_idx [l; t; o]) e st) = Some ans /\ In x ans) /\
    sat r' (sub x) /\ (forall y, (y < ctr st)%N -> r' y = r y).
Proof.
  intros Hc Hrl Hwf He Hs E1 E2.
  assert (Hd: Den (mini_defs fcall) (GCall appendo_idx [l; t; o]) (map (inst r) e)).
  { apply append_den. exists xs. rewrite <- !inst_close. split; assumption. }
  destruct (eval_complete (mini_defs fcall) ufuel ufuel_ok (mini_defs_ok fcall Hc) (mini_defs_relational fcall Hrl)
              _ _ Hd e st r eq_refl eq_refl eq_refl Hwf He Hs) as [x [r' [Hin [Hs' Hag]]]].
  exists x, r'. split; [exact Hin|]. split; [|split; assumption].
  apply eval_complete_take. exact Hin.
Qed.
Print Assumptions append_search_complete.

(* ================================================================================================ *)
(* non-vacuity of the hypotheses on MapO's function argument: f := EqualO *)
Definition fcall_eq (args : list pterm) : goal := GEq (nth 0 args PNil) (nth 1 args PNil).

Lemma fcall_eq_ok :
  (forall ve a b, Den (mini_defs fcall_eq) (fcall_eq [a; b]) ve <-> close ve a = close ve b) /\
  (forall args, calls_okb (mini_defs fcall_eq) (fcall_eq args) = true) /\
  (forall args, relational (fcall_eq args) = true).
Proof. split; [intros; apply den_eq|split; reflexivity]. Qed.

Example map_eq_den x y ve :
  Den (mini_defs fcall_eq) (GCall mapo_idx [x; y]) ve <->
  exists xs, close ve x = tlist xs TNil /\ close ve y = tlist xs TNil.
Proof.
  rewrite (map_den fcall_eq eq (proj1 fcall_eq_ok)). split.
  - intros [xs [ys [Hx [Hy F]]]]. exists xs. split; [exact Hx|]. rewrite Hy. f_equal.
    clear Hx Hy. induction F; congruence.
  - intros [xs [Hx Hy]]. exists xs, xs. repeat split; try assumption.
    clear Hx Hy. induction xs; constructor; auto.
Qed.
Print Assumptions map_eq_den.
