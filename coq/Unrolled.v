(* mini/unroll.go: the Go meta-programs MemberOUnrolled, MapOUnrolled, MapODoubleUnrolled build a goal from a proper
   list that is known when the goal is built.  Models of the goals they build, and: the unrolled goal has the same
   logical reading as the recursive relation (GENERATED bodies of gen/RelMini.v) called on that list.

   MemberOUnrolled(y)(x):   DisjPlus(EqualO(x, car_0), ..., EqualO(x, car_{n-1}))

   MapOUnrolled(list)(f, x) with n = len(list); the Go loop is
       for i := 0; i < n; i++ { v := NewVariable(); gs[n-i] = goals[n-i-1](f, v); cons = Cons(v, cons) }
       gs[0] = EqualO(x, cons); return ConjPlus(gs...)
   so with v_i the variable made in round i:  cons = (v_{n-1} v_{n-2} ... v_0)  and  gs[j] = f(v_{n-j}, car_{j-1}),
   i.e. writing w_p := v_{n-1-p} for the p-th element of cons:
       ConjPlus(EqualO(x, (w_0 ... w_{n-1})), f(w_0, car_0), ..., f(w_{n-1}, car_{n-1})).
   ast.NewVariable draws a random index; that the v_i differ from each other and from all other variables is an
   ASSUMPTION of this model, which binds them with n nested GFresh, v_0 outermost: under the n binders v_i is the
   de Bruijn index n-1-i, hence w_p = PB p.  x and the cars live outside the binders and are shifted by n.
   MapODoubleUnrolled(f, list)(x) builds the same goal (f is merely supplied earlier). *)
From Coq Require Import List NArith ZArith Bool Lia Arith Setoid Morphisms.
From GMK Require Import Term Unify UnifyTotal Goal Stream Den InStream Sound Complete ListRel.
From GMK.gen Require Import RelMini RelPeano RelConcato.
Import ListNotations.

(* the program term of a proper list *)
Definition plist (ys : list pterm) : pterm := fold_right PPair PNil ys.

Lemma close_plist ve ys : close ve (plist ys) = tlist (map (close ve) ys) TNil.
Proof. induction ys as [|y ys IH]; simpl; [reflexivity|rewrite IH; reflexivity]. Qed.

(* de Bruijn shifting: the term moved under k more binders *)
Fixpoint shift (k : nat) (t : pterm) : pterm :=
  match t with
  | PB i => PB (i + k)
  | PPair a d => PPair (shift k a) (shift k d)
  | _ => t
  end.

Lemma close_shift ts ve t : close (ts ++ ve) (shift (length ts) t) = close ve t.
Proof.
  induction t as [| a | i | a IHa d IHd]; simpl; auto.
  - rewrite app_nth2 by lia. f_equal. lia.
  - rewrite IHa, IHd. reflexivity.
Qed.

Fixpoint nfresh (n : nat) (g : goal) : goal :=
  match n with O => g | S k => GFresh (nfresh k g) end.

Lemma den_nfresh ds g : forall n ve,
  Den ds (nfresh n g) ve <-> exists ts, length ts = n /\ Den ds g (ts ++ ve).
Proof.
  induction n as [|n IH]; intros ve; simpl.
  - split.
    + intros H. exists []. split; [reflexivity|exact H].
    + intros [ts [L H]]. destruct ts; [exact H|discriminate].
  - rewrite den_fresh. split.
    + intros [t H]. apply IH in H. destruct H as [ts [L H]]. exists (ts ++ [t]).
      split; [rewrite app_length; simpl; lia|]. rewrite <- app_assoc. exact H.
    + intros [ts [L H]]. destruct (exists_last (l := ts)) as [ts' [t E]]; [intros E; subst; discriminate|].
      subst ts. rewrite app_length in L. simpl in L. exists t. apply IH. exists ts'.
      split; [lia|]. rewrite <- app_assoc in H. exact H.
Qed.

(* ================================================================================================ *)
(* MemberOUnrolled *)

Definition membero_unrolled (ys : list pterm) (x : pterm) : goal :=
  GDisjPlus true (map (fun y => GEq x y) ys).

Theorem member_unrolled_den ds ys x ve :
  Den ds (membero_unrolled ys x) ve <-> In (close ve x) (map (close ve) ys).
Proof.
  unfold membero_unrolled. rewrite den_disjplus, Exists_map, Exists_exists, in_map_iff.
  split.
  - intros [y [Hin H]]. apply den_eq in H. exists y. split; [symmetry; exact H|exact Hin].
  - intros [y [E Hin]]. exists y. split; [exact Hin|]. apply den_eq. symmetry. exact E.
Qed.
Print Assumptions member_unrolled_den.

Section Unrolled.
  Variable fcall : list pterm -> goal.
  Notation ds := (mini_defs fcall).

  (* MemberO called on the proper list (y_0 ... y_{n-1}) = its unrolling *)
  Theorem member_unrolled_eq ys x ve :
    Den ds (GCall membero_idx [x; plist ys]) ve <-> Den ds (membero_unrolled ys x) ve.
  Proof.
    rewrite member_den, member_unrolled_den, close_plist. apply tlist_member.
  Qed.

  (* ---------- MapOUnrolled ---------- *)

  (* f(w_p, car_p), f(w_{p+1}, car_{p+1}), ... under n binders *)
  Fixpoint fgoals (n p : nat) (cars : list pterm) : list goal :=
    match cars with
    | [] => []
    | c :: rest => fcall [PB p; shift n c] :: fgoals n (S p) rest
    end.

  Definition mapo_unrolled (cars : list pterm) (x : pterm) : goal :=
    let n := length cars in
    nfresh n (GConjPlus true (GEq (shift n x) (plist (map PB (seq 0 n))) :: fgoals n 0 cars)).

  (* MapODoubleUnrolled(f, list)(x): the same goal *)
  Definition mapo_double_unrolled (cars : list pterm) (x : pterm) : goal := mapo_unrolled cars x.

  Lemma close_vars_seq ve : forall ts pre,
    close (pre ++ ts ++ ve) (plist (map PB (seq (length pre) (length ts)))) = tlist ts TNil.
  Proof.
    induction ts as [|t ts IH]; intros pre; simpl; [reflexivity|].
    rewrite app_nth2 by lia. rewrite Nat.sub_diag. simpl. f_equal.
    specialize (IH (pre ++ [t])). rewrite app_length in IH. simpl in IH.
    rewrite <- app_assoc in IH. simpl in IH. rewrite Nat.add_1_r in IH. exact IH.
  Qed.

  Section MapR.
    Variable R : term -> term -> Prop.
    Hypothesis HR : forall ve a b, Den ds (fcall [a; b]) ve <-> R (close ve a) (close ve b).

    Lemma den_fgoals ve : forall ts cars pre, length ts = length cars ->
      (Forall (fun g => Den ds g (pre ++ ts ++ ve)) (fgoals (length pre + length ts) (length pre) cars) <->
       Forall2 R ts (map (close ve) cars)).
    Proof.
      induction ts as [|t ts IH]; intros cars pre L; destruct cars as [|c cars]; simpl in L; try discriminate.
      - simpl. split; constructor.
      - injection L as L. cbn [fgoals map length].
        assert (E1: close (pre ++ (t :: ts) ++ ve) (PB (length pre)) = t).
        { simpl. rewrite app_nth2 by lia. rewrite Nat.sub_diag. reflexivity. }
        assert (E2: close (pre ++ (t :: ts) ++ ve) (shift (length pre + S (length ts)) c) = close ve c).
        { change (S (length ts)) with (length (t :: ts)). rewrite app_assoc, <- app_length. apply close_shift. }
        specialize (IH cars (pre ++ [t]) L). rewrite app_length in IH. simpl in IH.
        rewrite <- app_assoc in IH. simpl in IH.
        replace (length pre + 1 + length ts)%nat with (length pre + S (length ts))%nat in IH by lia.
        rewrite Nat.add_1_r in IH.
        split.
        + intros H. inversion H; subst. constructor.
          * apply HR in H2. rewrite E1, E2 in H2. exact H2.
          * apply IH. assumption.
        + intros H. inversion H; subst. constructor.
          * apply HR. rewrite E1, E2. assumption.
          * apply IH. assumption.
    Qed.

    Theorem map_unrolled_spec cars x ve :
      Den ds (mapo_unrolled cars x) ve <->
      exists ws, close ve x = tlist ws TNil /\ Forall2 R ws (map (close ve) cars).
    Proof.
      unfold mapo_unrolled. rewrite den_nfresh. split.
      - intros [ts [L H]]. apply den_conjplus in H. inversion H as [|g gs Hq Hf]; subst. clear H.
        apply den_eq in Hq. rewrite <- L in Hq at 1. rewrite close_shift in Hq.
        pose proof (close_vars_seq ve ts []) as Ev. simpl in Ev. rewrite <- L, Ev in Hq.
        exists ts. split; [exact Hq|].
        apply (den_fgoals ve ts cars [] L). simpl. rewrite L. exact Hf.
      - intros [ws [Hq Hf]].
        assert (L: length ws = length cars).
        { rewrite <- (map_length (close ve) cars). clear Hq. induction Hf; simpl; congruence. }
        exists ws. split; [exact L|]. apply den_conjplus. constructor.
        + apply den_eq. rewrite <- L at 1. rewrite close_shift.
          pose proof (close_vars_seq ve ws []) as Ev. simpl in Ev. rewrite <- L, Ev. exact Hq.
        + apply (den_fgoals ve ws cars [] L) in Hf. simpl in Hf. rewrite L in Hf. exact Hf.
    Qed.

    (* MapO(f, x, (car_0 ... car_{n-1})) = its unrolling; f relates x_i (first argument) with car_i (second) *)
    Theorem map_unrolled_den cars x ve :
      Den ds (mapo_unrolled cars x) ve <-> Den ds (GCall mapo_idx [x; plist cars]) ve.
    Proof.
      rewrite map_unrolled_spec, (map_den fcall R HR), close_plist. split.
      - intros [ws [Hq Hf]]. exists ws, (map (close ve) cars). auto.
      - intros [xs [ys [Hx [Hy Hf]]]]. apply tlist_inj in Hy. subst ys. exists xs. auto.
    Qed.

    Corollary map_double_unrolled_den cars x ve :
      Den ds (mapo_double_unrolled cars x) ve <-> Den ds (GCall mapo_idx [x; plist cars]) ve.
    Proof. apply map_unrolled_den. Qed.
  End MapR.
End Unrolled.
Print Assumptions member_unrolled_eq.
Print Assumptions map_unrolled_spec.
Print Assumptions map_unrolled_den.
Print Assumptions map_double_unrolled_den.
