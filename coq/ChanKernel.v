(* L5 protocol kernel (C06): the channel / WaitGroup protocol of ONE DisjO node (gomini/operators.go:75-88 with
   limit.go:Go and stream.go:NewStreamForGoal), as a labelled transition system over all schedules.  No proofs here.

     NewStreamForGoal:  ss := make(chan *State); go func() { defer close(ss); g(ctx, s, ss) }()      (the creator)
     DisjO body (g):    wait := sync.WaitGroup{}; for i := range gs { Go(ctx, &wait, child_i) }; wait.Wait()
     Go:                w.Add(1); go func() { defer w.Done(); f() }()          -- Add BEFORE the go statement
     child_i:           writes m_i states to the shared unbuffered ss, then returns (then the deferred Done runs)
     consumer:          receives from ss until it is closed (always ready; a send is a rendezvous with it)

   A schedule is a list of labels; a label that is not enabled yields None.  `bad` records the three run-time panics
   of the protocol: send on a closed channel, close of a closed channel, negative WaitGroup counter.
   Only the creator ever closes ss, and only after g returned; the children of nested nodes behave like child_i
   (they write to the same ss and have returned before their parent's Wait does), which is why one node suffices.
   Not modelled: ctx cancellation (every send/receive then also has a ctx.Done() alternative, which only removes
   sends), the goroutine limiter of limit.go (it only delays LGo). *)
From Coq Require Import List ZArith Bool Arith.
Import ListNotations.

Inductive kid := KRun (n : nat) (* started, n sends still to do *) | KDone (* returned and Done() executed *).
Inductive ppc := PLoop (* in the for loop *) | PWait (* blocked in wait.Wait() *) | PRet (* g returned *).

Record kst := mkK {
  todo : list nat;      (* children not yet started: their numbers of answers *)
  added : bool;         (* w.Add(1) executed for the head of todo, its go statement not yet *)
  kids : list kid;      (* started children *)
  pc : ppc;
  wg : Z;               (* WaitGroup counter *)
  closed : bool;        (* ss is closed *)
  cdone : bool;         (* the creator's deferred close has run *)
  bad : bool;           (* a panic happened *)
  delivered : nat       (* states received by the consumer *)
}.

Inductive label := LAdd | LGo | LLoopEnd | LWait | LSend (j : nat) | LDone (j : nat) | LClose.

Fixpoint set_nth {A : Type} (l : list A) (i : nat) (x : A) : list A :=
  match l, i with
  | [], _ => []
  | _ :: tl, O => x :: tl
  | a :: tl, S i' => a :: set_nth tl i' x
  end.

Definition kstep (s : kst) (l : label) : option kst :=
  match l with
  | LAdd =>
      match pc s, todo s, added s with
      | PLoop, _ :: _, false =>
          Some (mkK (todo s) true (kids s) PLoop (wg s + 1) (closed s) (cdone s) (bad s) (delivered s))
      | _, _, _ => None
      end
  | LGo =>
      match pc s, todo s, added s with
      | PLoop, m :: r, true =>
          Some (mkK r false (kids s ++ [KRun m]) PLoop (wg s) (closed s) (cdone s) (bad s) (delivered s))
      | _, _, _ => None
      end
  | LLoopEnd =>
      match pc s, todo s with
      | PLoop, [] => Some (mkK [] (added s) (kids s) PWait (wg s) (closed s) (cdone s) (bad s) (delivered s))
      | _, _ => None
      end
  | LWait =>   (* Wait() returns only when the counter is zero *)
      match pc s with
      | PWait => if Z.eqb (wg s) 0
                 then Some (mkK (todo s) (added s) (kids s) PRet (wg s) (closed s) (cdone s) (bad s) (delivered s))
                 else None
      | _ => None
      end
  | LSend j =>  (* child j sends, the consumer receives; on a closed channel the send panics *)
      match nth_error (kids s) j with
      | Some (KRun (S n)) =>
          Some (mkK (todo s) (added s) (set_nth (kids s) j (KRun n)) (pc s) (wg s) (closed s) (cdone s)
                    (bad s || closed s) (if closed s then delivered s else S (delivered s)))
      | _ => None
      end
  | LDone j =>  (* child j has returned; its deferred w.Done() runs *)
      match nth_error (kids s) j with
      | Some (KRun O) =>
          Some (mkK (todo s) (added s) (set_nth (kids s) j KDone) (pc s) (wg s - 1) (closed s) (cdone s)
                    (bad s || (wg s - 1 <? 0)%Z) (delivered s))
      | _ => None
      end
  | LClose =>   (* the creator's deferred close(ss), after g returned *)
      match pc s with
      | PRet => if cdone s then None
                else Some (mkK (todo s) (added s) (kids s) PRet (wg s) true true (bad s || closed s) (delivered s))
      | _ => None
      end
  end.

Fixpoint krun (s : kst) (ls : list label) : option kst :=
  match ls with
  | [] => Some s
  | l :: r => match kstep s l with Some s' => krun s' r | None => None end
  end.

(* a DisjO node whose children have ms answers *)
Definition kinit (ms : list nat) : kst := mkK ms false [] PLoop 0 false false false 0.

Definition count_run (ks : list kid) : nat :=
  length (filter (fun k => match k with KRun _ => true | KDone => false end) ks).
Definition remaining (ks : list kid) : nat :=
  fold_right (fun k acc => match k with KRun n => n + acc | KDone => acc end) 0 ks.
Definition total (ms : list nat) : nat := fold_right Nat.add 0 ms.

(* the variant with w.Add(1) executed INSIDE the new goroutine instead of before the go statement: Wait can return
   while a child has not yet been counted *)
Definition kstep_add_in_child (s : kst) (l : label) : option kst :=
  match l with
  | LAdd => None
  | LGo =>
      match pc s, todo s with
      | PLoop, m :: r =>
          Some (mkK r false (kids s ++ [KRun m]) PLoop (wg s) (closed s) (cdone s) (bad s) (delivered s))
      | _, _ => None
      end
  | _ => kstep s l
  end.
Fixpoint krun_add_in_child (s : kst) (ls : list label) : option kst :=
  match ls with
  | [] => Some s
  | l :: r => match kstep_add_in_child s l with Some s' => krun_add_in_child s' r | None => None end
  end.
