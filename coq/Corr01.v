(* Correspondence for C01: implementation observations of micro's walk/occurs/exts/unify/walkStar/EqualO against the model. *)
From Coq Require Import List NArith ZArith Bool.
From GMK Require Import Term Unify CorrBase.
Import ListNotations.

Definition F01 : nat := 400.

Definition pair_eqb (p q : N * term) : bool := N.eqb (fst p) (fst q) && term_eqb (snd p) (snd q).
Definition subst_eqb (s s' : subst) : bool := list_eqb pair_eqb s s'.

Fixpoint is_prefix (s s' : subst) : bool :=
  match s, s' with
  | [], _ => true
  | p :: r, q :: r' => pair_eqb p q && is_prefix r r'
  | _ :: _, [] => false
  end.

(* canonical renaming of variables by first occurrence, threaded left to right through a list of terms *)
Fixpoint lookupN (x : N) (m : list (N * N)) : option N :=
  match m with [] => None | (k, v) :: r => if N.eqb k x then Some v else lookupN x r end.
Fixpoint canon_t (t : term) (m : list (N * N)) : term * list (N * N) :=
  match t with
  | TVar x => match lookupN x m with
              | Some k => (TVar k, m)
              | None => let k := N.of_nat (length m) in (TVar k, m ++ [(x, k)])
              end
  | TPair a d => let '(a', m1) := canon_t a m in let '(d', m2) := canon_t d m1 in (TPair a' d', m2)
  | _ => (t, m)
  end.
Fixpoint canon_l (l : list term) (m : list (N * N)) : list term :=
  match l with [] => [] | t :: r => let '(t', m') := canon_t t m in t' :: canon_l r m' end.

Definition subst_vars (s : subst) : list N := flat_map (fun p => fst p :: vars (snd p)) s.

Definition resolve_all (univ : list N) (s : subst) : option (list term) :=
  fold_right (fun x acc => match walkstar F01 (TVar x) s, acc with
                           | Some t, Some l => Some (t :: l) | _, _ => None end) (Some []) univ.

(* two substitutions denote the same unifier up to a renaming of the unbound variables *)
Definition same_unifier (univ : list N) (s1 s2 : subst) : bool :=
  match resolve_all univ s1, resolve_all univ s2 with
  | Some l1, Some l2 => list_eqb term_eqb (canon_l l1 []) (canon_l l2 [])
  | _, _ => false
  end.

Inductive case01 :=
| CUnify (u v : term) (s : subst) (ok : bool) (s' : subst)     (* unify(u,v,s) = (s', ok) *)
| CEqualO (u v : term) (s : subst) (c : N) (outs : list (subst * N))  (* states of the stream EqualO(u,v)(&State{s,c}) *)
| CWalk (x : N) (s : subst) (t : term)
| COccurs (x : N) (v : term) (s : subst) (b : bool)
| CExts (x : N) (v : term) (s : subst) (ok : bool) (s' : subst)
| CWalkStar (t : term) (s : subst) (r : term).

Definition opt_term_eqb := opt_eqb term_eqb.

Definition check_unify (u v : term) (s : subst) (ok : bool) (s' : subst) : bool :=
  match unify F01 u v s with
  | Ok sm => ok && is_prefix s s' && same_unifier (vars u ++ vars v ++ subst_vars s) sm s'
  | Fail => negb ok
  | OOF => false
  end.

Definition check01 (c : case01) : bool :=
  match c with
  | CUnify u v s ok s' => check_unify u v s ok s'
  | CEqualO u v s c outs =>
      match outs with
      | [] => check_unify u v s false []
      | [(s', c')] => N.eqb c c' && check_unify u v s true s'
      | _ => false
      end
  | CWalk x s t => opt_term_eqb (walk F01 x s) (Some t)
  | COccurs x v s b => opt_eqb Bool.eqb (occurs F01 x v s) (Some b)
  | CExts x v s ok s' =>
      match exts F01 x v s with
      | Ok sm => ok && subst_eqb sm s'
      | Fail => negb ok
      | OOF => false
      end
  | CWalkStar t s r => opt_term_eqb (walkstar F01 t s) (Some r)
  end.
