(* The target of the Go -> Gallina translator harness/cmd/genmicro: a result monad with the two ways a Go function of the
   translated subset can fail to return (recursion deeper than the fuel, a run-time panic), and the primitive operations
   of the subset over the term model of Term.v.  Model only: no proofs here.

   *ast.SExpr is `term` (a nil pointer is TNil), *ast.Variable is its Index (`N`; assv and Variable.Equal look at the Index
   only), Substitutions is `subst` in slice order (nil and the empty slice are both []), SubPair is a pair. *)
From Coq Require Import List NArith ZArith Bool.
From GMK Require Import Term Reify.
Import ListNotations.

Inductive R (A : Type) := Ret (a : A) | OOF_ | Panic.
Arguments Ret {A} a. Arguments OOF_ {A}. Arguments Panic {A}.

Definition bind {A B : Type} (m : R A) (k : A -> R B) : R B :=
  match m with Ret a => k a | OOF_ => OOF_ | Panic => Panic end.

(* s.IsVariable(): s != nil && s.Atom != nil && s.Atom.Var != nil;  s.IsPair(): s != nil && s.Pair != nil *)
Definition is_variable (t : term) : bool := match t with TVar _ => true | _ => false end.
Definition is_pair (t : term) : bool := match t with TPair _ _ => true | _ => false end.

(* s.Atom.Var: nil dereference on nil and on a pair; on another atom it is a nil *Variable whose every use in the subset
   (.Index, .Equal, assv's v.Index) dereferences it - the model panics at the selection *)
Definition sx_var (t : term) : R N := match t with TVar x => Ret x | _ => Panic end.
(* s.Car(), s.Cdr() ("not implemented for atom"), s.Pair.Car, s.Pair.Cdr (nil dereference) *)
Definition sx_car (t : term) : R term := match t with TPair a _ => Ret a | _ => Panic end.
Definition sx_cdr (t : term) : R term := match t with TPair _ d => Ret d | _ => Panic end.

Definition subst_is_nil (s : subst) : bool := match s with [] => true | _ => false end.
Definition term_is_nil (t : term) : bool := match t with TNil => true | _ => false end.

(* make(Substitutions, n): n zero values;  copy(m, s): min(len) elements;  m[i] = p: index out of range panics *)
Definition make_subst (n : nat) : subst := repeat (0%N, TNil) n.
Definition slice_copy (m s : subst) : subst := firstn (length m) s ++ skipn (length s) m.
Fixpoint slice_set (m : subst) (i : nat) (p : N * term) : R subst :=
  match m, i with
  | [], _ => Panic
  | _ :: r, O => Ret (p :: r)
  | x :: r, S i' => bind (slice_set r i' p) (fun r' => Ret (x :: r'))
  end.

(* reifyName(n) is Reify.reify_name: the symbol "_n" (strconv.Itoa is not modelled) *)
