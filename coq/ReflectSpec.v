(* Proofs about the reflecttools model (Reflect.v): the laws stated in Props/C18.v. *)
From Coq Require Import List NArith ZArith Bool Lia Permutation.
From GMK Require Import Reflect.
Import ListNotations.

(* ---------------------------------------------------------------------------------------------- *)
(* induction principle for the nested type, and correctness of the executable DeepEqual            *)

Section GvalInd.
Variable P : gval -> Prop.
Hypotheses (HNil : P GNil) (HNilPtr : P GNilPtr)
  (HSP : forall fs, Forall P fs -> P (GStructPtr fs))
  (HPtr : forall v, P v -> P (GPtr v))
  (HS : forall fs, Forall P fs -> P (GStruct fs))
  (HSl : forall n es, Forall P es -> P (GSlice n es))
  (HM : forall n en, Forall (fun e => P (snd e)) en -> P (GMap n en))
  (HSc : forall k n, P (GScalar k n)).

Fixpoint gval_ind' (x : gval) : P x :=
  let go := fix go (l : list gval) : Forall P l :=
    match l with
    | [] => Forall_nil _
    | a :: l' => Forall_cons a (gval_ind' a) (go l')
    end in
  match x with
  | GNil => HNil
  | GNilPtr => HNilPtr
  | GStructPtr fs => HSP fs (go fs)
  | GPtr v => HPtr v (gval_ind' v)
  | GStruct fs => HS fs (go fs)
  | GSlice n es => HSl n es (go es)
  | GMap n en => HM n en
      ((fix goe (l : list (N * gval)) : Forall (fun e => P (snd e)) l :=
          match l with
          | [] => Forall_nil _
          | e :: l' => Forall_cons e (gval_ind' (snd e)) (goe l')
          end) en)
  | GScalar k n => HSc k n
  end.
End GvalInd.

Definition glist_eqb := fix list_eq (l1 l2 : list gval) {struct l1} : bool :=
  match l1, l2 with
  | [], [] => true
  | a :: l1', b :: l2' => gval_eqb a b && list_eq l1' l2'
  | _, _ => false
  end.
Definition gent_eqb := fix ent_eq (l1 l2 : list (N * gval)) {struct l1} : bool :=
  match l1, l2 with
  | [], [] => true
  | (j, a) :: l1', (k, b) :: l2' => N.eqb j k && gval_eqb a b && ent_eq l1' l2'
  | _, _ => false
  end.

Lemma glist_eqb_eq l1 : Forall (fun x => forall y, gval_eqb x y = true <-> x = y) l1 ->
  forall l2, glist_eqb l1 l2 = true <-> l1 = l2.
Proof.
  induction 1 as [|a l1 Ha _ IH]; intros [|b l2]; simpl; try (split; congruence).
  rewrite andb_true_iff, Ha, IH. split; [intros [-> ->]; reflexivity | intros E; inversion E; auto].
Qed.

Lemma gent_eqb_eq l1 : Forall (fun e => forall y, gval_eqb (snd e) y = true <-> snd e = y) l1 ->
  forall l2, gent_eqb l1 l2 = true <-> l1 = l2.
Proof.
  induction 1 as [|[j a] l1 Ha _ IH]; intros [|[k b] l2]; simpl; try (split; congruence).
  simpl in Ha. rewrite !andb_true_iff, N.eqb_eq, Ha, IH.
  split; [intros [[-> ->] ->]; reflexivity | intros E; inversion E; auto].
Qed.

Lemma gval_eqb_eq : forall x y, gval_eqb x y = true <-> x = y.
Proof.
  induction x using gval_ind'; intros y; destruct y; simpl; try (split; congruence).
  - fold glist_eqb. rewrite glist_eqb_eq by assumption. split; congruence.
  - rewrite IHx. split; congruence.
  - fold glist_eqb. rewrite glist_eqb_eq by assumption. split; congruence.
  - fold glist_eqb. rewrite andb_true_iff, eqb_true_iff, glist_eqb_eq by assumption.
    split; [intros [-> ->]; reflexivity | intros E; inversion E; auto].
  - fold gent_eqb. rewrite andb_true_iff, eqb_true_iff, gent_eqb_eq by assumption.
    split; [intros [-> ->]; reflexivity | intros E; inversion E; auto].
  - rewrite andb_true_iff, N.eqb_eq, Z.eqb_eq.
    split; [intros [-> ->]; reflexivity | intros E; inversion E; auto].
Qed.

Lemma gval_eq_dec (x y : gval) : {x = y} + {x <> y}.
Proof.
  destruct (gval_eqb x y) eqn:E.
  - left. apply gval_eqb_eq. exact E.
  - right. intros H. apply gval_eqb_eq in H. congruence.
Qed.

(* ---------------------------------------------------------------------------------------------- *)
(* Map                                                                                             *)

Lemma is_gnil_dec (b : gval) : {b = GNil} + {b <> GNil}.
Proof. destruct b; (left; reflexivity) || (right; discriminate). Qed.

(* complete description of the struct/slice loop *)
Lemma map_loop_spec f l :
  ((forall a, In a l -> f a <> GNil) /\ map_loop f l = (Some (map f l), l)) \/
  (exists l1 a l2, l = l1 ++ a :: l2 /\ (forall b, In b l1 -> f b <> GNil) /\ f a = GNil /\
                   map_loop f l = (None, l1 ++ [a])).
Proof.
  induction l as [|a l IH]; simpl.
  - left. split; [intros a []|reflexivity].
  - destruct (is_gnil_dec (f a)) as [E|NE].
    + right. exists [], a, l. rewrite E. repeat split; auto.
    + assert (Hstep : map_loop f (a :: l) =
                      (let (r, log) := map_loop f l in (option_map (cons (f a)) r, a :: log))).
      { simpl. destruct (f a); try reflexivity. congruence. }
      simpl in Hstep. rewrite Hstep. clear Hstep.
      destruct IH as [[Hall Heq]|(l1 & c & l2 & Hl & Hl1 & Hc & Heq)].
      * left. split.
        -- intros b [<-|Hb]; auto.
        -- rewrite Heq. reflexivity.
      * right. exists (a :: l1), c, l2. rewrite Heq. subst l. repeat split; auto.
        intros b [<-|Hb]; auto.
Qed.

Lemma map_loop_some f l r log : map_loop f l = (Some r, log) ->
  r = map f l /\ log = l /\ forall a, In a l -> f a <> GNil.
Proof.
  intros H. destruct (map_loop_spec f l) as [[Hall Heq]|(l1 & c & l2 & _ & _ & _ & Heq)];
    rewrite Heq in H; inversion H; subst; auto.
Qed.

(* what the map loop produces: the entries whose new value is not the nil interface *)
Definition keep_entry (f : gval -> gval) (e : N * gval) : list (N * gval) :=
  match f (snd e) with GNil => [] | b => [(fst e, b)] end.

Lemma map_entries_spec f l : map_entries f l = (flat_map (keep_entry f) l, map snd l).
Proof.
  induction l as [|[k a] l IH]; simpl; [reflexivity|].
  rewrite IH. change (keep_entry f (k, a)) with (match f a with GNil => [] | b => [(k, b)] end).
  destruct (f a); reflexivity.
Qed.

Lemma flat_map_keep_all f l : (forall a, In a (map snd l) -> f a <> GNil) ->
  flat_map (keep_entry f) l = map (fun e => (fst e, f (snd e))) l.
Proof.
  induction l as [|[k a] l IH]; simpl; intros H; [reflexivity|].
  rewrite IH by auto. unfold keep_entry. simpl.
  assert (f a <> GNil) by auto. destruct (f a); try reflexivity. congruence.
Qed.

Lemma flat_map_keep_id l : flat_map (keep_entry (fun a => a)) l = l <-> ~ In GNil (map snd l).
Proof.
  split.
  - intros H Hin.
    assert (Hlen : length (flat_map (keep_entry (fun a => a)) l) < length l).
    { clear H. induction l as [|[k a] l IH]; simpl in *; [contradiction|].
      assert (Hle : forall l', length (flat_map (keep_entry (fun a : gval => a)) l') <= length l').
      { induction l' as [|[k' a'] l' IH']; simpl; [lia|].
        rewrite app_length. unfold keep_entry at 1. simpl. destruct a'; simpl; lia. }
      rewrite app_length. destruct Hin as [->|Hin].
      - unfold keep_entry at 1. simpl. specialize (Hle l). lia.
      - specialize (IH Hin). unfold keep_entry at 1. simpl. destruct a; simpl; lia. }
    rewrite H in Hlen. lia.
  - intros H. rewrite flat_map_keep_all.
    + induction l as [|[k a] l IH]; simpl; [reflexivity|]. f_equal. apply IH.
      intros Hin. apply H. right. exact Hin.
    + intros a Ha E. apply H. rewrite <- E. exact Ha.
Qed.

Lemma map_id_list (l : list gval) : map (fun a => a) l = l.
Proof. apply map_id. Qed.

(* C18_map_id *)
Lemma rmap_id_iff x :
  fst (rmap (fun a => a) x) = MRet x <->
  (~ In GNil (mchildren x) /\ (forall es, x <> GSlice true es) /\ (forall en, x <> GMap true en)).
Proof.
  destruct x as [| |fs|v|fs|n es|n en|k z]; unfold rmap; simpl;
    try (split; [intros _; repeat split; try (intros []); intros; discriminate | reflexivity]).
  - (* struct pointer *)
    destruct (map_loop_spec (fun a => a) fs) as [[Hall Heq]|(l1 & c & l2 & Hl & _ & Hc & Heq)]; rewrite Heq; simpl.
    + rewrite map_id_list. split; [|reflexivity]. intros _. repeat split; try (intros; discriminate).
      intros Hin. exact (Hall _ Hin eq_refl).
    + split; [discriminate|]. intros [Hn _]. exfalso. apply Hn. subst. apply in_or_app. right. left. reflexivity.
  - (* slice *)
    destruct (map_loop_spec (fun a => a) es) as [[Hall Heq]|(l1 & c & l2 & Hl & _ & Hc & Heq)]; rewrite Heq; simpl.
    + rewrite map_id_list. split.
      * intros E. inversion E. subst n. repeat split; try (intros; discriminate).
        intros Hin. exact (Hall _ Hin eq_refl).
      * intros (_ & Hs & _). destruct n; [exfalso; exact (Hs es eq_refl)|reflexivity].
    + split; [discriminate|]. intros [Hn _]. exfalso. apply Hn. subst. apply in_or_app. right. left. reflexivity.
  - (* map *)
    rewrite map_entries_spec. simpl. split.
    + intros E. inversion E as [[Hn Hl]]. rewrite Hl. subst n. repeat split; try (intros; discriminate).
      apply flat_map_keep_id. exact Hl.
    + intros (Hin & _ & Hm). destruct n; [exfalso; exact (Hm en eq_refl)|].
      apply flat_map_keep_id in Hin. rewrite Hin. reflexivity.
Qed.

(* nil stays nil, and nothing is called *)
Lemma rmap_nil f x : is_nil x = true -> rmap f x = (MRet x, []).
Proof. intros H. unfold rmap. rewrite H. reflexivity. Qed.

(* values that are not pointers to structs, slices or maps come back unchanged, nothing is called *)
Lemma rmap_other f x :
  (forall fs, x <> GStructPtr fs) -> (forall n es, x <> GSlice n es) -> (forall n en, x <> GMap n en) ->
  rmap f x = (MRet x, []).
Proof.
  intros H1 H2 H3. destruct x; try reflexivity.
  - exfalso. exact (H1 _ eq_refl).
  - exfalso. exact (H2 _ _ eq_refl).
  - exfalso. exact (H3 _ _ eq_refl).
Qed.

(* C18_map_calls *)
Lemma rmap_calls f x :
  (fst (rmap f x) <> MPanic -> snd (rmap f x) = mchildren x) /\
  (fst (rmap f x) = MPanic ->
     exists l1 a l2, mchildren x = l1 ++ a :: l2 /\ (forall b, In b l1 -> f b <> GNil) /\ f a = GNil /\
                     snd (rmap f x) = l1 ++ [a]).
Proof.
  destruct x as [| |fs|v|fs|n es|n en|k z]; unfold rmap; simpl; try (split; [reflexivity|discriminate]).
  - destruct (map_loop_spec f fs) as [[Hall Heq]|(l1 & c & l2 & Hl & Hl1 & Hc & Heq)]; rewrite Heq; simpl.
    + split; [reflexivity|discriminate].
    + split; [congruence|]. intros _. exists l1, c, l2. auto.
  - destruct (map_loop_spec f es) as [[Hall Heq]|(l1 & c & l2 & Hl & Hl1 & Hc & Heq)]; rewrite Heq; simpl.
    + split; [reflexivity|discriminate].
    + split; [congruence|]. intros _. exists l1, c, l2. auto.
  - rewrite map_entries_spec. simpl. split; [reflexivity|discriminate].
Qed.

(* Map over a map does not depend on the iteration order, up to permutation *)
Lemma rmap_map_perm f n en en' : Permutation en en' ->
  Permutation (snd (rmap f (GMap n en))) (snd (rmap f (GMap n en'))) /\
  exists m m', fst (rmap f (GMap n en)) = MRet (GMap false m) /\
               fst (rmap f (GMap n en')) = MRet (GMap false m') /\ Permutation m m'.
Proof.
  intros HP. unfold rmap. simpl. rewrite !map_entries_spec. simpl. split.
  - apply Permutation_map. exact HP.
  - eexists. eexists. split; [reflexivity|]. split; [reflexivity|].
    apply Permutation_flat_map. exact HP.
Qed.

(* C18_map_shape *)
Lemma rmap_shape f x v : fst (rmap f x) = MRet v ->
  kind_of v = kind_of x /\ elem_kind v = elem_kind x /\
  (kind_of x <> KMap \/ (forall a, In a (mchildren x) -> f a <> GNil) ->
     mchildren v = map f (mchildren x) /\ mkeys v = mkeys x) /\
  (forall n es, v <> GSlice true es /\ v <> GMap true n \/ v = x).
Proof.
  destruct x as [| |fs|w|fs|n es|n en|k z]; unfold rmap; simpl;
    try (intros E; inversion E; subst; repeat split; auto; intros; right; reflexivity).
  - destruct (map_loop f fs) as [[r|] log] eqn:E; simpl; [|discriminate].
    intros E'. inversion E'. subst v. apply map_loop_some in E. destruct E as (-> & _ & _).
    simpl. repeat split; auto. intros. left. split; discriminate.
  - destruct (map_loop f es) as [[r|] log] eqn:E; simpl; [|discriminate].
    intros E'. inversion E'. subst v. apply map_loop_some in E. destruct E as (-> & _ & _).
    simpl. repeat split; auto. intros. left. split; discriminate.
  - rewrite map_entries_spec. simpl. intros E. inversion E. subst v. simpl.
    repeat split; auto.
    + destruct H as [H|H]; [congruence|]. rewrite flat_map_keep_all by exact H.
      rewrite !map_map. reflexivity.
    + destruct H as [H|H]; [congruence|]. rewrite flat_map_keep_all by exact H.
      rewrite !map_map. reflexivity.
    + intros. left. split; discriminate.
Qed.

(* ---------------------------------------------------------------------------------------------- *)
(* Any                                                                                             *)

Lemma any_loop_spec p l :
  (fst (any_loop p l) = true /\
     exists l1 e l2, l = l1 ++ e :: l2 /\ (forall a, In a l1 -> p a = false) /\ p e = true /\
                     snd (any_loop p l) = l1 ++ [e]) \/
  (fst (any_loop p l) = false /\ (forall a, In a l -> p a = false) /\ snd (any_loop p l) = l).
Proof.
  induction l as [|a l IH]; simpl.
  - right. repeat split; auto. intros a [].
  - destruct (p a) eqn:E; simpl.
    + left. split; [reflexivity|]. exists [], a, l. repeat split; auto. intros b [].
    + destruct (any_loop p l) as [r log]. simpl in *.
      destruct IH as [[Hr (l1 & e & l2 & Hl & Hl1 & He & Hlog)]|(Hr & Hall & Hlog)].
      * left. split; [exact Hr|]. exists (a :: l1), e, l2. subst. repeat split; auto.
        intros b [<-|Hb]; auto.
      * right. subst. repeat split; auto. intros b [<-|Hb]; auto.
Qed.

Lemma rany_children p x : rany p x = any_loop p (children x).
Proof. destruct x; reflexivity. Qed.

(* C18_any_iff *)
Lemma rany_iff p x :
  (fst (rany p x) = true <-> exists e, In e (children x) /\ p e = true) /\
  (fst (rany p x) = true ->
     exists l1 e l2, children x = l1 ++ e :: l2 /\ (forall a, In a l1 -> p a = false) /\ p e = true /\
                     snd (rany p x) = l1 ++ [e]) /\
  (fst (rany p x) = false -> snd (rany p x) = children x).
Proof.
  rewrite rany_children.
  destruct (any_loop_spec p (children x)) as [[Hr (l1 & e & l2 & Hl & Hl1 & He & Hlog)]|(Hr & Hall & Hlog)].
  - split; [|split].
    + split; [|intros _; exact Hr]. intros _. exists e. split; [|exact He].
      rewrite Hl. apply in_or_app. right. left. reflexivity.
    + intros _. exists l1, e, l2. auto.
    + congruence.
  - split; [|split].
    + split; [congruence|]. intros (e & Hin & He). rewrite (Hall _ Hin) in He. discriminate.
    + congruence.
    + intros _. exact Hlog.
Qed.

(* ---------------------------------------------------------------------------------------------- *)
(* ZipReduce                                                                                       *)

Section ZipSpec.
Context {B : Type}.
Variables (zero : B) (eqb_zero : B -> bool).
Hypothesis eqb_zero_spec : forall b, eqb_zero b = true <-> b = zero.
Variable f : gval -> gval -> B -> B.

Definition zstep (b : B) (p : gval * gval) : B := f (fst p) (snd p) b.

Lemma zip_loop_spec : forall xs ys b, length xs = length ys ->
  let ps := combine xs ys in
  ((forall n, 1 <= n <= length ps -> fold_left zstep (firstn n ps) b <> zero) /\
     zip_loop zero eqb_zero f xs ys b = (fold_left zstep ps b, ps)) \/
  (exists n, 1 <= n <= length ps /\ fold_left zstep (firstn n ps) b = zero /\
             (forall m, 1 <= m < n -> fold_left zstep (firstn m ps) b <> zero) /\
             zip_loop zero eqb_zero f xs ys b = (zero, firstn n ps)).
Proof.
  induction xs as [|x xs IH]; intros [|y ys] b Hlen; simpl in Hlen; try discriminate.
  - left. simpl. split; [intros n Hn; lia|reflexivity].
  - injection Hlen as Hlen. simpl.
    destruct (eqb_zero (f x y b)) eqn:E.
    + right. apply eqb_zero_spec in E. exists 1. simpl. repeat split; auto; try lia.
    + assert (NE : f x y b <> zero).
      { intros H. apply eqb_zero_spec in H. congruence. }
      destruct (IH ys (f x y b) Hlen) as [[Hall Heq]|(n & Hn & Hz & Hmin & Heq)].
      * left. rewrite Heq. split; [|reflexivity].
        intros n Hn. destruct n as [|n]; [lia|]. simpl. destruct n as [|n]; [exact NE|].
        apply Hall. lia.
      * right. exists (S n). rewrite Heq. simpl. repeat split; auto; try lia.
        intros m Hm. destruct m as [|m]; [lia|]. simpl. destruct m as [|m]; [exact NE|].
        apply Hmin. lia.
Qed.

Lemma zipreduce_zip_children init x y xs ys : zip_children x y = Some (xs, ys) ->
  length xs = length ys /\ zipreduce zero eqb_zero f init x y = zip_loop zero eqb_zero f xs ys init.
Proof.
  destruct x as [| |fx|v|fx|nx ex|nx ex|k z]; destruct y as [| |fy|w|fy|ny ey|ny ey|k' z']; simpl; try discriminate.
  - destruct (Nat.eqb (length fx) (length fy)) eqn:E; [|discriminate].
    intros H. inversion H; subst. split; [apply Nat.eqb_eq; exact E|].
    unfold zipreduce. simpl. rewrite E. reflexivity.
  - destruct (Nat.eqb (length ex) (length ey)) eqn:E; [|discriminate].
    intros H. inversion H; subst. split; [apply Nat.eqb_eq; exact E|].
    unfold zipreduce. simpl. rewrite E. reflexivity.
Qed.

(* C18_zip_fold *)
Lemma zipreduce_fold init x y xs ys : zip_children x y = Some (xs, ys) ->
  let ps := combine xs ys in
  ((forall n, 1 <= n <= length ps -> fold_left zstep (firstn n ps) init <> zero) /\
     zipreduce zero eqb_zero f init x y = (fold_left zstep ps init, ps)) \/
  (exists n, 1 <= n <= length ps /\ fold_left zstep (firstn n ps) init = zero /\
             (forall m, 1 <= m < n -> fold_left zstep (firstn m ps) init <> zero) /\
             zipreduce zero eqb_zero f init x y = (zero, firstn n ps)).
Proof.
  intros H. apply zipreduce_zip_children with (init := init) in H. destruct H as [Hlen ->].
  apply zip_loop_spec. exact Hlen.
Qed.

(* C18_zip_shape *)
Lemma zipreduce_both_nil init x y : is_nil x = true -> is_nil y = true ->
  zipreduce zero eqb_zero f init x y = (init, []).
Proof. intros Hx Hy. unfold zipreduce. rewrite Hx, Hy. reflexivity. Qed.

Lemma zipreduce_one_nil init x y : is_nil x <> is_nil y ->
  zipreduce zero eqb_zero f init x y = (zero, []).
Proof.
  intros H. unfold zipreduce. destruct (is_nil x), (is_nil y); try reflexivity; congruence.
Qed.

Lemma zipreduce_mismatch init x y : is_nil x = false -> is_nil y = false ->
  (forall fx fy, x = GStructPtr fx -> y = GStructPtr fy -> length fx <> length fy) ->
  (forall nx ex ny ey, x = GSlice nx ex -> y = GSlice ny ey -> length ex <> length ey) ->
  zipreduce zero eqb_zero f init x y = (zero, []).
Proof.
  intros Hx Hy HS HL.
  destruct x as [| |fx|v|fx|nx ex|nx ex|k z]; try discriminate;
  destruct y as [| |fy|w|fy|ny ey|ny ey|k' z']; try discriminate; try reflexivity;
  unfold zipreduce; simpl;
  try (specialize (HS _ _ eq_refl eq_refl); apply Nat.eqb_neq in HS; rewrite HS; reflexivity);
  try (specialize (HL _ _ _ _ eq_refl eq_refl); apply Nat.eqb_neq in HL; rewrite HL; reflexivity);
  repeat match goal with
         | |- context [match kind_of ?u with _ => _ end] => destruct (kind_of u)
         | |- context [if ?c then _ else _] => destruct c
         end; reflexivity.
Qed.

(* the shape test is exactly zip_children *)
Lemma zip_children_none x y : zip_children x y = None <->
  (forall fx fy, x = GStructPtr fx -> y = GStructPtr fy -> length fx <> length fy) /\
  (forall nx ex ny ey, x = GSlice nx ex -> y = GSlice ny ey -> length ex <> length ey).
Proof.
  destruct x as [| |fx|v|fx|nx ex|nx ex|k z]; destruct y as [| |fy|w|fy|ny ey|ny ey|k' z']; simpl;
    try (split; [intros _; split; intros; discriminate|reflexivity]).
  - destruct (Nat.eqb (length fx) (length fy)) eqn:E.
    + apply Nat.eqb_eq in E. split; [discriminate|]. intros [H _]. exfalso. exact (H _ _ eq_refl eq_refl E).
    + apply Nat.eqb_neq in E. split; [|reflexivity]. intros _. split; intros; try discriminate. congruence.
  - destruct (Nat.eqb (length ex) (length ey)) eqn:E.
    + apply Nat.eqb_eq in E. split; [discriminate|]. intros [_ H]. exfalso. exact (H _ _ _ _ eq_refl eq_refl E).
    + apply Nat.eqb_neq in E. split; [|reflexivity]. intros _. split; intros; try discriminate. congruence.
Qed.
End ZipSpec.
