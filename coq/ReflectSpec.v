(* Proofs about the reflecttools model (Reflect.v): the laws stated in Props/C18.v. *)
From Coq Require Import List NArith ZArith Bool Lia Permutation.
From GMK Require Import Reflect.
Import ListNotations.

(* ---------------------------------------------------------------------------------------------- *)
(* induction principle for the nested type, and correctness of the executable DeepEqual            *)

Section GvalInd.
Variable P : gval -> Prop.
Hypotheses (HNil : P GNil) (HIf : forall v, P v -> P (GIface v)) (HNilPtr : P GNilPtr)
  (HSP : forall fs, Forall P fs -> P (GStructPtr fs))
  (HPtr : forall v, P v -> P (GPtr v))
  (HS : forall fs, Forall P fs -> P (GStruct fs))
  (HSl : forall n es, Forall P es -> P (GSlice n es))
  (HM : forall n en, Forall (fun e => P (snd e)) en -> P (GMap n en))
  (HSc : forall k n, P (GScalar k n)).

Fixpoint gval_ind' (x : gval) : P x :=
  let go := fix go (l : list gval) : Forall P l :=
    match l with
    | [] => Forall_nil _
    | a :: l' => Forall_cons a (gval_ind' a) (go l')
    end in
  match x with
  | GNil => HNil
  | GIface v => HIf v (gval_ind' v)
  | GNilPtr => HNilPtr
  | GStructPtr fs => HSP fs (go fs)
  | GPtr v => HPtr v (gval_ind' v)
  | GStruct fs => HS fs (go fs)
  | GSlice n es => HSl n es (go es)
  | GMap n en => HM n en
      ((fix goe (l : list (N * gval)) : Forall (fun e => P (snd e)) l :=
          match l with
          | [] => Forall_nil _
          | e :: l' => Forall_cons e (gval_ind' (snd e)) (goe l')
          end) en)
  | GScalar k n => HSc k n
  end.
End GvalInd.

Definition glist_eqb := fix list_eq (l1 l2 : list gval) {struct l1} : bool :=
  match l1, l2 with
  | [], [] => true
  | a :: l1', b :: l2' => gval_eqb a b && list_eq l1' l2'
  | _, _ => false
  end.
Definition gent_eqb := fix ent_eq (l1 l2 : list (N * gval)) {struct l1} : bool :=
  match l1, l2 with
  | [], [] => true
  | (j, a) :: l1', (k, b) :: l2' => N.eqb j k && gval_eqb a b && ent_eq l1' l2'
  | _, _ => false
  end.

Lemma glist_eqb_eq l1 : Forall (fun x => forall y, gval_eqb x y = true <-> x = y) l1 ->
  forall l2, glist_eqb l1 l2 = true <-> l1 = l2.
Proof.
  induction 1 as [|a l1 Ha _ IH]; intros [|b l2]; simpl; try (split; congruence).
  rewrite andb_true_iff, Ha, IH. split; [intros [-> ->]; reflexivity | intros E; inversion E; auto].
Qed.

Lemma gent_eqb_eq l1 : Forall (fun e => forall y, gval_eqb (snd e) y = true <-> snd e = y) l1 ->
  forall l2, gent_eqb l1 l2 = true <-> l1 = l2.
Proof.
  induction 1 as [|[j a] l1 Ha _ IH]; intros [|[k b] l2]; simpl; try (split; congruence).
  simpl in Ha. rewrite !andb_true_iff, N.eqb_eq, Ha, IH.
  split; [intros [[-> ->] ->]; reflexivity | intros E; inversion E; auto].
Qed.

Lemma gval_eqb_eq : forall x y, gval_eqb x y = true <-> x = y.
Proof.
  induction x using gval_ind'; intros y; destruct y; simpl; try (split; congruence).
  - rewrite IHx. split; congruence.
  - fold glist_eqb. rewrite glist_eqb_eq by assumption. split; congruence.
  - rewrite IHx. split; congruence.
  - fold glist_eqb. rewrite glist_eqb_eq by assumption. split; congruence.
  - fold glist_eqb. rewrite andb_true_iff, eqb_true_iff, glist_eqb_eq by assumption.
    split; [intros [-> ->]; reflexivity | intros E; inversion E; auto].
  - fold gent_eqb. rewrite andb_true_iff, eqb_true_iff, gent_eqb_eq by assumption.
    split; [intros [-> ->]; reflexivity | intros E; inversion E; auto].
  - rewrite andb_true_iff, N.eqb_eq, Z.eqb_eq.
    split; [intros [-> ->]; reflexivity | intros E; inversion E; auto].
Qed.

Lemma gval_eq_dec (x y : gval) : {x = y} + {x <> y}.
Proof.
  destruct (gval_eqb x y) eqn:E.
  - left. apply gval_eqb_eq. exact E.
  - right. intros H. apply gval_eqb_eq in H. congruence.
Qed.

(* ---------------------------------------------------------------------------------------------- *)
(* Map                                                                                             *)

Lemma map_loop_spec f l :
  map_loop f l = (map (fun s => store s (f (unwrap s))) l, map unwrap l).
Proof. induction l as [|s l IH]; simpl; [reflexivity|]. rewrite IH. reflexivity. Qed.

Lemma map_entries_spec f l :
  map_entries f l = (map (fun e => (fst e, store (snd e) (f (unwrap (snd e))))) l, map unwrap (map snd l)).
Proof. induction l as [|[k s] l IH]; simpl; [reflexivity|]. rewrite IH. reflexivity. Qed.

(* storing back what was read leaves a slot as it was, except for the ill-formed "interface holding nil" *)
Lemma store_unwrap s : store s (unwrap s) = s <-> s <> GIface GNil.
Proof.
  destruct s as [|v| |fs|v|fs|n es|n en|k z]; simpl;
    try (split; [intros _; discriminate|intros _; reflexivity]).
  destruct v; simpl; (split; [intros _; discriminate|intros _; reflexivity]) || (split; [discriminate|congruence]).
Qed.

Lemma map_fix {A} (g : A -> A) l : map g l = l <-> forall a, In a l -> g a = a.
Proof.
  induction l as [|a l IH]; simpl.
  - split; [intros _ a []|reflexivity].
  - split.
    + intros E. injection E as E1 E2. intros b [<-|Hb]; [exact E1|]. apply IH; assumption.
    + intros H. f_equal; [apply H; auto|apply IH; auto].
Qed.

Lemma map_id_slots l : map (fun s => store s (unwrap s)) l = l <-> ~ In (GIface GNil) l.
Proof.
  rewrite map_fix. split.
  - intros H Hin. apply (proj1 (store_unwrap _) (H _ Hin)). reflexivity.
  - intros H a Ha. apply store_unwrap. intros ->. exact (H Ha).
Qed.

Lemma map_id_entries (l : list (N * gval)) :
  map (fun e => (fst e, store (snd e) (unwrap (snd e)))) l = l <-> ~ In (GIface GNil) (map snd l).
Proof.
  rewrite map_fix. split.
  - intros H Hin. apply in_map_iff in Hin. destruct Hin as ([k s] & Hs & Hin). simpl in Hs. subst s.
    specialize (H _ Hin). simpl in H. inversion H.
  - intros H [k s] Ha. simpl. f_equal. apply store_unwrap. intros ->. apply H.
    apply in_map_iff. exists (k, GIface GNil). auto.
Qed.

(* C18_map_id *)
Lemma rmap_id_iff x : fst (rmap (fun a => a) x) = x <-> ~ In (GIface GNil) (mslots x).
Proof.
  destruct x as [|v| |fs|v|fs|n es|n en|k z]; unfold rmap; simpl;
    try (split; [intros _ []|reflexivity]).
  - rewrite map_loop_spec. simpl. rewrite <- map_id_slots. split; congruence.
  - destruct n; simpl; [split; [intros _ []|reflexivity]|].
    rewrite map_loop_spec. simpl. rewrite <- map_id_slots. split; congruence.
  - destruct n; simpl; [split; [intros _ []|reflexivity]|].
    rewrite map_entries_spec. simpl. rewrite <- map_id_entries. split; congruence.
Qed.

Lemma forallb_In {A} (p : A -> bool) l a : forallb p l = true -> In a l -> p a = true.
Proof. intros H. rewrite forallb_forall in H. apply H. Qed.

Lemma wf_slot_not_iface_nil l : forallb wf_slot l = true -> ~ In (GIface GNil) l.
Proof. intros H Hin. apply (forallb_In _ _ _ H) in Hin. discriminate. Qed.

Lemma wfb_mslots x : wfb x = true -> ~ In (GIface GNil) (mslots x).
Proof.
  destruct x as [|v| |fs|v|fs|n es|n en|k z]; simpl; try (intros _ []).
  - apply wf_slot_not_iface_nil.
  - destruct n; [intros _ []|]. simpl. apply wf_slot_not_iface_nil.
  - destruct n; [intros _ []|]. simpl. rewrite andb_true_iff. intros [_ H] Hin.
    apply in_map_iff in Hin. destruct Hin as (e & He & Hin).
    apply (forallb_In _ _ _ H) in Hin. rewrite He in Hin. discriminate.
Qed.

Lemma rmap_id_wf x : wfb x = true -> rmap (fun a => a) x = (x, mchildren x).
Proof.
  intros H. pose proof (proj2 (rmap_id_iff x) (wfb_mslots x H)) as E.
  rewrite <- E at 2. clear E H.
  destruct x as [|v| |fs|v|fs|n es|n en|k z]; unfold rmap, mchildren; simpl; try reflexivity.
  - rewrite map_loop_spec. reflexivity.
  - destruct n; [reflexivity|]. rewrite map_loop_spec. reflexivity.
  - destruct n; [reflexivity|]. rewrite map_entries_spec. reflexivity.
Qed.

(* nil stays nil, and nothing is called: nil interface, nil pointers, nil slices, nil maps *)
Lemma rmap_nil f x : is_nil x = true \/ container_nil x = true -> rmap f x = (x, []).
Proof.
  intros [H|H]; unfold rmap.
  - rewrite H. reflexivity.
  - destruct x; try discriminate; simpl in H; subst; reflexivity.
Qed.

(* values that are not pointers to structs, slices or maps come back unchanged, nothing is called *)
Lemma rmap_other f x :
  (forall fs, x <> GStructPtr fs) -> (forall n es, x <> GSlice n es) -> (forall n en, x <> GMap n en) ->
  rmap f x = (x, []).
Proof.
  intros H1 H2 H3. destruct x; try reflexivity.
  - exfalso. exact (H1 _ eq_refl).
  - exfalso. exact (H2 _ _ eq_refl).
  - exfalso. exact (H3 _ _ eq_refl).
Qed.

(* C18_map_calls *)
Lemma rmap_calls f x : snd (rmap f x) = mchildren x.
Proof.
  destruct x as [|v| |fs|v|fs|n es|n en|k z]; unfold rmap, mchildren; simpl; try reflexivity.
  - rewrite map_loop_spec. reflexivity.
  - destruct n; [reflexivity|]. rewrite map_loop_spec. reflexivity.
  - destruct n; [reflexivity|]. rewrite map_entries_spec. reflexivity.
Qed.

(* Map over a map does not depend on the iteration order, up to permutation *)
Lemma rmap_map_perm f en en' : Permutation en en' ->
  Permutation (snd (rmap f (GMap false en))) (snd (rmap f (GMap false en'))) /\
  exists m m', fst (rmap f (GMap false en)) = GMap false m /\
               fst (rmap f (GMap false en')) = GMap false m' /\ Permutation m m'.
Proof.
  intros HP. unfold rmap. simpl. rewrite !map_entries_spec. simpl. split.
  - apply Permutation_map. apply Permutation_map. exact HP.
  - eexists. eexists. split; [reflexivity|]. split; [reflexivity|].
    apply Permutation_map. exact HP.
Qed.

(* a value returned by the function is an [any]: never a GIface; [plain] also excludes the untyped nil *)
Definition plain (b : gval) : Prop := b <> GNil /\ forall v, b <> GIface v.

Lemma unwrap_store s b : plain b -> unwrap (store s b) = b.
Proof.
  intros [H H']. destruct b; try congruence; try (destruct s; reflexivity);
    exfalso; exact (H' _ eq_refl).
Qed.

Lemma map_unwrap_store f l : (forall a, In a (map unwrap l) -> plain (f a)) ->
  map unwrap (map (fun s => store s (f (unwrap s))) l) = map f (map unwrap l).
Proof.
  induction l as [|s l IH]; simpl; intros H; [reflexivity|].
  rewrite IH by auto. rewrite unwrap_store by auto. reflexivity.
Qed.

(* C18_map_shape *)
Lemma rmap_shape f x :
  let v := fst (rmap f x) in
  kind_of v = kind_of x /\ elem_kind v = elem_kind x /\ container_nil v = container_nil x /\
  mkeys v = mkeys x /\
  mslots v = map (fun s => store s (f (unwrap s))) (mslots x) /\
  ((forall a, In a (mchildren x) -> plain (f a)) -> mchildren v = map f (mchildren x)).
Proof.
  destruct x as [|w| |fs|w|fs|n es|n en|k z]; unfold rmap, mchildren; simpl;
    try (repeat split; reflexivity).
  - rewrite map_loop_spec. simpl. repeat split; auto. apply map_unwrap_store.
  - destruct n; simpl; [repeat split; reflexivity|].
    rewrite map_loop_spec. simpl. repeat split; auto. apply map_unwrap_store.
  - destruct n; simpl; [repeat split; reflexivity|].
    rewrite map_entries_spec. simpl. rewrite !map_map. simpl. repeat split; auto.
    intros H. rewrite <- (map_map snd unwrap) in H. pose proof (map_unwrap_store f (map snd en) H) as E.
    rewrite !map_map in E. exact E.
Qed.

(* the stored value: an untyped nil result becomes the zero value of the slot's type, anything else is what the
   function returned (as seen through Interface()) *)
Lemma store_spec s b :
  (b = GNil -> store s b = zero_of s) /\ (plain b -> unwrap (store s b) = b) /\
  zero_of (zero_of s) = zero_of s.
Proof.
  split; [intros ->; reflexivity|]. split; [apply unwrap_store|].
  induction s using gval_ind'; simpl; try reflexivity.
  f_equal. rewrite map_map. apply map_ext_in. intros a Ha.
  rewrite Forall_forall in H. apply H. exact Ha.
Qed.

(* ---------------------------------------------------------------------------------------------- *)
(* Any                                                                                             *)

Lemma any_loop_spec p l :
  (fst (any_loop p l) = true /\
     exists l1 e l2, map unwrap l = l1 ++ e :: l2 /\ (forall a, In a l1 -> p a = false) /\ p e = true /\
                     snd (any_loop p l) = l1 ++ [e]) \/
  (fst (any_loop p l) = false /\ (forall a, In a (map unwrap l) -> p a = false) /\ snd (any_loop p l) = map unwrap l).
Proof.
  induction l as [|s l IH]; simpl.
  - right. repeat split; auto. intros a [].
  - destruct (p (unwrap s)) eqn:E; simpl.
    + left. split; [reflexivity|]. exists [], (unwrap s), (map unwrap l). repeat split; auto. intros b [].
    + destruct (any_loop p l) as [r log]. simpl in *.
      destruct IH as [[Hr (l1 & e & l2 & Hl & Hl1 & He & Hlog)]|(Hr & Hall & Hlog)].
      * left. split; [exact Hr|]. exists (unwrap s :: l1), e, l2. subst. rewrite Hl. repeat split; auto.
        intros b [<-|Hb]; auto.
      * right. subst. repeat split; auto. intros b [<-|Hb]; auto.
Qed.

Lemma rany_children p x : exists l, children x = map unwrap l /\ rany p x = any_loop p l.
Proof.
  destruct x as [|v| |fs|v|fs|n es|n en|k z]; try (exists []; split; reflexivity).
  - exists fs. split; reflexivity.
  - exists es. split; reflexivity.
Qed.

(* C18_any_iff *)
Lemma rany_iff p x :
  (fst (rany p x) = true <-> exists e, In e (children x) /\ p e = true) /\
  (fst (rany p x) = true ->
     exists l1 e l2, children x = l1 ++ e :: l2 /\ (forall a, In a l1 -> p a = false) /\ p e = true /\
                     snd (rany p x) = l1 ++ [e]) /\
  (fst (rany p x) = false -> snd (rany p x) = children x).
Proof.
  destruct (rany_children p x) as (l & -> & ->).
  destruct (any_loop_spec p l) as [[Hr (l1 & e & l2 & Hl & Hl1 & He & Hlog)]|(Hr & Hall & Hlog)].
  - split; [|split].
    + split; [|intros _; exact Hr]. intros _. exists e. split; [|exact He].
      rewrite Hl. apply in_or_app. right. left. reflexivity.
    + intros _. exists l1, e, l2. auto.
    + congruence.
  - split; [|split].
    + split; [congruence|]. intros (e & Hin & He). rewrite (Hall _ Hin) in He. discriminate.
    + congruence.
    + intros _. exact Hlog.
Qed.

(* ---------------------------------------------------------------------------------------------- *)
(* ZipReduce                                                                                       *)

Section ZipSpec.
Context {B : Type}.
Variables (zero : B) (eqb_zero : B -> bool).
Hypothesis eqb_zero_spec : forall b, eqb_zero b = true <-> b = zero.
Variable f : gval -> gval -> B -> B.

Definition zstep (b : B) (p : gval * gval) : B := f (fst p) (snd p) b.

Lemma zip_loop_spec : forall xs ys b, length xs = length ys ->
  let ps := combine (map unwrap xs) (map unwrap ys) in
  ((forall n, 1 <= n <= length ps -> fold_left zstep (firstn n ps) b <> zero) /\
     zip_loop zero eqb_zero f xs ys b = (fold_left zstep ps b, ps)) \/
  (exists n, 1 <= n <= length ps /\ fold_left zstep (firstn n ps) b = zero /\
             (forall m, 1 <= m < n -> fold_left zstep (firstn m ps) b <> zero) /\
             zip_loop zero eqb_zero f xs ys b = (zero, firstn n ps)).
Proof.
  induction xs as [|x xs IH]; intros [|y ys] b Hlen; simpl in Hlen; try discriminate.
  - left. simpl. split; [intros n Hn; lia|reflexivity].
  - injection Hlen as Hlen. simpl.
    destruct (eqb_zero (f (unwrap x) (unwrap y) b)) eqn:E.
    + right. apply eqb_zero_spec in E. exists 1. simpl. repeat split; auto; try lia.
    + assert (NE : f (unwrap x) (unwrap y) b <> zero).
      { intros H. apply eqb_zero_spec in H. congruence. }
      destruct (IH ys (f (unwrap x) (unwrap y) b) Hlen) as [[Hall Heq]|(n & Hn & Hz & Hmin & Heq)].
      * left. rewrite Heq. split; [|reflexivity].
        intros n Hn. destruct n as [|n]; [lia|]. simpl. destruct n as [|n]; [exact NE|].
        apply Hall. lia.
      * right. exists (S n). rewrite Heq. simpl. repeat split; auto; try lia.
        intros m Hm. destruct m as [|m]; [lia|]. simpl. destruct m as [|m]; [exact NE|].
        apply Hmin. lia.
Qed.

Lemma zipreduce_zip_children init x y xs ys : zip_children x y = Some (xs, ys) ->
  exists sx sy, xs = map unwrap sx /\ ys = map unwrap sy /\ length sx = length sy /\
                zipreduce zero eqb_zero f init x y = zip_loop zero eqb_zero f sx sy init.
Proof.
  destruct x as [|v| |fx|v|fx|nx ex|nx ex|k z]; destruct y as [|w| |fy|w|fy|ny ey|ny ey|k' z']; simpl; try discriminate.
  - destruct (Nat.eqb (length fx) (length fy)) eqn:E; [|discriminate].
    intros H. inversion H; subst. exists fx, fy. repeat split; [apply Nat.eqb_eq; exact E|].
    unfold zipreduce. simpl. rewrite E. reflexivity.
  - destruct (Nat.eqb (length ex) (length ey)) eqn:E; [|discriminate].
    intros H. inversion H; subst. exists ex, ey. repeat split; [apply Nat.eqb_eq; exact E|].
    unfold zipreduce. simpl. rewrite E. reflexivity.
Qed.

(* C18_zip_fold *)
Lemma zipreduce_fold init x y xs ys : zip_children x y = Some (xs, ys) ->
  let ps := combine xs ys in
  ((forall n, 1 <= n <= length ps -> fold_left zstep (firstn n ps) init <> zero) /\
     zipreduce zero eqb_zero f init x y = (fold_left zstep ps init, ps)) \/
  (exists n, 1 <= n <= length ps /\ fold_left zstep (firstn n ps) init = zero /\
             (forall m, 1 <= m < n -> fold_left zstep (firstn m ps) init <> zero) /\
             zipreduce zero eqb_zero f init x y = (zero, firstn n ps)).
Proof.
  intros H. apply zipreduce_zip_children with (init := init) in H.
  destruct H as (sx & sy & -> & -> & Hlen & ->).
  apply zip_loop_spec. exact Hlen.
Qed.

(* C18_zip_shape *)
Lemma zipreduce_both_nil init x y : is_nil x = true -> is_nil y = true ->
  zipreduce zero eqb_zero f init x y = (init, []).
Proof. intros Hx Hy. unfold zipreduce. rewrite Hx, Hy. reflexivity. Qed.

Lemma zipreduce_one_nil init x y : is_nil x <> is_nil y ->
  zipreduce zero eqb_zero f init x y = (zero, []).
Proof.
  intros H. unfold zipreduce. destruct (is_nil x), (is_nil y); try reflexivity; congruence.
Qed.

Lemma zipreduce_mismatch init x y : is_nil x = false -> is_nil y = false ->
  (forall fx fy, x = GStructPtr fx -> y = GStructPtr fy -> length fx <> length fy) ->
  (forall nx ex ny ey, x = GSlice nx ex -> y = GSlice ny ey -> length ex <> length ey) ->
  zipreduce zero eqb_zero f init x y = (zero, []).
Proof.
  intros Hx Hy HS HL.
  destruct x as [|v| |fx|v|fx|nx ex|nx ex|k z]; try discriminate;
  destruct y as [|w| |fy|w|fy|ny ey|ny ey|k' z']; try discriminate; try reflexivity;
  unfold zipreduce; simpl;
  try (specialize (HS _ _ eq_refl eq_refl); apply Nat.eqb_neq in HS; rewrite HS; reflexivity);
  try (specialize (HL _ _ _ _ eq_refl eq_refl); apply Nat.eqb_neq in HL; rewrite HL; reflexivity);
  repeat match goal with
         | |- context [match kind_of ?u with _ => _ end] => destruct (kind_of u)
         | |- context [if ?c then _ else _] => destruct c
         end; reflexivity.
Qed.

(* the shape test is exactly zip_children *)
Lemma zip_children_none x y : zip_children x y = None <->
  (forall fx fy, x = GStructPtr fx -> y = GStructPtr fy -> length fx <> length fy) /\
  (forall nx ex ny ey, x = GSlice nx ex -> y = GSlice ny ey -> length ex <> length ey).
Proof.
  destruct x as [|v| |fx|v|fx|nx ex|nx ex|k z]; destruct y as [|w| |fy|w|fy|ny ey|ny ey|k' z']; simpl;
    try (split; [intros _; split; intros; discriminate|reflexivity]).
  - destruct (Nat.eqb (length fx) (length fy)) eqn:E.
    + apply Nat.eqb_eq in E. split; [discriminate|]. intros [H _]. exfalso. exact (H _ _ eq_refl eq_refl E).
    + apply Nat.eqb_neq in E. split; [|reflexivity]. intros _. split; intros; try discriminate. congruence.
  - destruct (Nat.eqb (length ex) (length ey)) eqn:E.
    + apply Nat.eqb_eq in E. split; [discriminate|]. intros [_ H]. exfalso. exact (H _ _ _ _ eq_refl eq_refl E).
    + apply Nat.eqb_neq in E. split; [|reflexivity]. intros _. split; intros; try discriminate. congruence.
Qed.
End ZipSpec.
