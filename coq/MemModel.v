(* L6 model (C07): a MEMORY-LEVEL model of the values that micro and gomini goals hand around.  No proofs here.

   The functional models (Unify.v, Stream.v, GominiSeq.v) are pure, so "same goal, same state => same answers" is
   trivially true of them; whether it is true of the Go code depends on the code never writing through a reference
   that somebody else still holds.  This file models exactly that: a heap of mutable objects, Go slices as
   (array, len, cap) views, Go maps and stream cells as heap objects, and every operation as a heap transformer
   that also returns its WRITE LOG (object id, index) so that "who writes where" is a checked fact.

   Objects are identified by their index in the heap; allocation appends, nothing is ever freed.

   micro   exts (micro/exts.go:33-36) and reifys (micro/reify.go:57-60):  m := make(Substitutions, len(s)+1); copy(m, s);
           m[len(s)] = pair            -> exts_copy
           `append(s, pair)`, which is what a well-meaning simplification would write -> exts_append
           StreamOfStates{state, proc, mem}.CarCdr (micro/stream.go:17-25)         -> carcdr
   gomini  State.Set (state.go:34-38): ss := s.copy(); ss.substitutions[key] = value  -> set_copy
           newVarWithName (state.go:63-75): substitutions SHARED, vars/names copied, the copies written -> newvar_copy
           the variants writing into the maps of the state they were given            -> set_inplace / newvar_inplace
           (the `names` map is treated exactly like `vars` and is omitted)

   The one in-place write that exists in micro: Substitutions.String() (micro/state.go:40) sorts the receiver slice
   in place (sort.Slice on s).  It is not a goal, it is only used for printing, and it permutes the cells of an array
   without changing the SET of pairs; since keys are distinct the bindings-as-a-map are unchanged (assv_perm in
   MemSpec.v).  It does change the order in which assv meets the pairs, which is unobservable for distinct keys. *)
From Coq Require Import List NArith ZArith Bool Arith.
From GMK Require Import Term.
Import ListNotations.

Definition objid := nat.
Definition cell := (N * term)%type.            (* SubPair{Key, Value} *)

Inductive object :=
| OArr (cells : list (option cell))                            (* backing array of a []SubPair; None = zero value *)
| OMap (entries : list (N * term))                             (* a Go map[Var]any *)
| OCell (st : option nat) (proc : option nat) (mem : option objid).  (* StreamOfStates{state, proc, mem} *)

Definition heap := list object.
(* a write: (object, index within the object): cell index / map key / field number *)
Definition wlog := list (objid * nat).

Fixpoint upd {A : Type} (l : list A) (i : nat) (x : A) : list A :=
  match l, i with
  | [], _ => []
  | _ :: tl, O => x :: tl
  | a :: tl, S i' => a :: upd tl i' x
  end.

(* ---------- micro: substitutions are slices ---------- *)

Record slice := mkSlice { arr : objid; len : nat; cap : nat }.

(* what is visible through a slice value: the first len cells of its array *)
Definition view_slice (h : heap) (s : slice) : list (option cell) :=
  match nth_error h (arr s) with
  | Some (OArr cs) => firstn (len s) cs
  | _ => []
  end.

(* make(Substitutions, 0, c) *)
Definition make_slice (h : heap) (c : nat) : heap * slice * wlog :=
  (h ++ [OArr (repeat None c)], mkSlice (length h) 0 c, []).

(* the code: a NEW array of len+1 cells, the old cells copied, the new pair written at index len *)
Definition exts_copy (h : heap) (s : slice) (p : cell) : heap * slice * wlog :=
  let id := length h in
  (h ++ [OArr (view_slice h s ++ [Some p])],
   mkSlice id (S (len s)) (S (len s)),
   map (fun i => (id, i)) (seq 0 (S (len s)))).

(* append(s, p): in place when there is spare capacity, otherwise a new array of doubled capacity *)
Definition exts_append (h : heap) (s : slice) (p : cell) : heap * slice * wlog :=
  if len s <? cap s then
    match nth_error h (arr s) with
    | Some (OArr cs) =>
        (upd h (arr s) (OArr (upd cs (len s) (Some p))), mkSlice (arr s) (S (len s)) (cap s), [(arr s, len s)])
    | _ => (h, s, [])
    end
  else
    let id := length h in
    let ncap := Nat.max 1 (2 * cap s) in
    (h ++ [OArr (view_slice h s ++ [Some p] ++ repeat None (ncap - S (len s)))],
     mkSlice id (S (len s)) ncap,
     map (fun i => (id, i)) (seq 0 (S (len s)))).

(* ---------- gomini: a state is a struct of map references ---------- *)

Record gstate := mkG { subs : objid; gvars : objid }.

Definition view_map (h : heap) (m : objid) : list (N * term) :=
  match nth_error h m with Some (OMap es) => es | _ => [] end.
Definition view_gstate (h : heap) (g : gstate) : list (N * term) * list (N * term) :=
  (view_map h (subs g), view_map h (gvars g)).

(* m[k] = v on an association list *)
Definition mset (k : N) (v : term) (es : list (N * term)) : list (N * term) :=
  (k, v) :: filter (fun p => negb (N.eqb (fst p) k)) es.

(* copyMap: a new map object with the same entries *)
Definition copy_map (h : heap) (m : objid) : heap * objid := (h ++ [OMap (view_map h m)], length h).

(* m[k] = v executed on the object m of the heap *)
Definition write_map (h : heap) (m : objid) (k : N) (v : term) : heap :=
  upd h m (OMap (mset k v (view_map h m))).

Definition new_gstate (h : heap) : heap * gstate * wlog :=
  (h ++ [OMap []; OMap []], mkG (length h) (S (length h)), []).

(* Set: copy every map, then write into the COPY of substitutions *)
Definition set_copy (h : heap) (g : gstate) (k : N) (v : term) : heap * gstate * wlog :=
  let '(h1, m1) := copy_map h (subs g) in
  let '(h2, m2) := copy_map h1 (gvars g) in
  (write_map h2 m1 k v, mkG m1 m2, [(m1, N.to_nat k)]).

(* NewVar: substitutions shared by reference, vars copied, the copy written *)
Definition newvar_copy (h : heap) (g : gstate) (k : N) (v : term) : heap * gstate * wlog :=
  let '(h1, m2) := copy_map h (gvars g) in
  (write_map h1 m2 k v, mkG (subs g) m2, [(m2, N.to_nat k)]).

(* the breaking variants: write into the maps of the state that was passed in *)
Definition set_inplace (h : heap) (g : gstate) (k : N) (v : term) : heap * gstate * wlog :=
  (write_map h (subs g) k v, g, [(subs g, N.to_nat k)]).
Definition newvar_inplace (h : heap) (g : gstate) (k : N) (v : term) : heap * gstate * wlog :=
  (write_map h (gvars g) k v, g, [(gvars g, N.to_nat k)]).

(* ---------- histories: a tree of versions ---------- *)

(* every result is published (appended to the list of known values); later operations may start from ANY published
   value, so two operations with the same source are siblings, like the branches of a disjunction *)
Record world := mkW { hp : heap; slices : list slice; gstates : list gstate }.
Definition empty_world : world := mkW [] [] [].

Inductive op :=
| OpMake (c : nat)                          (* a new empty slice with capacity c *)
| OpExts (src : nat) (p : cell)             (* extend the src-th published slice *)
| OpNewState                                (* gomini.NewState() *)
| OpSet (src : nat) (k : N) (v : term)      (* (src-th published state).Set(k, v) *)
| OpNewVar (src : nat) (k : N) (v : term).  (* NewVar on the src-th published state *)

Record impl := mkImpl {
  i_exts : heap -> slice -> cell -> heap * slice * wlog;
  i_set : heap -> gstate -> N -> term -> heap * gstate * wlog;
  i_newvar : heap -> gstate -> N -> term -> heap * gstate * wlog }.

Definition impl_code : impl := mkImpl exts_copy set_copy newvar_copy.          (* what the repository does *)
Definition impl_append : impl := mkImpl exts_append set_copy newvar_copy.      (* exts written with append *)
Definition impl_inplace : impl := mkImpl exts_copy set_inplace newvar_inplace. (* Set/NewVar without copying *)

Definition step (im : impl) (w : world) (o : op) : option (world * wlog) :=
  match o with
  | OpMake c =>
      let '(h', s', lg) := make_slice (hp w) c in Some (mkW h' (slices w ++ [s']) (gstates w), lg)
  | OpExts src p =>
      match nth_error (slices w) src with
      | Some s => let '(h', s', lg) := i_exts im (hp w) s p in Some (mkW h' (slices w ++ [s']) (gstates w), lg)
      | None => None
      end
  | OpNewState =>
      let '(h', g', lg) := new_gstate (hp w) in Some (mkW h' (slices w) (gstates w ++ [g']), lg)
  | OpSet src k v =>
      match nth_error (gstates w) src with
      | Some g => let '(h', g', lg) := i_set im (hp w) g k v in Some (mkW h' (slices w) (gstates w ++ [g']), lg)
      | None => None
      end
  | OpNewVar src k v =>
      match nth_error (gstates w) src with
      | Some g => let '(h', g', lg) := i_newvar im (hp w) g k v in Some (mkW h' (slices w) (gstates w ++ [g']), lg)
      | None => None
      end
  end.

(* a log entry of a history: heap size before the operation, heap size after it, the operation's writes *)
Definition entry := (nat * nat * wlog)%type.

Fixpoint run (im : impl) (w : world) (ops : list op) : option (world * list entry) :=
  match ops with
  | [] => Some (w, [])
  | o :: r =>
      match step im w o with
      | Some (w1, lg) =>
          match run im w1 r with
          | Some (w2, es) => Some (w2, (length (hp w), length (hp w1), lg) :: es)
          | None => None
          end
      | None => None
      end
  end.

(* every published reference points into the heap *)
Definition world_ok (w : world) : Prop :=
  (forall s, In s (slices w) -> arr s < length (hp w)) /\
  (forall g, In g (gstates w) -> subs g < length (hp w) /\ gvars g < length (hp w)).

(* ---------- micro: stream cells with memoised tail ---------- *)

Section Cells.
  (* what running the closure `proc` yields: nil, or a freshly allocated cell with this content *)
  Variable procs : nat -> option object.

  (* CarCdr: (car, cdr) = (state, mem); the first call on an unforced cell runs proc and stores the result in mem *)
  Definition carcdr (h : heap) (c : objid) : heap * (option nat * option objid) * wlog :=
    match nth_error h c with
    | Some (OCell st None _) => (h, (st, None), [])
    | Some (OCell st (Some p) (Some m)) => (h, (st, Some m), [])
    | Some (OCell st (Some p) None) =>
        match procs p with
        | None => (upd h c (OCell st (Some p) None), (st, None), [(c, 2)])     (* stream.mem = nil, again *)
        | Some o =>
            let id := length h in
            (upd (h ++ [o]) c (OCell st (Some p) (Some id)), (st, Some id), [(c, 2)])
        end
    | _ => (h, (None, None), [])
    end.

  (* follow the stream for at most f cells (String / takeStream), collecting the car of every cell *)
  Fixpoint traverse (f : nat) (h : heap) (c : option objid) : heap * list (option nat) :=
    match f, c with
    | S f', Some c0 =>
        let '(h1, (st, cdr), _) := carcdr h c0 in
        let '(h2, l) := traverse f' h1 cdr in
        (h2, st :: l)
    | _, _ => (h, [])
    end.
End Cells.
