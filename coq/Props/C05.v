(* C05 — gomini: variable identity is stable across GC and allocation.
   Only statements, each closed by `exact`, with Print Assumptions beneath.  Model: AddrHeap.v — an LTS over addresses
   with an ARBITRARY collector (frees any unreachable objects) and allocator (returns any non-live address); the
   interleaving of NewVar / drop / GC / later allocations is a list of labels, so "for every schedule" is a plain forall.
   What the model cannot exhibit: what the real Go collector and allocator do (runtime); the harness probes that with
   finalizers, forced GC and GC-percent sweeps. *)
From Coq Require Import List NArith Bool.
From GMK Require Import AddrHeap AddrHeapSpec.
Import ListNotations.

(* When the state retains its placeholders: in every reachable world, whatever the collector and allocator do,
   every listed placeholder is still allocated and no value allocated later shares an address with a listed
   variable - so CastVar never classifies a later value as a variable, and a variable's classification is fixed. *)
Theorem C05_inv : forall ls w, run true empty_world ls = Some w ->
  (forall a, In a (listed w) -> In a (live w)) /\
  (forall a, In a (fresh_consts w) -> castvar w a = false).
Proof.
  intros ls w H. destruct (run_inv ls _ _ inv_empty H) as [I1 I2]. split; [exact I1|].
  intros a Ha. destruct (I2 a Ha) as [_ N]. unfold castvar.
  destruct (mem a (listed w)) eqn:E; auto. apply mem_In in E. contradiction.
Qed.
Print Assumptions C05_inv.

(* a value is classified as a variable iff it was created as one on this lineage: `listed` changes only by NewVar *)
Theorem C05_listed_only_by_newvar : forall retains w l w', step retains w l = Some w' ->
  listed w' = listed w \/ exists a, l = LNewVar a /\ listed w' = a :: listed w.
Proof. exact step_listed. Qed.
Print Assumptions C05_listed_only_by_newvar.

(* With numbers only (the state does not keep the placeholders alive) the property is FALSE: a 4-step schedule -
   create a variable, the caller drops it, the collector frees it, a later constant lands on the same address -
   ends with a later value classified as a variable. *)
Theorem C05_refuted_numbers_only : exists ls w a,
  run false empty_world ls = Some w /\ In a (fresh_consts w) /\ castvar w a = true.
Proof.
  exists [LNewVar 7%N; LDrop 7%N; LGC [7%N]; LAlloc 7%N].
  eexists. exists 7%N. vm_compute. repeat split; auto.
Qed.
Print Assumptions C05_refuted_numbers_only.

(* the same schedule is not executable when the state retains the placeholder: the collector may not free it *)
Example C05_nonvacuous :
  run true empty_world [LNewVar 7%N; LDrop 7%N; LGC [7%N]; LAlloc 7%N] = None /\
  (exists w, run true empty_world [LNewVar 7%N; LDrop 7%N; LGC []; LAlloc 8%N; LDrop 8%N; LGC [8%N]; LAlloc 8%N] = Some w
             /\ castvar w 8%N = false /\ castvar w 7%N = true).
Proof. split; [reflexivity|]. eexists. vm_compute. repeat split. Qed.
