(* C05 — gomini: variable identity is stable across GC and allocation.
   Only statements, each closed by `exact`, with Print Assumptions beneath.  Model: AddrHeap.v — an LTS over addresses
   with an ARBITRARY collector (frees any unreachable objects) and allocator (returns any non-live address); the
   interleaving of NewVar / drop / GC / later allocations is a list of labels, so "for every schedule" is a plain forall.
   What the model cannot exhibit: what the real Go collector and allocator do (runtime); the harness probes that with
   finalizers, forced GC and GC-percent sweeps. *)
From Coq Require Import List NArith Bool.
From GMK Require Import AddrHeap AddrHeapSpec AddrTree AddrTreeSpec.
Import ListNotations.

(* When the state retains its placeholders: in every reachable world, whatever the collector and allocator do,
   every listed placeholder is still allocated and no value allocated later shares an address with a listed
   variable - so CastVar never classifies a later value as a variable, and a variable's classification is fixed. *)
Theorem C05_inv : forall ls w, run true empty_world ls = Some w ->
  (forall a, In a (listed w) -> In a (live w)) /\
  (forall a, In a (fresh_consts w) -> castvar w a = false).
Proof.
  intros ls w H. destruct (run_inv ls _ _ inv_empty H) as [I1 I2]. split; [exact I1|].
  intros a Ha. destruct (I2 a Ha) as [_ N]. unfold castvar.
  destruct (mem a (listed w)) eqn:E; auto. apply mem_In in E. contradiction.
Qed.
Print Assumptions C05_inv.

(* a value is classified as a variable iff it was created as one on this lineage: `listed` changes only by NewVar *)
Theorem C05_listed_only_by_newvar : forall retains w l w', step retains w l = Some w' ->
  listed w' = listed w \/ exists a, l = LNewVar a /\ listed w' = a :: listed w.
Proof. exact step_listed. Qed.
Print Assumptions C05_listed_only_by_newvar.

(* With numbers only (the state does not keep the placeholders alive) the property is FALSE: a 4-step schedule -
   create a variable, the caller drops it, the collector frees it, a later constant lands on the same address -
   ends with a later value classified as a variable. *)
Theorem C05_refuted_numbers_only : exists ls w a,
  run false empty_world ls = Some w /\ In a (fresh_consts w) /\ castvar w a = true.
Proof.
  exists [LNewVar 7%N; LDrop 7%N; LGC [7%N]; LAlloc 7%N].
  eexists. exists 7%N. vm_compute. repeat split; auto.
Qed.
Print Assumptions C05_refuted_numbers_only.

(* Lineage TREES: several states derived from one another are alive together (the branches of a disjunction each derive
   their own child of one parent).  With the code's policy - NewVar copies the parent's table and adds the placeholder,
   so every state owns what keeps its placeholders alive - in every world reachable by any interleaving of derivations
   from ANY state, drops, collections and later allocations, every state's listed placeholders are allocated and no
   later value is classified as a variable by ANY state of the tree. *)
Theorem C05_tree_stable : forall cap extra ls w, trun false extra (tinit cap) ls = Some w ->
  (forall s g a, nth_error (tstates w) s = Some g -> In a (glisted g) -> In a (tlive w)) /\
  (forall s a, In a (tconsts w) -> tcastvar w s a = false).
Proof. exact tree_stable. Qed.
Print Assumptions C05_tree_stable.

(* If instead the parent's storage is handed down and appended to in place, the second sibling overwrites the first
   sibling's slot: the first sibling still lists its variable but no longer retains it; after the caller drops it the
   collector may free it and a later constant at that address is classified as the first sibling's variable. *)
Theorem C05_refuted_shared_storage : exists w,
  trun true 1 (tinit 2) share_sched = Some w /\ In 7%N (tconsts w) /\ tcastvar w 1 7%N = true /\
  (exists g, nth_error (tstates w) 1 = Some g /\ In 7%N (glisted g) /\ ~ In 7%N (retained w g)).
Proof. exact refuted_shared_storage. Qed.
Print Assumptions C05_refuted_shared_storage.

(* the same schedule is not executable when the state retains the placeholder: the collector may not free it *)
Example C05_nonvacuous :
  run true empty_world [LNewVar 7%N; LDrop 7%N; LGC [7%N]; LAlloc 7%N] = None /\
  (exists w, run true empty_world [LNewVar 7%N; LDrop 7%N; LGC []; LAlloc 8%N; LDrop 8%N; LGC [8%N]; LAlloc 8%N] = Some w
             /\ castvar w 8%N = false /\ castvar w 7%N = true).
Proof. split; [reflexivity|]. eexists. vm_compute. repeat split. Qed.
