(* C08 — answers are fully resolved and canonically reified.
   Only statements, each closed by `exact`, with Print Assumptions beneath.
   micro part: Reify.v (model of micro/reify.go and micro.Run), proofs in ReifySpec.v.
   gomini part (rewrite): the section at the end, over the term encoding of Go values (GVal.v). *)
From Coq Require Import List NArith ZArith Bool.
From GMK Require Import Term Unify UnifyWf UnifyTotal Goal Stream Reify ReifySpec GoLite gen.MicroGen MicroGenSpec MicroReifySpec.
Import ListNotations.

(* the reified answer is the query with all bindings applied (no bound variable remains) and the k-th distinct
   unbound variable in left-to-right order replaced by _k; the same variable always gets the same name *)
Theorem C08_order : forall f q st t, reify_var f q st = Some t ->
  exists vv, walkstar f (TVar q) (sub st) = Some vv /\
             (forall x, In x (vars vv) -> assv x (sub st) = None) /\ t = rename_first_occ vv.
Proof. exact reify_first_occ_resolved. Qed.
Print Assumptions C08_order.

(* no logic variable leaks *)
Theorem C08_no_leak : forall f q st t, reify_var f q st = Some t -> vars t = [].
Proof. exact reify_no_leak. Qed.
Print Assumptions C08_no_leak.

(* alpha-equivalent answers (equal up to an injective renaming of their unbound variables) reify identically *)
Theorem C08_alpha : forall f q1 st1 q2 st2 t1 t2 vv rho,
  reify_var f q1 st1 = Some t1 -> reify_var f q2 st2 = Some t2 ->
  walkstar f (TVar q1) (sub st1) = Some vv -> walkstar f (TVar q2) (sub st2) = Some (rename rho vv) ->
  (forall x y, In x (vars vv) -> In y (vars vv) -> rho x = rho y -> x = y) -> t1 = t2.
Proof. exact reify_alpha. Qed.
Print Assumptions C08_alpha.

(* reification terminates on every consistent state *)
Theorem C08_total : forall q st, wf (sub st) -> exists f0, forall f, (f0 <= f)%nat -> reify_var f q st <> None.
Proof. exact reify_total. Qed.
Print Assumptions C08_total.

(* Run = reification of the query variable (index 0) mapped over take; nothing in its result contains a variable *)
Theorem C08_run : forall ds uf f n g outs, run ds uf f n g = Some outs ->
  exists l, take ds uf f n (eval ds uf g [TVar 0%N] (mkSt [] 1%N)) = Some l /\
            Forall2 (fun st t => reify_var f 0%N st = Some t) l outs.
Proof. exact run_spec. Qed.
Print Assumptions C08_run.

Theorem C08_run_no_leak : forall ds uf f n g outs, run ds uf f n g = Some outs -> Forall (fun t => vars t = []) outs.
Proof. exact run_no_leak. Qed.
Print Assumptions C08_run_no_leak.

(* the code itself: walkStar, reifys and reifyS as translated from micro/walk.go and micro/reify.go on every run are the
   model's walkstar and reifys (of which reify_var - ReifyIntVarFromState - is the composition), and never panic *)
Theorem C08_code_is_model : forall f v s,
  g_walkStar f v s = of_opt (walkstar f v s) /\ g_reifys f v s = of_opt (reifys f v s) /\ g_reifyS f v = of_opt (reifys f v []).
Proof. exact (fun f v s => conj (g_walkStar_spec f v s) (conj (g_reifys_spec f v s) (g_reifyS_spec f v))). Qed.
Print Assumptions C08_code_is_model.

Theorem C08_code_never_panics : forall f v s, g_reifys f v s <> Panic /\ g_reifyS f v <> Panic.
Proof. exact reify_code_never_panics. Qed.
Print Assumptions C08_code_never_panics.

(* ReifyIntVarFromState(q)(st) = walkStar(walkStar(q, st), reifyS(walkStar(q, st))) over the generated functions *)
Theorem C08_code_reify_var : forall f q st,
  bind (g_walkStar f (TVar q) (sub st)) (fun vv => bind (g_reifyS f vv) (fun r => g_walkStar f vv r)) = of_opt (reify_var f q st).
Proof. exact code_reify_var. Qed.
Print Assumptions C08_code_reify_var.

(* Caveat made explicit by the model: reified names are ordinary symbols _k, so an answer that already contains the
   user symbol _0 is indistinguishable from one with an unbound variable there (ReifySpec.rename_first_occ_collision).
   The property only demands that alpha-equivalent answers print identically, which holds. *)

(* gomini: Run rewrites the QUERY VALUE through the bindings.  On encoded values rewrite is walkstar; the result has no
   bound variable left (C08g_resolved), and decoding gives a value of the query's sort (checked by the harness:
   dynamic Go type and contents of every gomini.Run answer). *)
Theorem C08g_resolved : forall f t s t', walkstar f t s = Some t' -> forall x, In x (vars t') -> assv x s = None.
Proof. exact walkstar_resolved. Qed.
Print Assumptions C08g_resolved.

(* gomini, on the TRANSCRIPTION of rewrite (gomini/unify.go:100-112, GCore.v) over the reflecttools value model of C18
   (struct fields, slice elements, Go map values, interface-typed slots - everything reflecttools.Map descends into):
   in the answer, nothing reachable through those containers is a bound variable; an unbound variable stays its own
   placeholder; the answer has the kind of the (walked) query - it is never a bare key, never another container.
   The correspondence check runs this transcription (gunify over the goal's equations, then grewrite of the query)
   against the real gomini.Run. *)
Require GMK.Reflect GMK.GCore GMK.GCoreSpec.

Theorem C08g_code_resolved : forall f x s r,
  Reflect.wfb x = true -> GCoreSpec.gwf_sub s -> GCore.grewrite f x s = Some r ->
  forall y, GCoreSpec.subval r y -> forall i, GCore.cast_var y = Some i -> GCore.gassv i s = None.
Proof. exact GCoreSpec.grewrite_resolved. Qed.
Print Assumptions C08g_code_resolved.

Theorem C08g_code_kind : forall f x s r, GCore.grewrite (S f) x s = Some r ->
  exists x', GCore.gwalk f x s = Some x' /\ Reflect.kind_of r = Reflect.kind_of x' /\
             (GCore.cast_var x' <> None -> r = x').
Proof. exact GCoreSpec.grewrite_kind. Qed.
Print Assumptions C08g_code_kind.

(* the text of gomini/unify.go: rewrite as translated from it on every run (gen/GominiGen.v) is the transcription, so on
   the generated code too nothing reachable in the answer is a bound variable, and it never panics *)
Require GMK.GoLite GMK.GoLiteG GMK.gen.GominiGen GMK.GominiGenSpec GMK.GominiRewriteSpec.
Theorem C08g_gen_is_transcription : forall f x s,
  GominiGen.gm_rewrite f x s = GominiGenSpec.of_optg (GCore.grewrite f x s).
Proof. exact GominiRewriteSpec.gm_rewrite_spec. Qed.
Print Assumptions C08g_gen_is_transcription.

Theorem C08g_gen_never_panics : forall f x s, GominiGen.gm_rewrite f x s <> GoLite.Panic.
Proof. exact GominiRewriteSpec.gm_rewrite_never_panics. Qed.
Print Assumptions C08g_gen_never_panics.

Theorem C08g_gen_resolved : forall f x s r,
  Reflect.wfb x = true -> GCoreSpec.gwf_sub s -> GominiGen.gm_rewrite f x s = GoLite.Ret r ->
  forall y, GCoreSpec.subval r y -> forall i, GCore.cast_var y = Some i -> GCore.gassv i s = None.
Proof. exact GominiRewriteSpec.gm_rewrite_resolved. Qed.
Print Assumptions C08g_gen_resolved.

(* non-vacuity: a bound variable inside a Go MAP value and one inside a slice are both replaced, the unbound one stays *)
Example C08g_code_nonvacuous :
  let str := fun z => Reflect.GPtr (Reflect.GScalar 1 z) in
  GCore.grewrite 20 (GCore.gvar 0)
    [(0%N, Reflect.GStructPtr [Reflect.GMap false [(7%N, GCore.gvar 1); (8%N, GCore.gvar 2)]; Reflect.GSlice false [GCore.gvar 1]]);
     (1%N, GCore.gvar 3); (3%N, str 42%Z)]
  = Some (Reflect.GStructPtr [Reflect.GMap false [(7%N, str 42%Z); (8%N, GCore.gvar 2)]; Reflect.GSlice false [str 42%Z]]).
Proof. reflexivity. Qed.

Example C08_nonvacuous :
  reify_var 10 0%N (mkSt [(0%N, TPair (TVar 1%N) (TPair (TVar 2%N) (TVar 1%N))); (1%N, TVar 3%N)] 4%N)
  = Some (TPair (reify_name 0) (TPair (reify_name 1) (reify_name 0))).
Proof. exact reify_example. Qed.
