(* C09 — mini combinators equal their definitions (conj+/disj+/conde, ifte, once).
   Only statements, each closed by `exact`, with Print Assumptions beneath.  Model: Stream.v; proofs: Comb.v, CombPerm.v.
   All statements hold for every relation table, every unify-fuel policy, every environment and start state, and every
   argument list: the arguments are arbitrary goals (failing, silently diverging, with infinitely many answers). *)
From Coq Require Import List NArith ZArith Bool Permutation.
From GMK Require Import Term Unify Goal Stream Den InStream Comb CombPerm CorrBase Corr01 Corr02 ProgExamples.
Import ListNotations.

(* without delay wrapping: DisjPlusNoZzz IS the right-nested binary disjunction (identical streams) ... *)
Theorem C09_disj_nozzz_eq : forall ds uf gs e st,
  eval ds uf (GDisjPlus false gs) e st = eval ds uf (nest_disj gs) e st.
Proof. exact disj_nozzz_eq. Qed.
Print Assumptions C09_disj_nozzz_eq.

(* ... and ConjPlusNoZzz has the identical cell trace (every suspension and every answer at the same position)
   as the right-nested binary conjunction, hence the same answers *)
Theorem C09_conj_nozzz_trace : forall ds uf gs e st f,
  trace ds uf f (eval ds uf (GConjPlus false gs) e st) = trace ds uf f (eval ds uf (nest_conj gs) e st).
Proof. exact conj_nozzz_trace. Qed.
Print Assumptions C09_conj_nozzz_trace.

Theorem C09_conj_nozzz_answers : forall ds uf gs e st x,
  InStream ds uf x (eval ds uf (GConjPlus false gs) e st) <-> InStream ds uf x (eval ds uf (nest_conj gs) e st).
Proof. exact conj_nozzz_answers. Qed.
Print Assumptions C09_conj_nozzz_answers.

(* with delay wrapping: the same answers as the right-nested binary form (the interleaving differs, the set does not) *)
Theorem C09_disj_zzz_answers : forall ds uf gs e st x,
  (forall g, In g gs -> ~ ReachErr ds uf (eval ds uf g e st)) ->
  (InStream ds uf x (eval ds uf (GDisjPlus true gs) e st) <-> InStream ds uf x (eval ds uf (nest_disj gs) e st)).
Proof. exact disj_zzz_answers. Qed.
Print Assumptions C09_disj_zzz_answers.

Theorem C09_conj_zzz_answers : forall ds uf gs e st x,
  ~ ReachErr ds uf (eval ds uf (nest_conj gs) e st) ->
  (InStream ds uf x (eval ds uf (GConjPlus true gs) e st) <-> InStream ds uf x (eval ds uf (nest_conj gs) e st)).
Proof. exact conj_zzz_answers. Qed.
Print Assumptions C09_conj_zzz_answers.

Theorem C09_conde : forall ds uf gss e st x,
  (forall gs, In gs gss -> ~ ReachErr ds uf (eval ds uf (nest_conj gs) e st)) ->
  (InStream ds uf x (eval ds uf (GConde gss) e st) <->
   InStream ds uf x (eval ds uf (nest_disj (map nest_conj gss)) e st)).
Proof. exact conde_answers. Qed.
Print Assumptions C09_conde.

(* for finite search spaces the complete answer lists are permutations of each other (multiset equality) *)
Theorem C09_disj_zzz_multiset : forall ds uf gs e st l,
  Ans ds uf (eval ds uf (GDisjPlus true gs) e st) l ->
  exists l', Ans ds uf (eval ds uf (nest_disj gs) e st) l' /\ Permutation l' l.
Proof. exact disj_zzz_perm. Qed.
Print Assumptions C09_disj_zzz_multiset.

Theorem C09_conj_zzz_multiset : forall ds uf gs e st l,
  Ans ds uf (eval ds uf (GConjPlus true gs) e st) l ->
  exists l', Ans ds uf (eval ds uf (nest_conj gs) e st) l' /\ Permutation l' l.
Proof. exact conj_zzz_perm. Qed.
Print Assumptions C09_conj_zzz_multiset.

(* the empty conjunction succeeds exactly once, the empty disjunction fails *)
Theorem C09_empty : forall ds uf z e st,
  eval ds uf (GConjPlus z []) e st = SCons st SNil /\ eval ds uf (GDisjPlus z []) e st = SNil.
Proof. exact (fun ds uf z e st => conj (conj_empty ds uf z e st) (disj_empty ds uf z e st)). Qed.
Print Assumptions C09_empty.

(* ifte: when the condition has at least one answer, the answers are those of c-and-then-t, using ALL answers of c
   and none of e ... *)
Theorem C09_ifte_then : forall ds uf c t el e st a0,
  InStream ds uf a0 (eval ds uf c e st) ->
  forall x, InStream ds uf x (eval ds uf (GIfte c t el) e st) <-> InStream ds uf x (eval ds uf (GConj c t) e st).
Proof. exact ifte_then_conj. Qed.
Print Assumptions C09_ifte_then.

(* ... when the condition fails finitely, exactly the answers of e ... *)
Theorem C09_ifte_else : forall ds uf c t el e st,
  Fails ds uf (eval ds uf c e st) ->
  forall x, InStream ds uf x (eval ds uf (GIfte c t el) e st) <-> InStream ds uf x (eval ds uf el e st).
Proof. exact ifte_else. Qed.
Print Assumptions C09_ifte_else.

(* ... and a silently diverging condition stays silent: no answer, no error, no end *)
Theorem C09_ifte_silent : forall ds uf c t el e st,
  ~ Fails ds uf (eval ds uf c e st) -> (forall a, ~ InStream ds uf a (eval ds uf c e st)) ->
  ~ ReachErr ds uf (eval ds uf c e st) ->
  (forall x, ~ InStream ds uf x (eval ds uf (GIfte c t el) e st)) /\
  ~ ReachErr ds uf (eval ds uf (GIfte c t el) e st) /\ ~ Finite ds uf (eval ds uf (GIfte c t el) e st).
Proof. exact ifte_silent. Qed.
Print Assumptions C09_ifte_silent.

(* once: at most one answer, namely the first answer of g *)
Theorem C09_once_first : forall ds uf g e st x,
  InStream ds uf x (eval ds uf (GOnce g) e st) <-> First ds uf x (eval ds uf g e st).
Proof. exact once_first. Qed.
Print Assumptions C09_once_first.

Theorem C09_once_at_most_one : forall ds uf g e st x y,
  InStream ds uf x (eval ds uf (GOnce g) e st) -> InStream ds uf y (eval ds uf (GOnce g) e st) -> x = y.
Proof. exact once_at_most_one. Qed.
Print Assumptions C09_once_at_most_one.

(* ---- the code itself.  gen/MiniGen.v is translated from mini/disj.go, mini/conj.go, mini/conde.go on every run: each
   combinator as a function from argument lists to the goal VALUE it returns (the function literals it returns are the
   bodies of micro.Disj / micro.Conj and are read as GDisj / GConj; anything else fails the translation).  For every
   argument list the returned goal IS the right-nested binary form of the (delay-wrapped) arguments, nothing panics
   (no gs[0] / gs[1:] / conj[i] out of range), and the clauses above hold of these goals. *)
Require GMK.GoLite GMK.GoLiteM GMK.gen.MiniGen GMK.MiniGenSpec.

Theorem C09_code_is_nested : forall f gs, (length gs < f)%nat ->
  MiniGen.gn_DisjPlusNoZzz f gs = GoLite.Ret (nest_disj gs) /\ MiniGen.gn_ConjPlusNoZzz f gs = GoLite.Ret (nest_conj gs) /\
  MiniGen.gn_DisjPlus f gs = GoLite.Ret (nest_disj (map GZzz gs)) /\ MiniGen.gn_ConjPlus f gs = GoLite.Ret (nest_conj (map GZzz gs)).
Proof. exact (fun f gs H => conj (MiniGenSpec.gn_DisjPlusNoZzz_spec f gs H) (conj (MiniGenSpec.gn_ConjPlusNoZzz_spec f gs H)
               (conj (MiniGenSpec.gn_DisjPlus_spec f gs H) (MiniGenSpec.gn_ConjPlus_spec f gs H)))). Qed.
Print Assumptions C09_code_is_nested.

Theorem C09_code_conde : forall f gss, (length gss < f)%nat -> (forall gs, In gs gss -> (length gs < f)%nat) ->
  MiniGen.gn_Conde f gss = GoLite.Ret (MiniGenSpec.conde_code gss).
Proof. exact MiniGenSpec.gn_Conde_spec. Qed.
Print Assumptions C09_code_conde.

Theorem C09_code_never_panics : forall f gs gss,
  MiniGen.gn_DisjPlus f gs <> GoLite.Panic /\ MiniGen.gn_DisjPlusNoZzz f gs <> GoLite.Panic /\
  MiniGen.gn_ConjPlus f gs <> GoLite.Panic /\ MiniGen.gn_ConjPlusNoZzz f gs <> GoLite.Panic /\
  ((length gss < f)%nat -> (forall gs, In gs gss -> (length gs < f)%nat) -> MiniGen.gn_Conde f gss <> GoLite.Panic).
Proof. exact MiniGenSpec.mini_code_never_panics. Qed.
Print Assumptions C09_code_never_panics.

(* the delay-wrapped forms the code builds have the answers of the plain right-nested forms; the disjunction even has the
   very stream of the model's disj+ *)
Theorem C09_code_disj_zzz_stream : forall ds uf gs e st,
  eval ds uf (nest_disj (map GZzz gs)) e st = eval ds uf (GDisjPlus true gs) e st.
Proof. exact MiniGenSpec.eval_code_disj_z. Qed.
Print Assumptions C09_code_disj_zzz_stream.

Theorem C09_code_disj_zzz_answers : forall ds uf gs e st x,
  (forall g, In g gs -> ~ ReachErr ds uf (eval ds uf g e st)) ->
  (InStream ds uf x (eval ds uf (nest_disj (map GZzz gs)) e st) <-> InStream ds uf x (eval ds uf (nest_disj gs) e st)).
Proof. exact MiniGenSpec.code_disj_z_answers. Qed.
Print Assumptions C09_code_disj_zzz_answers.

Theorem C09_code_conj_zzz_answers : forall ds uf gs e st x,
  ~ ReachErr ds uf (eval ds uf (nest_conj gs) e st) ->
  (InStream ds uf x (eval ds uf (nest_conj (map GZzz gs)) e st) <-> InStream ds uf x (eval ds uf (nest_conj gs) e st)).
Proof. exact MiniGenSpec.code_conj_z_answers. Qed.
Print Assumptions C09_code_conj_zzz_answers.

Theorem C09_code_conde_answers : forall ds uf gss e st x,
  (forall gs, In gs gss -> ~ ReachErr ds uf (eval ds uf (nest_conj gs) e st)) ->
  (InStream ds uf x (eval ds uf (MiniGenSpec.conde_code gss) e st) <->
   InStream ds uf x (eval ds uf (nest_disj (map nest_conj gss)) e st)).
Proof. exact MiniGenSpec.code_conde_answers. Qed.
Print Assumptions C09_code_conde_answers.

(* IfThenElseO / ifThenElseLoop (mini/ifthenelse.go) and OnceO / onceLoop (mini/once.go) as translated from the Go sources on
   every run (gen/LoopsGen.v, genmicro -loops): what they return is the stream the model assigns to GIfte / GOnce - so the
   clauses C09_ifte_* / C09_once_* above are statements about the text -, they return it whenever the recursion budget covers
   the mature cells of the condition's first segment, and they never panic *)
Require GMK.GoLiteS GMK.gen.StreamGen GMK.gen.LoopsGen GMK.StreamOpsSpec GMK.StreamLoopsSpec.

Theorem C09_code_ifte_is_model : forall ds uf f c t el e st r,
  LoopsGen.gs_IfThenElseO f ds uf (StreamOpsSpec.model_goal ds uf c e) (StreamOpsSpec.model_goal ds uf t e)
    (StreamOpsSpec.model_goal ds uf el e) (Some st) = GoLite.Ret r ->
  r = eval ds uf (GIfte c t el) e st.
Proof. exact StreamLoopsSpec.gs_IfThenElseO_is_eval. Qed.
Print Assumptions C09_code_ifte_is_model.

Theorem C09_code_ifte_returns : forall ds uf B f c t el e st,
  StreamOpsSpec.ends_err (eval ds uf c e st) = false ->
  (forall a, In a (StreamOpsSpec.heads (eval ds uf c e st)) ->
     StreamOpsSpec.ends_err (eval ds uf t e a) = false /\ (StreamOpsSpec.spine (eval ds uf t e a) < B)%nat) ->
  (S (StreamOpsSpec.spine (eval ds uf c e st) + B) < f)%nat ->
  LoopsGen.gs_IfThenElseO f ds uf (StreamOpsSpec.model_goal ds uf c e) (StreamOpsSpec.model_goal ds uf t e)
    (StreamOpsSpec.model_goal ds uf el e) (Some st) = GoLite.Ret (eval ds uf (GIfte c t el) e st).
Proof. exact StreamLoopsSpec.gs_IfThenElseO_complete. Qed.
Print Assumptions C09_code_ifte_returns.

(* an immature condition cell is wrapped into the suspended loop, it is not looped over on the spot *)
Theorem C09_code_ifte_suspends : forall ds uf f t el e st th,
  LoopsGen.gs_ifThenElseLoop (S f) ds uf (StreamOpsSpec.model_goal ds uf t e) (StreamOpsSpec.model_goal ds uf el e) (Some st) (SSusp th)
  = GoLite.Ret (SSusp (TIfte th t el e st)) /\
  force ds uf (TIfte th t el e st) = StreamLoopsSpec.ifte_loop ds uf t el e st (force ds uf th).
Proof. exact (fun ds uf f t el e st th => conj (StreamLoopsSpec.gs_ifte_lazy ds uf f t el e st th) (StreamLoopsSpec.force_ifte_loop ds uf th t el e st)). Qed.
Print Assumptions C09_code_ifte_suspends.

Theorem C09_code_once_is_model : forall ds uf f g e st,
  (forall r, LoopsGen.gs_OnceO f ds uf (StreamOpsSpec.model_goal ds uf g e) (Some st) = GoLite.Ret r -> r = eval ds uf (GOnce g) e st) /\
  (eval ds uf g e st <> SErr ->
   LoopsGen.gs_OnceO (S f) ds uf (StreamOpsSpec.model_goal ds uf g e) (Some st) = GoLite.Ret (eval ds uf (GOnce g) e st)).
Proof. exact (fun ds uf f g e st => conj (StreamLoopsSpec.gs_OnceO_is_eval ds uf f g e st) (StreamLoopsSpec.gs_OnceO_complete ds uf f g e st)). Qed.
Print Assumptions C09_code_once_is_model.

Theorem C09_code_loops_never_panic : forall ds uf f g1 g2 g3 st,
  LoopsGen.gs_IfThenElseO f ds uf g1 g2 g3 (Some st) <> GoLite.Panic /\ LoopsGen.gs_OnceO f ds uf g1 (Some st) <> GoLite.Panic.
Proof. exact (fun ds uf f g1 g2 g3 st => conj (StreamLoopsSpec.gs_IfThenElseO_never_panics ds uf f g1 g2 g3 st) (StreamLoopsSpec.gs_OnceO_never_panics ds uf f g1 st)). Qed.
Print Assumptions C09_code_loops_never_panic.

Example C09_code_nonvacuous :
  MiniGen.gn_Conde 5 [[GSucc; GFail]; []; [GSucc]]
  = GoLite.Ret (GDisj (GZzz (GConj (GZzz GSucc) (GZzz GFail))) (GDisj (GZzz GSucc) (GZzz (GZzz GSucc)))).
Proof. vm_compute. reflexivity. Qed.

(* non-vacuity *)
Example C09_nonvacuous :
  option_map (@length state) (run_answers (GIfte (GDisj (GCall 1 []) (GEq (PB 0) (PAtom sym_a))) (GCall 2 []) GFail) 1 100 3) = Some 3%nat /\
  option_map (@length state) (run_answers (GOnce (GCall 2 [])) 1 100 (-1)) = Some 1%nat /\
  option_map (@length state) (run_answers (GConjPlus true [GCall 2 []; GEq (PB 0) (PAtom sym_a)]) 1 100 4) = Some 4%nat.
Proof. vm_compute. auto. Qed.
