(* C17 — gomini/regex relations agree with Brzozowski-derivative semantics (alphabet {a,b}, ground expression/string).
   Only statements, each closed by `exact`, with Print Assumptions beneath.
   The relation bodies (nullo_body, isnullo_body, derivo_body, sderivo_body, sderivos_body, matcho_body, ismatcho_body and
   the helpers of simplo.go / derivo.go, and the table regex_defs) are REGENERATED from gomini/regex/*.go on every run by
   harness/cmd/genrels (coq/gen/RelRegex.v): these theorems are re-checked against what the code says now.
   `lang` is the usual inductive matching relation (RegexLang.v); `enc_re`/`enc_sym`/`enc_str` are the translator's term
   encodings of the Go values (by constructor); `Den` is the logical reading of goals (Den.v), which C02/C03 and C06 tie to
   the answers the engines return. *)
From Coq Require Import List NArith ZArith Bool.
From GMK Require Import Term Unify Goal Den ListRel RegexLang RegexSpec RegexTotal.
From GMK.gen Require Import RelRegex.
Import ListNotations.

(* the relation table regenerated from gomini/regex/*.go contains the five recursive relations *)
Example C17_table : regex_defs nullo_idx = Some nullo_body /\ regex_defs isnullo_idx = Some isnullo_body /\
  regex_defs derivo_idx = Some derivo_body /\ regex_defs sderivo_idx = Some sderivo_body /\
  regex_defs sderivos_idx = Some sderivos_body.
Proof. repeat split; reflexivity. Qed.

(* the reference semantics is the right one: nullable decides the empty word, deriv is the Brzozowski derivative,
   matching by derivatives is membership *)
Theorem C17_reference : forall r c s,
  (nullable r = true <-> lang r []) /\ (lang (deriv c r) s <-> lang r (c :: s)) /\ (matches r s = true <-> lang r s).
Proof. exact (fun r c s => conj (nullable_spec r) (conj (deriv_spec c r s) (matches_spec r s))). Qed.
Print Assumptions C17_reference.

(* NullO(r, out): out is EmptyStr when r accepts the empty string and EmptySet otherwise - exactly one verdict *)
Theorem C17_nullo : forall x o ve r, close ve x = enc_re r ->
  (Den regex_defs (GCall nullo_idx [x; o]) ve <-> close ve o = enc_re (if nullable r then REmptyStr else REmptySet)).
Proof. exact nullo_den. Qed.
Print Assumptions C17_nullo.

(* IsNullO(r) holds exactly when r accepts the empty string *)
Theorem C17_isnullo : forall x ve r, close ve x = enc_re r ->
  (Den regex_defs (GCall isnullo_idx [x]) ve <-> lang r []).
Proof. exact isnullo_den. Qed.
Print Assumptions C17_isnullo.

(* DerivO(r, c, dr): EVERY answer is a regular expression denoting the derivative of r by c; the textbook derivative
   is an answer (so there is one) *)
Theorem C17_derivo : forall x ch d ve r c, close ve x = enc_re r -> close ve ch = enc_sym c ->
  (Den regex_defs (GCall derivo_idx [x; ch; d]) ve ->
     exists q, close ve d = enc_re q /\ forall s, lang q s <-> lang r (c :: s)) /\
  (close ve d = enc_re (deriv c r) -> Den regex_defs (GCall derivo_idx [x; ch; d]) ve).
Proof. exact derivo_den. Qed.
Print Assumptions C17_derivo.

(* SDerivO: the same with the simplifying constructors (the smart constructors preserve the language) *)
Theorem C17_sderivo : forall x ch d ve r c, close ve x = enc_re r -> close ve ch = enc_sym c ->
  (Den regex_defs (GCall sderivo_idx [x; ch; d]) ve ->
     exists q, close ve d = enc_re q /\ forall s, lang q s <-> lang r (c :: s)) /\
  (close ve d = enc_re (sderiv c r) -> Den regex_defs (GCall sderivo_idx [x; ch; d]) ve).
Proof. exact sderivo_den. Qed.
Print Assumptions C17_sderivo.

(* SDerivOs(r, s, res): every answer denotes the derivative of r by the whole string s; there is one *)
Theorem C17_sderivos : forall x st d ve r s, close ve x = enc_re r -> close ve st = enc_str s ->
  (Den regex_defs (GCall sderivos_idx [x; st; d]) ve ->
     exists q, close ve d = enc_re q /\ forall t, lang q t <-> lang r (s ++ t)) /\
  (close ve d = enc_re (sderivs r s) -> Den regex_defs (GCall sderivos_idx [x; st; d]) ve).
Proof. exact sderivos_den. Qed.
Print Assumptions C17_sderivos.

(* IsMatchO(r, s) has an answer exactly when s is in the language of r *)
Theorem C17_ismatcho : forall x st ve r s, close ve x = enc_re r -> close ve st = enc_str s ->
  (Den regex_defs (GLet [x; st] ismatcho_body) ve <-> lang r s).
Proof. exact ismatcho_den. Qed.
Print Assumptions C17_ismatcho.

(* MatchO(r, s, res): res is EmptyStr when s is in the language and EmptySet otherwise: one verdict, never both *)
Theorem C17_matcho : forall x st res ve r s, close ve x = enc_re r -> close ve st = enc_str s ->
  (Den regex_defs (GLet [x; st; res] matcho_body) ve <->
   close ve res = enc_re (if matches r s then REmptyStr else REmptySet)).
Proof. exact matcho_den. Qed.
Print Assumptions C17_matcho.

Theorem C17_matcho_single_verdict : forall x st res ve r s, close ve x = enc_re r -> close ve st = enc_str s ->
  Den regex_defs (GLet [x; st; res] matcho_body) ve ->
  (close ve res = enc_re REmptyStr /\ lang r s) \/ (close ve res = enc_re REmptySet /\ ~ lang r s).
Proof. exact matcho_single_verdict. Qed.
Print Assumptions C17_matcho_single_verdict.

(* every derivable call of the table satisfies its specification (the least-fixed-point statement the above rest on) *)
Theorem C17_table_sound : forall r env, DenCall regex_defs r env -> regex_spec r env.
Proof. exact regex_sound. Qed.
Print Assumptions C17_table_sound.

(* the table is relational and every call is defined (hypotheses of the search theorems) *)
Theorem C17_table_ok : forall r body, regex_defs r = Some body -> calls_okb regex_defs body = true /\ relational body = true.
Proof. exact regex_defs_calls_ok. Qed.
Print Assumptions C17_table_ok.

(* the encodings are injective: distinct expressions / strings are distinct terms, so "exactly one verdict" is not an
   artefact of the encoding *)
Theorem C17_encoding_injective :
  (forall r r', enc_re r = enc_re r' -> r = r') /\ (forall s s', enc_str s = enc_str s' -> s = s') /\
  (forall c d, enc_sym c = enc_sym d -> c = d).
Proof. exact (conj enc_re_inj (conj enc_str_inj enc_sym_inj)). Qed.
Print Assumptions C17_encoding_injective.

(* non-vacuity: a*b and the string "b": the hypotheses are met by a closed instance, the verdict is EmptyStr,
   and the former unguarded alternative's answer (EmptySet) is excluded *)
Example C17_nonvacuous :
  let r := RConcat (RStar (RChar SA)) (RChar SB) in
  Den regex_defs (GLet [PB 2; PB 1; PB 0] matcho_body) [enc_re REmptyStr; enc_str [SB]; enc_re r] /\
  ~ Den regex_defs (GLet [PB 2; PB 1; PB 0] matcho_body) [enc_re REmptySet; enc_str [SB]; enc_re r] /\
  Den regex_defs (GLet [PB 1; PB 0] ismatcho_body) [enc_str [SB]; enc_re r] /\
  ~ Den regex_defs (GLet [PB 1; PB 0] ismatcho_body) [enc_str [SA]; enc_re r].
Proof.
  intros r. split; [|split; [|split]].
  - apply (matcho_den (PB 2) (PB 1) (PB 0) [enc_re REmptyStr; enc_str [SB]; enc_re r] r [SB] eq_refl eq_refl).
    reflexivity.
  - intros H.
    apply (matcho_den (PB 2) (PB 1) (PB 0) [enc_re REmptySet; enc_str [SB]; enc_re r] r [SB] eq_refl eq_refl) in H.
    discriminate H.
  - apply (ismatcho_den (PB 1) (PB 0) [enc_str [SB]; enc_re r] r [SB] eq_refl eq_refl). apply matches_spec. reflexivity.
  - intros H. apply (ismatcho_den (PB 1) (PB 0) [enc_str [SA]; enc_re r] r [SA] eq_refl eq_refl) in H.
    apply matches_spec in H. discriminate H.
Qed.
