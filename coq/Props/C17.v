(* C17 — gomini/regex relations agree with Brzozowski-derivative semantics. (statements are added as the proofs land) *)
From Coq Require Import List NArith ZArith Bool.
From GMK Require Import Term Unify Goal.
From GMK.gen Require Import RelRegex.
Import ListNotations.

(* the relation table regenerated from gomini/regex/*.go contains the five recursive relations *)
Example C17_table : regex_defs nullo_idx = Some nullo_body /\ regex_defs isnullo_idx = Some isnullo_body /\
  regex_defs derivo_idx = Some derivo_body /\ regex_defs sderivo_idx = Some sderivo_body /\
  regex_defs sderivos_idx = Some sderivos_body.
Proof. repeat split; reflexivity. Qed.
