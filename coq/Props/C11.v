(* C11 — no goroutine outlives a finished or cancelled search.
   Only statements, each closed by `exact`, with Print Assumptions beneath.  Models: Leak.v (three LTSs whose
   schedule is a list of labels, so "for every schedule / every early-return point / every cancellation point" is a
   plain forall) and Limiter.v (the routine limit).  The models carry the parameters a repair changes:
        as the code is now                          repaired
     Conj:   cap = 0, cap2 = 0                      cap >= n, cap2 >= 1   (make(chan answer, len(gs)), make(chan .., 1))
     Cancel: go_checks_cancel = false               true                  (Go returns when waitForRoutine says false)
     Ticker: guarded = false                        true                  (the tick send inside a select with ctx.Done)
     Limiter: release_blocks = true                 false                 (release: select { case ch <- x: default: })
   For the code as it is the property is FALSE in four ways (the `_refuted` theorems give the schedules).
   What the models cannot exhibit: goal evaluations that do not return (LCompute is always enabled: a hypothesis of
   the property for the concurrent package), relations that call themselves on their own spine (`guarded`), the
   Go scheduler and real time; "bounded time" is a bound on the number of steps. *)
From Coq Require Import List Arith Bool.
From GMK Require Import Leak LeakSpec Limiter LimiterSpec.
Import ListNotations.

(* ---------------- (a) concurrent.ConjPlus / ConjPlusZzz / DisjPlus ---------------- *)

(* With a slot per worker on ch and one slot on ch2, in every reachable configuration (every schedule, every
   early-return point, whether or not the receiver has returned) a sender that has reached its send statement can
   complete it: no send ever blocks. *)
Theorem C11_conj_no_block : forall cap cap2 early n ls c,
  n <= cap -> 1 <= cap2 -> Conj.run cap cap2 early (Conj.init_conj n) ls = Some c ->
  forall s, Conj.get c s = Some Conj.Sending -> exists c', Conj.step cap cap2 early c (Conj.LSend s) = Some c'.
Proof. exact ConjSpec.conj_no_block. Qed.
Print Assumptions C11_conj_no_block.

(* ... hence when nothing can move any more, every sender goroutine has terminated: zero goroutines are left. *)
Theorem C11_conj_leak_bounded_by_zero : forall cap cap2 early n ls c,
  n <= cap -> 1 <= cap2 -> Conj.run cap cap2 early (Conj.init_conj n) ls = Some c ->
  (forall l, Conj.step cap cap2 early c l = None) ->
  forall s st, Conj.get c s = Some st -> Conj.gone st = true.
Proof. exact ConjSpec.conj_terminal_all_gone. Qed.
Print Assumptions C11_conj_leak_bounded_by_zero.

(* The code (unbuffered ch and ch2), two goals: the ch2 message is taken first, ConjPlus returns, and both workers
   stay in their send for ever - in every continuation they have not terminated and neither their send nor a
   receive of their message is enabled. *)
Theorem C11_conj_refuted_unbuffered :
  exists ls c, Conj.run 0 0 true (Conj.init_conj 2) ls = Some c /\ Conj.rcv c = Conj.Returned /\
    Conj.get c (Conj.Wk 0) = Some Conj.Sending /\ Conj.get c (Conj.Wk 1) = Some Conj.Sending /\
    forall ls' c', Conj.run 0 0 true c ls' = Some c' ->
      forall i, i < 2 ->
        (exists st, Conj.get c' (Conj.Wk i) = Some st /\ Conj.gone st = false) /\
        Conj.step 0 0 true c' (Conj.LSend (Conj.Wk i)) = None /\
        forall d, Conj.step 0 0 true c' (Conj.LRecv (Conj.Wk i) d) = None.
Proof. exact ConjSpec.conj_refuted_unbuffered_2. Qed.
Print Assumptions C11_conj_refuted_unbuffered.

(* The exact number the model yields, for every n and every schedule: when the unbuffered ConjPlus over n goals has
   returned after receiving r messages, n + 1 - r sender goroutines are left (leaked + received = n + 1), that number
   never changes afterwards, and each of them stays unterminated in every continuation.  (r = n + 1, no leak, needs
   every goal to succeed AND all n worker messages to be taken before the ch2 message.) *)
Theorem C11_conj_unbuffered_leak_exact : forall n ls c,
  Conj.run 0 0 true (Conj.init_conj n) ls = Some c -> Conj.rcv c = Conj.Returned ->
  Conj.leaked c + Conj.received c = S n /\
  forall ls' c', Conj.run 0 0 true c ls' = Some c' ->
    Conj.leaked c' = Conj.leaked c /\
    (forall s st, Conj.get c s = Some st -> Conj.gone st = false ->
                  exists st', Conj.get c' s = Some st' /\ Conj.gone st' = false).
Proof. exact ConjSpec.conj_unbuffered_leak. Qed.
Print Assumptions C11_conj_unbuffered_leak_exact.

(* The worst case is reached for every n: the ch2 message first, all n workers left. *)
Theorem C11_conj_unbuffered_leak_worst : forall n,
  exists c, Conj.run 0 0 true (Conj.init_conj n) [Conj.LCompute Conj.Ch2; Conj.LRecv Conj.Ch2 true] = Some c /\
            Conj.rcv c = Conj.Returned /\ Conj.leaked c = n.
Proof. exact ConjSpec.conj_unbuffered_leak_all. Qed.
Print Assumptions C11_conj_unbuffered_leak_worst.

(* DisjPlus receives all n messages: for every capacity (the code: 0) a worker at its send can always be received,
   and when nothing can move every worker has terminated. *)
Theorem C11_disj_no_leak : forall cap cap2 n ls c,
  Conj.run cap cap2 false (Conj.init_disj n) ls = Some c ->
  (forall i, Conj.get c (Conj.Wk i) = Some Conj.Sending ->
             exists c', Conj.step cap cap2 false c (Conj.LRecv (Conj.Wk i) false) = Some c') /\
  ((forall l, Conj.step cap cap2 false c l = None) ->
   forall i st, Conj.get c (Conj.Wk i) = Some st -> Conj.gone st = true).
Proof. exact ConjSpec.disj_no_leak. Qed.
Print Assumptions C11_disj_no_leak.

(* ---------------- (b) gomini after cancellation ---------------- *)

(* When Go refuses to start goroutines under a cancelled context: from ANY cancelled configuration (not only the
   reachable ones, so: for every cancellation point) a schedule of length k leaves a measure of at most
   (measure - k) and creates no task.  The measure is the sum over the existing goroutines of the length of their
   remaining spine (a call counted with the spine of the body it unfolds): no new recursion is unfolded. *)
Theorem C11_cancel_bounded : forall rels ls c c',
  Cancel.guarded rels = true -> Cancel.cancelled c = true -> Cancel.run true rels c ls = Some c' ->
  length ls + Cancel.measure rels c' <= Cancel.measure rels c /\
  length (Cancel.tasks c') = length (Cancel.tasks c).
Proof. exact CancelSpec.cancel_bounded. Qed.
Print Assumptions C11_cancel_bounded.

(* the single-step form: every post-cancel step strictly decreases the measure *)
Theorem C11_cancel_step_decreases : forall rels c l c',
  Cancel.guarded rels = true -> Cancel.cancelled c = true -> Cancel.step true rels c l = Some c' ->
  Cancel.measure rels c' < Cancel.measure rels c /\ Cancel.cancelled c' = true /\
  length (Cancel.tasks c') = length (Cancel.tasks c).
Proof. exact CancelSpec.step_decreases. Qed.
Print Assumptions C11_cancel_step_decreases.

(* no goroutine is blocked: an unfinished one can step, unless it is in wg.Wait() with an unfinished child ... *)
Theorem C11_cancel_not_blocked : forall gcc rels c i t,
  nth_error (Cancel.tasks c) i = Some t -> Cancel.live t = true ->
  (exists c', Cancel.step gcc rels c (Cancel.LStep i) = Some c') \/
  (exists k, Cancel.pc t = Cancel.Wait k /\ Cancel.has_live_child i (Cancel.tasks c) = true).
Proof. exact CancelSpec.task_not_blocked. Qed.
Print Assumptions C11_cancel_not_blocked.

(* ... and as long as one goroutine is unfinished some goroutine can step (the youngest unfinished one). *)
Theorem C11_cancel_no_deadlock : forall gcc rels c,
  Cancel.wfpar c -> (exists i t, nth_error (Cancel.tasks c) i = Some t /\ Cancel.live t = true) ->
  exists i c', Cancel.step gcc rels c (Cancel.LStep i) = Some c'.
Proof. exact CancelSpec.no_deadlock. Qed.
Print Assumptions C11_cancel_no_deadlock.

(* The code (Go ignores the result of waitForRoutine): `fives` keeps creating goroutines after cancel - for every
   k there is a post-cancel schedule reaching more than k unfinished goroutines. *)
Theorem C11_cancel_refuted_spawning : forall k,
  exists ls c, Cancel.run false Cancel.fives_rels Cancel.fives_start (Cancel.LCancel :: ls) = Some c /\
               Cancel.cancelled c = true /\ k < Cancel.live_count c.
Proof. exact CancelSpec.fives_unbounded. Qed.
Print Assumptions C11_cancel_refuted_spawning.

(* ---------------- (c) the limiter's ticker goroutine ---------------- *)

(* Guarded tick send: from any cancelled configuration the ticker can always exit, and in every schedule (whatever
   the rest of the program does with the tokens) it takes at most two more steps, the second one being the exit. *)
Theorem C11_ticker : forall c,
  Ticker.cancelled c = true ->
  (Ticker.ticker c <> Ticker.Exited ->
   exists c', Ticker.step true c Ticker.LTickExit = Some c' /\ Ticker.ticker c' = Ticker.Exited) /\
  (forall ls c', Ticker.run true c ls = Some c' ->
     Ticker.cancelled c' = true /\ Ticker.ticker_steps ls <= 2 /\
     (Ticker.ticker_steps ls = 2 -> Ticker.ticker c' = Ticker.Exited)).
Proof. exact TickerSpec.ticker_guarded. Qed.
Print Assumptions C11_ticker.

(* The code (unguarded send): for every max, all permits back + the timer fires + cancel is a reachable configuration
   in which no ticker step is enabled, and the ticker stays in its send in every continuation in which nobody takes
   a token (and after a finished search nobody does). *)
Theorem C11_ticker_refuted_unguarded : forall m,
  exists c, Ticker.run false (Ticker.init m) [Ticker.LTimer; Ticker.LCancel] = Some c /\
    Ticker.cancelled c = true /\ Ticker.ticker c = Ticker.SendingTick /\
    (forall l, Ticker.is_ticker_label l = true -> Ticker.step false c l = None) /\
    forall ls c', forallb (fun l => negb (Ticker.is_take l)) ls = true -> Ticker.run false c ls = Some c' ->
                  Ticker.ticker c' = Ticker.SendingTick.
Proof. exact TickerSpec.ticker_unguarded_refuted. Qed.
Print Assumptions C11_ticker_refuted_unguarded.

(* ---------------- with a routine limit installed, no cancellation ---------------- *)

(* The code (blocking release), max = 1, one goal writing one answer: the answer is delivered, the function has
   returned (its stream is closed), a tick has refilled the channel, and the goroutine never leaves releaseRoutine:
   no step at all is possible afterwards.  The repaired release is C12_release_never_blocks / C12_terminates. *)
Theorem C11_limit_refuted_blocking_release :
  exists c, run (Some 1) true (init 1 prog_leaf) [LAcquire 0; LTick; LEmit 0; LFinish 0] = Some c /\
    out c = [7] /\ (exists t, tasks c = [t] /\ st t = Releasing) /\
    forall ls c', run (Some 1) true c ls = Some c' -> c' = c.
Proof. exact refuted_release_leak. Qed.
Print Assumptions C11_limit_refuted_blocking_release.

(* ---------------- non-vacuity ---------------- *)

(* repaired ConjPlus over two goals, early return on a failed goal: a reachable configuration with a sender at its
   send after the return; and a complete run *)
Example C11_conj_nonvacuous :
  (exists c, Conj.run 2 1 true (Conj.init_conj 2)
               [Conj.LCompute (Conj.Wk 0); Conj.LRecv (Conj.Wk 0) true; Conj.LCompute (Conj.Wk 1); Conj.LCompute Conj.Ch2] = Some c /\
             Conj.rcv c = Conj.Returned /\ Conj.get c (Conj.Wk 1) = Some Conj.Sending /\
             Conj.get c Conj.Ch2 = Some Conj.Sending) /\
  (exists c, Conj.run 2 1 true (Conj.init_conj 2)
               [Conj.LCompute (Conj.Wk 0); Conj.LRecv (Conj.Wk 0) true; Conj.LCompute (Conj.Wk 1); Conj.LCompute Conj.Ch2;
                Conj.LSend (Conj.Wk 1); Conj.LSend Conj.Ch2] = Some c /\
             (forall l, Conj.step 2 1 true c l = None) /\ Conj.leaked c = 0) /\
  (* the same schedule is stuck in the code: the last two sends are not enabled *)
  Conj.run 0 0 true (Conj.init_conj 2)
     [Conj.LCompute (Conj.Wk 0); Conj.LRecv (Conj.Wk 0) true; Conj.LCompute (Conj.Wk 1); Conj.LCompute Conj.Ch2;
      Conj.LSend (Conj.Wk 1)] = None.
Proof.
  split; [|split].
  - eexists. split; [vm_compute; reflexivity|]. repeat split.
  - eexists. split; [vm_compute; reflexivity|]. split; [|reflexivity].
    intros [[i|]|[i|]|[i|] d]; try reflexivity; destruct i as [|[|[|i]]]; reflexivity.
  - reflexivity.
Qed.

Example C11_disj_nonvacuous :
  exists c, Conj.run 0 0 false (Conj.init_disj 2)
              [Conj.LCompute (Conj.Wk 1); Conj.LCompute (Conj.Wk 0); Conj.LRecv (Conj.Wk 1) false; Conj.LRecv (Conj.Wk 0) false] = Some c /\
            (forall l, Conj.step 0 0 false c l = None) /\ Conj.leaked c = 0.
Proof.
  eexists. split; [vm_compute; reflexivity|]. split; [|reflexivity].
  intros [[i|]|[i|]|[i|] d]; try reflexivity; destruct i as [|[|[|i]]]; reflexivity.
Qed.

(* fives under go_checks_cancel = true: guarded, cancelled after one unfolding and one Go, measure 3, and a complete
   post-cancel run of 3 steps after which nothing is left; under go_checks_cancel = false the same prefix has
   already 51 unfinished goroutines after 25 rounds *)
Example C11_cancel_nonvacuous :
  Cancel.guarded Cancel.fives_rels = true /\
  (exists c, Cancel.run true Cancel.fives_rels Cancel.fives_start [Cancel.LStep 0; Cancel.LStep 0; Cancel.LCancel] = Some c /\
     Cancel.cancelled c = true /\ Cancel.measure Cancel.fives_rels c = 3 /\
     exists c', Cancel.run true Cancel.fives_rels c
                  [Cancel.LStep 1; Cancel.LStep 0; Cancel.LStep 0] = Some c' /\
                Cancel.measure Cancel.fives_rels c' = 0 /\ Cancel.live_count c' = 0) /\
  (exists c, Cancel.run false Cancel.fives_rels Cancel.fives_start (Cancel.LCancel :: Cancel.fives_sched 25 0) = Some c /\
     Cancel.live_count c = 51).
Proof.
  split; [reflexivity|]. split.
  - eexists. split; [vm_compute; reflexivity|]. split; [reflexivity|]. split; [reflexivity|].
    eexists. split; [vm_compute; reflexivity|]. split; reflexivity.
  - eexists. split; [vm_compute; reflexivity|]. vm_compute. reflexivity.
Qed.

Example C11_ticker_nonvacuous :
  exists c, Ticker.run true (Ticker.init 1) [Ticker.LTake; Ticker.LTimer; Ticker.LCancel] = Some c /\
    Ticker.cancelled c = true /\ Ticker.ticker c = Ticker.SendingTick /\
    (exists c', Ticker.run true c [Ticker.LTickSend; Ticker.LPut; Ticker.LTickExit] = None /\
                Ticker.run true c [Ticker.LTickSend; Ticker.LTake; Ticker.LTickExit] = Some c' /\
                Ticker.ticker c' = Ticker.Exited) /\
    (* from the refuted configuration (channel full) the guarded ticker does get out *)
    exists c2, Ticker.run true (Ticker.init 1) [Ticker.LTimer; Ticker.LCancel; Ticker.LTickExit] = Some c2 /\
               Ticker.ticker c2 = Ticker.Exited.
Proof.
  eexists. split; [vm_compute; reflexivity|]. split; [reflexivity|]. split; [reflexivity|]. split.
  - eexists. split; [reflexivity|]. split; [vm_compute; reflexivity|]. reflexivity.
  - eexists. split; [vm_compute; reflexivity|]. reflexivity.
Qed.
