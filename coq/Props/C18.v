(* C18 — reflecttools Map / Any / ZipReduce obey their structural laws.
   Only statements, each closed by `exact`, with Print Assumptions beneath. Model: Reflect.v (transcription of
   gomini/reflecttools/reflect.go after "fix: reflecttools.Map keeps nil slices, nil maps and nil elements"),
   proofs: ReflectSpec.v.  Deep equality (reflect.DeepEqual on one static type) is equality of gvals
   (ReflectSpec.gval_eqb_eq); the nil / empty-non-nil distinction is the bool of GSlice / GMap, the static
   interface-typing of a slot is GNil / GIface. *)
From Coq Require Import List NArith ZArith Bool Permutation.
From GMK Require Import Reflect ReflectSpec.
Import ListNotations.

(* Map with the identity function returns a deeply equal value for EVERY well-formed value (pointers to structs,
   slices, maps -- nil, empty or not, with nil pointers, nil interfaces, nil slices, nil maps inside -- and everything
   else), calling the function exactly once per field / element / map value, in order. *)
Theorem C18_map_id : forall x, wfb x = true -> rmap (fun a => a) x = (x, mchildren x).
Proof. exact rmap_id_wf. Qed.
Print Assumptions C18_map_id.

(* the exact frontier: the only encodings on which identity-Map is not the identity have a slot "interface holding
   the nil interface", which is not a Go value (wfb excludes it; the harness encoder never produces it) *)
Theorem C18_map_id_exact : forall x, fst (rmap (fun a => a) x) = x <-> ~ In (GIface GNil) (mslots x).
Proof. exact rmap_id_iff. Qed.
Print Assumptions C18_map_id_exact.

(* nil stays nil, for every function, and the function is not called: the nil interface, nil pointers,
   nil slices and nil maps *)
Theorem C18_map_nil : forall f x, is_nil x = true \/ container_nil x = true -> rmap f x = (x, []).
Proof. exact rmap_nil. Qed.
Print Assumptions C18_map_nil.

(* f is applied exactly once per field / element / map value, in index order: the call log IS the list of children *)
Theorem C18_map_calls : forall f x, snd (rmap f x) = mchildren x.
Proof. exact rmap_calls. Qed.
Print Assumptions C18_map_calls.

(* Go iterates maps in random order: any other order gives the same result and the same calls up to permutation *)
Theorem C18_map_calls_perm : forall f en en', Permutation en en' ->
  Permutation (snd (rmap f (GMap false en))) (snd (rmap f (GMap false en'))) /\
  exists m m', fst (rmap f (GMap false en)) = GMap false m /\
               fst (rmap f (GMap false en')) = GMap false m' /\ Permutation m m'.
Proof. exact rmap_map_perm. Qed.
Print Assumptions C18_map_calls_perm.

(* the result has the same kind, pointee kind, nil-ness, keys and number of slots; slot i holds what the function
   returned for child i -- the zero value of the slot's type when it returned the untyped nil ([store]);
   when the function returns proper values ([plain]: neither the untyped nil nor an interface wrapper), the children
   of the result are exactly the images of the children, in order *)
Theorem C18_map_shape : forall f x,
  let v := fst (rmap f x) in
  kind_of v = kind_of x /\ elem_kind v = elem_kind x /\ container_nil v = container_nil x /\
  mkeys v = mkeys x /\
  mslots v = map (fun s => store s (f (unwrap s))) (mslots x) /\
  ((forall a, In a (mchildren x) -> plain (f a)) -> mchildren v = map f (mchildren x)).
Proof. exact rmap_shape. Qed.
Print Assumptions C18_map_shape.

Theorem C18_map_store : forall s b,
  (b = GNil -> store s b = zero_of s) /\ (plain b -> unwrap (store s b) = b) /\ zero_of (zero_of s) = zero_of s.
Proof. exact store_spec. Qed.
Print Assumptions C18_map_store.

(* everything that is not a pointer to a struct, a slice or a map is returned as is, f is never called *)
Theorem C18_map_other : forall f x,
  (forall fs, x <> GStructPtr fs) -> (forall n es, x <> GSlice n es) -> (forall n en, x <> GMap n en) ->
  rmap f x = (x, []).
Proof. exact rmap_other. Qed.
Print Assumptions C18_map_other.

(* Any is true exactly when the predicate holds for some field or element; it stops at the first hit (the log is
   the prefix up to and including it) and otherwise visits every child once in order.  [children] of a map is []:
   Any never looks at map values. *)
Theorem C18_any_iff : forall p x,
  (fst (rany p x) = true <-> exists e, In e (children x) /\ p e = true) /\
  (fst (rany p x) = true ->
     exists l1 e l2, children x = l1 ++ e :: l2 /\ (forall a, In a l1 -> p a = false) /\ p e = true /\
                     snd (rany p x) = l1 ++ [e]) /\
  (fst (rany p x) = false -> snd (rany p x) = children x).
Proof. exact rany_iff. Qed.
Print Assumptions C18_any_iff.

(* ZipReduce over two struct pointers with the same number of fields, or two slices of the same length, is the left
   fold of f over the corresponding pairs, cut at the FIRST prefix whose accumulator is the zero value:
   either no non-empty prefix folds to zero, the result is the whole fold and every pair was visited in order;
   or n is the least length >= 1 whose prefix folds to zero, the result is zero and exactly those n pairs were visited. *)
Theorem C18_zip_fold :
  forall (B : Type) (zero : B) (eqb_zero : B -> bool), (forall b, eqb_zero b = true <-> b = zero) ->
  forall (f : gval -> gval -> B -> B) init x y xs ys, zip_children x y = Some (xs, ys) ->
  let step := fun (b : B) (p : gval * gval) => f (fst p) (snd p) b in
  let ps := combine xs ys in
  ((forall n, 1 <= n <= length ps -> fold_left step (firstn n ps) init <> zero) /\
     zipreduce zero eqb_zero f init x y = (fold_left step ps init, ps)) \/
  (exists n, 1 <= n <= length ps /\ fold_left step (firstn n ps) init = zero /\
             (forall m, 1 <= m < n -> fold_left step (firstn m ps) init <> zero) /\
             zipreduce zero eqb_zero f init x y = (zero, firstn n ps)).
Proof. exact (@zipreduce_fold). Qed.
Print Assumptions C18_zip_fold.

(* shapes: both nil (nil interface or nil pointer) -> the initial value; exactly one nil -> zero; neither nil and
   not (two struct pointers with equally many fields, or two slices of equal length) -> zero; f is never called.
   (Kind mismatch, pointers to non-structs, maps -- even equal ones --, structs by value and scalars all fall
   under the third clause.) *)
Theorem C18_zip_shape :
  forall (B : Type) (zero : B) (eqb_zero : B -> bool) (f : gval -> gval -> B -> B) init x y,
  (is_nil x = true -> is_nil y = true -> zipreduce zero eqb_zero f init x y = (init, [])) /\
  (is_nil x <> is_nil y -> zipreduce zero eqb_zero f init x y = (zero, [])) /\
  (is_nil x = false -> is_nil y = false ->
   (forall fx fy, x = GStructPtr fx -> y = GStructPtr fy -> length fx <> length fy) ->
   (forall nx ex ny ey, x = GSlice nx ex -> y = GSlice ny ey -> length ex <> length ey) ->
   zipreduce zero eqb_zero f init x y = (zero, [])).
Proof.
  exact (fun B zero eqb_zero f init x y =>
    conj (zipreduce_both_nil zero eqb_zero f init x y)
   (conj (zipreduce_one_nil zero eqb_zero f init x y) (zipreduce_mismatch zero eqb_zero f init x y))).
Qed.
Print Assumptions C18_zip_shape.

(* the side condition of C18_zip_fold is exactly the negation of the third clause of C18_zip_shape *)
Theorem C18_zip_shape_exhaustive : forall x y, zip_children x y = None <->
  (forall fx fy, x = GStructPtr fx -> y = GStructPtr fy -> length fx <> length fy) /\
  (forall nx ex ny ey, x = GSlice nx ex -> y = GSlice ny ey -> length ex <> length ey).
Proof. exact zip_children_none. Qed.
Print Assumptions C18_zip_shape_exhaustive.

(* non-vacuity: concrete values on which the statements fire non-trivially *)
Example C18_nonvacuous :
  let s3 := GStructPtr [GNilPtr; GSlice true []; GPtr (GScalar 0 3); GMap true []] in         (* &S{C: &3} *)
  let s5 := GStructPtr [s3; GSlice false [s3; GNilPtr]; GPtr (GScalar 0 5); GMap false [(1%N, s3)]] in
  let w := GStructPtr [GNil; GSlice false [GNil; GIface (GScalar 0 1); GIface s3]] in         (* &W{V: nil, L: []any{nil, 1, s3}} *)
  let anys := GSlice false [GNil; GIface (GScalar 0 1); GIface GNilPtr] in                    (* []any{nil, 1, nil pointer to int} *)
  let inc := fun a => match a with GPtr (GScalar k n) => GPtr (GScalar k (n + 1)) | _ => a end in
  let isnil := fun a => match a with GNilPtr => true | _ => false end in
  let sum := fun a b (acc : Z) => match a, b with GScalar _ m, GScalar _ n => (acc + m - n)%Z | _, _ => 0%Z end in
  let ints := fun l => GSlice false (map (GScalar 0) l) in
  wfb s5 = true /\ wfb w = true /\ wfb anys = true /\
  (* identity Map: deeply equal, four calls in field order; nil slices, nil maps, nil interfaces survive *)
  rmap (fun a => a) s5 = (s5, [s3; GSlice false [s3; GNilPtr]; GPtr (GScalar 0 5); GMap false [(1%N, s3)]]) /\
  rmap (fun a => a) w = (w, [GNil; GSlice false [GNil; GIface (GScalar 0 1); GIface s3]]) /\
  rmap (fun a => a) anys = (anys, [GNil; GScalar 0 1; GNilPtr]) /\
  rmap (fun a => a) (GMap false [(2%N, GNil); (4%N, GIface (GScalar 0 1))]) =
    (GMap false [(2%N, GNil); (4%N, GIface (GScalar 0 1))], [GNil; GScalar 0 1]) /\
  rmap (fun a => a) (GSlice true []) = (GSlice true [], []) /\
  (* a non-identity function lands in the right slot; an untyped nil result becomes the zero value of the slot *)
  fst (rmap inc s5) = GStructPtr [s3; GSlice false [s3; GNilPtr]; GPtr (GScalar 0 6); GMap false [(1%N, s3)]] /\
  fst (rmap (fun _ => GNil) s5) = GStructPtr [GNilPtr; GSlice true []; GNilPtr; GMap true []] /\
  fst (rmap (fun _ => GNil) anys) = GSlice false [GNil; GNil; GNil] /\
  fst (rmap (fun _ => GNil) (ints [4; 5]%Z)) = ints [0; 0]%Z /\
  (* Any stops at the first hit: two calls, not three *)
  rany isnil (GSlice false [s3; GNilPtr; s5]) = (true, [s3; GNilPtr]) /\
  rany isnil (GMap false [(1%N, GNilPtr)]) = (false, []) /\
  (* ZipReduce: full fold; early exit at the second of three pairs although the fold would recover *)
  zipreduce 0%Z (Z.eqb 0) sum 10%Z (ints [5; 1; 1]%Z) (ints [1; 2; 3]%Z) = (11%Z, combine (map (GScalar 0) [5; 1; 1]%Z) (map (GScalar 0) [1; 2; 3]%Z)) /\
  zipreduce 0%Z (Z.eqb 0) sum 1%Z (ints [1; 1; 9]%Z) (ints [1; 2; 3]%Z) = (0%Z, [(GScalar 0 1, GScalar 0 1); (GScalar 0 1, GScalar 0 2)]) /\
  fold_left (fun b p => sum (fst p) (snd p) b) (combine (map (GScalar 0) [1; 1; 9]%Z) (map (GScalar 0) [1; 2; 3]%Z)) 1%Z = 6%Z /\
  (* shapes *)
  zipreduce 0%Z (Z.eqb 0) sum 7%Z GNil GNilPtr = (7%Z, []) /\
  zipreduce 0%Z (Z.eqb 0) sum 7%Z s3 GNilPtr = (0%Z, []) /\
  zipreduce 0%Z (Z.eqb 0) sum 7%Z (ints [1]%Z) (ints [1; 2]%Z) = (0%Z, []) /\
  zipreduce 0%Z (Z.eqb 0) sum 7%Z (GSlice true []) (GSlice false []) = (7%Z, []) /\
  zipreduce 0%Z (Z.eqb 0) sum 7%Z (GMap false []) (GMap false []) = (0%Z, []).
Proof. cbv zeta. repeat (split; [vm_compute; reflexivity|]). vm_compute. reflexivity. Qed.
