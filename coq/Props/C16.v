(* C16 — ast.Compare is a total order consistent with Equal; Sort sorts by it.
   Only statements, each closed by `exact`, with Print Assumptions beneath. Model: SexprStruct.v. *)
From Coq Require Import List ZArith Permutation Sorted.
From GMK Require Import SexprStruct CompareSpec.
Import ListNotations.

(* reflexive: 0 on equal values *)
Theorem C16_refl : forall x, cmp_int (cmp_sexpr x x) = 0%Z.
Proof. intros x. rewrite cmp_refl. reflexivity. Qed.
Print Assumptions C16_refl.

(* returns 0 exactly when Equal (reflect.DeepEqual) reports true; and DeepEqual is structural identity *)
Theorem C16_zero_iff_equal : forall x y, cmp_int (cmp_sexpr x y) = 0%Z <-> deep_equal x y = true.
Proof. exact cmp_zero_iff_equal. Qed.
Print Assumptions C16_zero_iff_equal.

Theorem C16_equal_is_identity : forall x y, deep_equal x y = true <-> x = y.
Proof. exact deep_equal_eq. Qed.
Print Assumptions C16_equal_is_identity.

(* antisymmetric: swapping the arguments flips the sign *)
Theorem C16_antisym : forall x y, cmp_int (cmp_sexpr y x) = (- cmp_int (cmp_sexpr x y))%Z.
Proof. intros x y. rewrite (cmp_antisym x y). destruct (cmp_sexpr x y); reflexivity. Qed.
Print Assumptions C16_antisym.

(* transitive, in all three forms *)
Theorem C16_trans_lt : forall x y z, cmp_sexpr x y = Lt -> cmp_sexpr y z = Lt -> cmp_sexpr x z = Lt.
Proof. exact cmp_trans_lt. Qed.
Print Assumptions C16_trans_lt.

Theorem C16_trans_gt : forall x y z, cmp_sexpr x y = Gt -> cmp_sexpr y z = Gt -> cmp_sexpr x z = Gt.
Proof. exact cmp_trans_gt. Qed.
Print Assumptions C16_trans_gt.

Theorem C16_trans_le : forall x y z, cmp_sexpr x y <> Gt -> cmp_sexpr y z <> Gt -> cmp_sexpr x z <> Gt.
Proof. exact cmp_trans_le. Qed.
Print Assumptions C16_trans_le.

(* the result is always one of -1, 0, 1 (by construction) and the order is total *)
Theorem C16_total : forall x y, cmp_sexpr x y <> Gt \/ cmp_sexpr y x <> Gt.
Proof. exact le_total. Qed.
Print Assumptions C16_total.

(* Less satisfies the strict-weak-order contract of sort.Sort *)
Theorem C16_less_strict_weak :
  (forall x, less x x = false) /\
  (forall x y z, less x y = true -> less y z = true -> less x z = true) /\
  (forall x y z, less x y = false -> less y x = false -> less y z = false -> less z y = false ->
                 less x z = false /\ less z x = false).
Proof. exact (conj less_irrefl (conj less_trans less_incomparable_trans)). Qed.
Print Assumptions C16_less_strict_weak.

(* canonical form: two Compare-sorted permutations of one multiset of answers are the same list,
   whatever order the answers were produced in *)
Theorem C16_sorted_unique :
  forall l1 l2 s1 s2, Permutation l1 l2 -> Permutation l1 s1 -> sorted s1 -> Permutation l2 s2 -> sorted s2 -> s1 = s2.
Proof. exact sort_order_independent. Qed.
Print Assumptions C16_sorted_unique.

(* any sorted permutation (in particular ast.Sort's output, which the harness checks to be one) is the
   reference insertion sort of the model *)
Theorem C16_sort_canonical : forall l l', Permutation l l' -> sorted l' -> l' = isort l.
Proof. exact sort_canonical. Qed.
Print Assumptions C16_sort_canonical.

Theorem C16_isort_spec : forall l, Permutation l (isort l) /\ sorted (isort l).
Proof. exact (fun l => conj (isort_perm l) (isort_sorted l)). Qed.
Print Assumptions C16_isort_spec.

(* non-vacuity: concrete, exotic values on which the statements fire non-trivially *)
Example C16_nonvacuous :
  let a := mk_cons (mk_sym [97%N]) (mk_int (-9223372036854775808)%Z) in
  let b := mk_cons (mk_sym [97%N]) (mk_int 9223372036854775807%Z) in
  let c := SNode (PCons SNull SNull) (Some no_atom) in      (* both Pair and Atom set *)
  cmp_sexpr c a = Lt /\ cmp_sexpr a b = Lt /\ cmp_sexpr c b = Lt /\ cmp_sexpr b c = Gt /\
  deep_equal a b = false /\ isort [b; c; a; b] = [c; a; b; b] /\ sorted [c; a; b; b].
Proof. cbv zeta. repeat (split; [reflexivity|]). apply sortedb_sorted. reflexivity. Qed.
