(* C04 — gomini: EqualO is sound, complete, most-general unification over Go values.
   Only statements, each closed by `exact`, with Print Assumptions beneath.
   Model: GVal.v — Go values (variables by registration, everything else by content/shape) and `gunify`, which is
   the micro unification algorithm on the injective encoding `enc`; placeholder contents do not exist in the model. *)
From Coq Require Import List NArith ZArith Bool.
From GMK Require Import Term Unify UnifySpec UnifyWf UnifyTotal GVal GValSpec.
Import ListNotations.

(* deep equality of Go values (variables by identity) is equality of encodings *)
Theorem C04_encoding_faithful : forall v w, enc v = enc w <-> v = w.
Proof. exact (fun v w => conj (enc_inj v w) (fun E => f_equal enc E)). Qed.
Print Assumptions C04_encoding_faithful.

(* on success: earlier bindings are preserved, and the solutions of the result are exactly the unifiers of the two
   values compatible with the earlier bindings (sound + most general) *)
Theorem C04_preserves : forall f x y s s', gunify f x y s = Ok s' -> exists ext, s' = genc_subst s ++ ext.
Proof. exact (fun f x y s s' H => proj1 (unify_sound f _ _ _ s' H)). Qed.
Print Assumptions C04_preserves.

Theorem C04_mgu : forall f x y s s', gunify f x y s = Ok s' ->
  forall r, sat r s' <-> (sat r (genc_subst s) /\ inst r (enc x) = inst r (enc y)).
Proof. exact (fun f x y s s' H => unify_mgu f _ _ _ s' H). Qed.
Print Assumptions C04_mgu.

(* both sides resolve to deeply equal values under the result *)
Theorem C04_resolve_equal : forall f x y s s', wf (genc_subst s) -> gunify f x y s = Ok s' ->
  exists f1 t, walkstar f1 (enc x) s' = Some t /\ walkstar f1 (enc y) s' = Some t.
Proof. exact (fun f x y s s' W H => unify_walkstar_eq f _ _ _ s' W H). Qed.
Print Assumptions C04_resolve_equal.

(* failure exactly when no finite unifier compatible with the bindings exists; always a definite verdict *)
Theorem C04_fail : forall f x y s, gunify f x y s = Fail ->
  ~ exists r, sat r (genc_subst s) /\ inst r (enc x) = inst r (enc y).
Proof. exact (fun f x y s => unify_fail f _ _ _). Qed.
Print Assumptions C04_fail.

Theorem C04_total : forall x y s, wf (genc_subst s) ->
  gunify (ufuel (enc x) (enc y) (genc_subst s)) x y s <> OOF.
Proof. exact (fun x y s W => ufuel_enough _ _ _ W). Qed.
Print Assumptions C04_total.

Theorem C04_wf : forall f x y s s', wf (genc_subst s) -> gunify f x y s = Ok s' -> wf s'.
Proof. exact (fun f x y s s' W H => unify_wf f _ _ _ s' W H). Qed.
Print Assumptions C04_wf.

(* non-vacuity: two fresh variables of a struct type unify by binding one to the other (never "already equal"),
   and a variable does not unify with a struct that contains it *)
Example C04_nonvacuous :
  gunify 20 (GVarP 0) (GVarP 1) [] = Ok [(0%N, TVar 1%N)] /\
  gunify 20 (GVarP 0) (GStruct 7 [GVarP 0; GNilP]) [] = Fail /\
  gunify 20 (GStruct 7 [GVarP 0; GScalarP (AStr 5)]) (GStruct 7 [GNilP; GVarP 1]) [] = Ok [(0%N, TNil); (1%N, TAtom (AStr 5))].
Proof. repeat split; reflexivity. Qed.

(* ------------------------------------------------------------------------------------------------------------------
   The same statements for the TRANSCRIPTION of gomini/unify.go (GCore.v): walk, CastVar, hasCycle through
   reflecttools.Any, isLeaf + reflect.DeepEqual, and the descent through reflecttools.ZipReduce with the state as the
   accumulator, over the reflecttools value model of C18 (Reflect.v).  `tenc` / `senc` encode pointer-shaped values
   (nil pointers, pointers to scalars, pointers to structs, slices, registered variable pointers `gvar i`, and - in
   interface-typed fields / elements - any of these or the untyped nil interface) and states as terms and substitutions.  The correspondence check runs THIS transcription against the real EqualO. *)
Require GMK.Reflect GMK.GCore GMK.GCoreSpec.

(* the transcribed algorithm computes what micro's verified unify computes on the encodings *)
Theorem C04_code_is_unify : forall f x y s tx ty ts,
  GCore.tenc x = Some tx -> GCore.tenc y = Some ty -> GCore.senc s = Some ts ->
  match GCore.gunify f x y s with
  | GCore.GROOF => True
  | GCore.GRFail => exists f2, unify f2 tx ty ts = Fail
  | GCore.GROk s' => exists ts' f2, GCore.senc s' = Some ts' /\ unify f2 tx ty ts = Ok ts'
  end.
Proof. exact GCoreSpec.gunify_enc. Qed.
Print Assumptions C04_code_is_unify.

(* success: the earlier bindings are kept (the new state's encoding extends the old one) and the solutions of the new
   state are exactly the unifiers of the two values compatible with the old state: a most general unifier *)
Theorem C04_code_ok : forall f x y s s' tx ty ts,
  GCore.tenc x = Some tx -> GCore.tenc y = Some ty -> GCore.senc s = Some ts ->
  GCore.gunify f x y s = GCore.GROk s' ->
  exists ts', GCore.senc s' = Some ts' /\ (exists ext, ts' = ts ++ ext) /\
              (forall r, sat r ts' <-> sat r ts /\ inst r tx = inst r ty).
Proof. exact GCoreSpec.gunify_ok. Qed.
Print Assumptions C04_code_ok.

(* failure: no finite unifier compatible with the bindings exists *)
Theorem C04_code_fail : forall f x y s tx ty ts,
  GCore.tenc x = Some tx -> GCore.tenc y = Some ty -> GCore.senc s = Some ts ->
  GCore.gunify f x y s = GCore.GRFail -> ~ exists r, sat r ts /\ inst r tx = inst r ty.
Proof. exact GCoreSpec.gunify_fail. Qed.
Print Assumptions C04_code_fail.

(* the goal: zero or one state *)
Theorem C04_code_equalo : forall f x y s l tx ty ts,
  GCore.tenc x = Some tx -> GCore.tenc y = Some ty -> GCore.senc s = Some ts ->
  GCore.gequalo f x y s = Some l ->
  (l = [] /\ ~ exists r, sat r ts /\ inst r tx = inst r ty) \/
  (exists s' ts', l = [s'] /\ GCore.senc s' = Some ts' /\ (exists ext, ts' = ts ++ ext) /\
                  forall r, sat r ts' <-> sat r ts /\ inst r tx = inst r ty).
Proof. exact GCoreSpec.gequalo_spec. Qed.
Print Assumptions C04_code_equalo.

(* acyclicity is preserved *)
Theorem C04_code_wf : forall f x y s s' tx ty ts,
  GCore.tenc x = Some tx -> GCore.tenc y = Some ty -> GCore.senc s = Some ts -> wf ts ->
  GCore.gunify f x y s = GCore.GROk s' -> exists ts', GCore.senc s' = Some ts' /\ wf ts'.
Proof. exact GCoreSpec.gunify_wf. Qed.
Print Assumptions C04_code_wf.

(* ---- the text of gomini/unify.go.  gen/GominiGen.v is translated from it on every run (harness/cmd/genmicro -gomini:
   statement by statement into a result monad with out-of-fuel and panic outcomes, the reflecttools calls as the model of
   C18); the generated functions ARE the transcription above, for every input and every recursion budget *)
Require GMK.GoLite GMK.GoLiteG GMK.gen.GominiGen GMK.GominiGenSpec.

Theorem C04_gen_is_transcription : forall f x y s i,
  GominiGen.gm_unify f x y s = GominiGenSpec.of_gres (GCore.gunify f x y s) /\
  GominiGen.gm_walk f x s = GominiGenSpec.of_optg (GCore.gwalk f x s) /\
  GominiGen.gm_hasCycle f i y s = GominiGenSpec.of_optg (GCore.ghascycle f i y s) /\
  GominiGen.gm_isLeaf x = GoLite.Ret (GCore.is_leaf x).
Proof. exact (fun f x y s i => conj (GominiGenSpec.gm_unify_spec f x y s) (conj (GominiGenSpec.gm_walk_spec f x s)
               (conj (GominiGenSpec.gm_hasCycle_spec f i y s) (GominiGenSpec.gm_isLeaf_spec x)))). Qed.
Print Assumptions C04_gen_is_transcription.

Theorem C04_gen_never_panics : forall f x y s i,
  GominiGen.gm_unify f x y s <> GoLite.Panic /\ GominiGen.gm_walk f x s <> GoLite.Panic /\
  GominiGen.gm_hasCycle f i y s <> GoLite.Panic /\ GominiGen.gm_isLeaf x <> GoLite.Panic.
Proof. exact GominiGenSpec.gomini_code_never_panics. Qed.
Print Assumptions C04_gen_never_panics.

Theorem C04_gen_is_unify : forall f x y s tx ty ts,
  GCore.tenc x = Some tx -> GCore.tenc y = Some ty -> GCore.senc s = Some ts ->
  match GominiGen.gm_unify f x y s with
  | GoLite.Ret None => exists f2, unify f2 tx ty ts = Fail
  | GoLite.Ret (Some s') => exists ts' f2, GCore.senc s' = Some ts' /\ unify f2 tx ty ts = Ok ts'
  | GoLite.OOF_ => True
  | GoLite.Panic => False
  end.
Proof. exact GominiGenSpec.gm_unify_is_unify. Qed.
Print Assumptions C04_gen_is_unify.

Theorem C04_gen_mgu : forall f x y s s' tx ty ts,
  GCore.tenc x = Some tx -> GCore.tenc y = Some ty -> GCore.senc s = Some ts ->
  GominiGen.gm_unify f x y s = GoLite.Ret (Some s') ->
  exists ts', GCore.senc s' = Some ts' /\ (exists ext, ts' = ts ++ ext) /\
              (forall r, sat r ts' <-> sat r ts /\ inst r tx = inst r ty).
Proof. exact GominiGenSpec.gm_unify_mgu. Qed.
Print Assumptions C04_gen_mgu.

Theorem C04_gen_fail : forall f x y s tx ty ts,
  GCore.tenc x = Some tx -> GCore.tenc y = Some ty -> GCore.senc s = Some ts ->
  GominiGen.gm_unify f x y s = GoLite.Ret None -> ~ exists r, sat r ts /\ inst r tx = inst r ty.
Proof. exact GominiGenSpec.gm_unify_fail. Qed.
Print Assumptions C04_gen_fail.

Example C04_gen_nonvacuous :
  let str := fun z => Reflect.GPtr (Reflect.GScalar 1 z) in
  GominiGen.gm_unify 20 (Reflect.GStructPtr [GCore.gvar 0; str 5%Z]) (Reflect.GStructPtr [Reflect.GNilPtr; GCore.gvar 1]) []
    = GoLite.Ret (Some [(0%N, Reflect.GNilPtr); (1%N, str 5%Z)]) /\
  GominiGen.gm_unify 20 (GCore.gvar 0) (Reflect.GStructPtr [GCore.gvar 0; Reflect.GNilPtr]) [] = GoLite.Ret None.
Proof. vm_compute. split; reflexivity. Qed.

(* non-vacuity, on the transcription: two fresh variables unify by binding one to the other; a variable does not unify with
   a struct that contains it; a struct pattern against data binds field by field; slices of different length do not unify *)
Example C04_code_nonvacuous :
  let str := fun z => Reflect.GPtr (Reflect.GScalar 1 z) in
  GCore.gunify 20 (GCore.gvar 0) (GCore.gvar 1) [] = GCore.GROk [(0%N, GCore.gvar 1)] /\
  GCore.gunify 20 (GCore.gvar 0) (Reflect.GStructPtr [GCore.gvar 0; Reflect.GNilPtr]) [] = GCore.GRFail /\
  GCore.gunify 20 (Reflect.GStructPtr [GCore.gvar 0; str 5%Z]) (Reflect.GStructPtr [Reflect.GNilPtr; GCore.gvar 1]) []
    = GCore.GROk [(0%N, Reflect.GNilPtr); (1%N, str 5%Z)] /\
  GCore.gunify 20 (Reflect.GSlice false [str 1%Z; str 2%Z]) (Reflect.GSlice false [str 1%Z; str 2%Z; str 3%Z]) [] = GCore.GRFail /\
  GCore.tenc (Reflect.GStructPtr [GCore.gvar 0; str 5%Z]) = Some (TPair (TAtom (AInt 2)) (TPair (TVar 0) (TPair (TAtom (AStr 5)) TNil))) /\
  (* interface-typed fields: a variable against the untyped nil is BOUND to it; afterwards it no longer unifies with a constant *)
  GCore.gunify 20 (Reflect.GStructPtr [Reflect.GIface (GCore.gvar 0); Reflect.GNil]) (Reflect.GStructPtr [Reflect.GNil; Reflect.GIface (GCore.gvar 1)]) []
    = GCore.GROk [(0%N, Reflect.GNil); (1%N, Reflect.GNil)] /\
  GCore.gunify 20 (GCore.gvar 0) (str 5%Z) [(0%N, Reflect.GNil)] = GCore.GRFail /\
  GCore.tenc (Reflect.GStructPtr [Reflect.GIface (GCore.gvar 0); Reflect.GNil]) = Some (TPair (TAtom (AInt 2)) (TPair (TVar 0) (TPair (TAtom GCore.nil_iface_atom) TNil))).
Proof. repeat split; reflexivity. Qed.
