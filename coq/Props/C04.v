(* C04 — gomini: EqualO is sound, complete, most-general unification over Go values.
   Only statements, each closed by `exact`, with Print Assumptions beneath.
   Model: GVal.v — Go values (variables by registration, everything else by content/shape) and `gunify`, which is
   the micro unification algorithm on the injective encoding `enc`; placeholder contents do not exist in the model. *)
From Coq Require Import List NArith ZArith Bool.
From GMK Require Import Term Unify UnifySpec UnifyWf UnifyTotal GVal GValSpec.
Import ListNotations.

(* deep equality of Go values (variables by identity) is equality of encodings *)
Theorem C04_encoding_faithful : forall v w, enc v = enc w <-> v = w.
Proof. exact (fun v w => conj (enc_inj v w) (fun E => f_equal enc E)). Qed.
Print Assumptions C04_encoding_faithful.

(* on success: earlier bindings are preserved, and the solutions of the result are exactly the unifiers of the two
   values compatible with the earlier bindings (sound + most general) *)
Theorem C04_preserves : forall f x y s s', gunify f x y s = Ok s' -> exists ext, s' = genc_subst s ++ ext.
Proof. exact (fun f x y s s' H => proj1 (unify_sound f _ _ _ s' H)). Qed.
Print Assumptions C04_preserves.

Theorem C04_mgu : forall f x y s s', gunify f x y s = Ok s' ->
  forall r, sat r s' <-> (sat r (genc_subst s) /\ inst r (enc x) = inst r (enc y)).
Proof. exact (fun f x y s s' H => unify_mgu f _ _ _ s' H). Qed.
Print Assumptions C04_mgu.

(* both sides resolve to deeply equal values under the result *)
Theorem C04_resolve_equal : forall f x y s s', wf (genc_subst s) -> gunify f x y s = Ok s' ->
  exists f1 t, walkstar f1 (enc x) s' = Some t /\ walkstar f1 (enc y) s' = Some t.
Proof. exact (fun f x y s s' W H => unify_walkstar_eq f _ _ _ s' W H). Qed.
Print Assumptions C04_resolve_equal.

(* failure exactly when no finite unifier compatible with the bindings exists; always a definite verdict *)
Theorem C04_fail : forall f x y s, gunify f x y s = Fail ->
  ~ exists r, sat r (genc_subst s) /\ inst r (enc x) = inst r (enc y).
Proof. exact (fun f x y s => unify_fail f _ _ _). Qed.
Print Assumptions C04_fail.

Theorem C04_total : forall x y s, wf (genc_subst s) ->
  gunify (ufuel (enc x) (enc y) (genc_subst s)) x y s <> OOF.
Proof. exact (fun x y s W => ufuel_enough _ _ _ W). Qed.
Print Assumptions C04_total.

Theorem C04_wf : forall f x y s s', wf (genc_subst s) -> gunify f x y s = Ok s' -> wf s'.
Proof. exact (fun f x y s s' W H => unify_wf f _ _ _ s' W H). Qed.
Print Assumptions C04_wf.

(* non-vacuity: two fresh variables of a struct type unify by binding one to the other (never "already equal"),
   and a variable does not unify with a struct that contains it *)
Example C04_nonvacuous :
  gunify 20 (GVarP 0) (GVarP 1) [] = Ok [(0%N, TVar 1%N)] /\
  gunify 20 (GVarP 0) (GStruct 7 [GVarP 0; GNilP]) [] = Fail /\
  gunify 20 (GStruct 7 [GVarP 0; GScalarP (AStr 5)]) (GStruct 7 [GNilP; GVarP 1]) [] = Ok [(0%N, TNil); (1%N, TAtom (AStr 5))].
Proof. repeat split; reflexivity. Qed.
