(* C03 — micro/mini: search is complete, fair, prefix-closed and deterministic.
   Only statements, each closed by `exact`, with Print Assumptions beneath.
   The fragment: purely relational goals (no ifte / once) over a relation table whose bodies are guard-shaped
   (`defs_ok`: head is a Zzz or a conj+/disj+/conde wrapper, possibly under CallFresh; every called relation defined)
   — the property's "goals whose recursive calls are delayed".  Unify fuel is the proved-sufficient `ufuel`. *)
From Coq Require Import List NArith ZArith Bool.
From GMK Require Import Term Unify UnifyTotal Goal Stream Den InStream Sound Complete CorrBase Corr01 Corr02 ProgExamples.
Import ListNotations.

Lemma ufuel_ok : uf_ok ufuel.
Proof. exact ufuel_enough. Qed.

(* Completeness with fairness: every solution of the formula that is compatible with the start state is an
   instance of an answer occurring at a FINITE position of the stream (InStream = reached after finitely many
   cells and forces), whatever the sibling branches do: infinitely many answers, or none and no termination. *)
Theorem C03_complete : forall ds, defs_ok ds -> defs_relational ds ->
  forall g ve, Den ds g ve ->
  forall e st r, ve = map (inst r) e -> relational g = true -> calls_okb ds g = true ->
  wf_state st -> env_ok e (ctr st) -> sat r (sub st) ->
  exists x r', InStream ds ufuel x (eval ds ufuel g e st) /\ sat r' (sub x) /\
               (forall y, (y < ctr st)%N -> r' y = r y).
Proof. exact (fun ds => eval_complete ds ufuel ufuel_ok). Qed.
Print Assumptions C03_complete.

(* ... and a finite position means: asking for enough answers returns it *)
Theorem C03_finite_position : forall ds, defs_ok ds -> defs_relational ds ->
  forall g e st r, Den ds g (map (inst r) e) -> relational g = true -> calls_okb ds g = true ->
  wf_state st -> env_ok e (ctr st) -> sat r (sub st) ->
  exists f n l x r', take ds ufuel f n (eval ds ufuel g e st) = Some l /\ In x l /\ sat r' (sub x) /\
                     (forall y, (y < ctr st)%N -> r' y = r y).
Proof. exact (fun ds => eval_complete_take_answer ds ufuel ufuel_ok). Qed.
Print Assumptions C03_finite_position.

(* the search never gets stuck: no error is reachable by forcing (every force of a guarded program is total) *)
Theorem C03_total_force : forall ds, defs_ok ds ->
  forall g e st, calls_okb ds g = true -> wf_state st -> env_ok e (ctr st) ->
  ~ ReachErr ds ufuel (eval ds ufuel g e st).
Proof. exact (fun ds => eval_no_err ds ufuel ufuel_ok). Qed.
Print Assumptions C03_total_force.

(* fairness of the merge itself, in both argument positions, and of bind *)
Theorem C03_mplus_fair : forall ds uf x a b, ~ ReachErr ds uf a -> ~ ReachErr ds uf b ->
  (InStream ds uf x (mplus a b) <-> InStream ds uf x a \/ InStream ds uf x b).
Proof. exact InS_mplus. Qed.
Print Assumptions C03_mplus_fair.

(* ---- asking for n answers (takeStream); every stream s, any relation table, any fuel policy ---- *)
From GMK Require Take.

(* returns at most n, and fewer than n only when the search space is exhausted and then all of them:
   exactly n whenever at least n exist *)
Theorem C03_at_most_n : forall ds uf f n s l,
  take ds uf f n s = Some l -> (0 <= n)%Z -> (length l <= Z.to_nat n)%nat.
Proof. exact Take.take_length. Qed.
Print Assumptions C03_at_most_n.

Theorem C03_fewer_only_if_exhausted : forall ds uf f n s l,
  take ds uf f n s = Some l -> (0 <= n)%Z -> (length l < Z.to_nat n)%nat ->
  Finite ds uf s /\ forall x, InStream ds uf x s -> In x l.
Proof. exact Take.take_exact. Qed.
Print Assumptions C03_fewer_only_if_exhausted.

Theorem C03_exactly_n_when_available : forall ds uf n s,
  Take.AtLeast ds uf (Z.to_nat n) s -> (0 < n)%Z ->
  exists f l, take ds uf f n s = Some l /\ length l = Z.to_nat n.
Proof. exact Take.take_total_n. Qed.
Print Assumptions C03_exactly_n_when_available.

(* negative n: all answers, exactly when the search space is finite *)
Theorem C03_all_for_negative_n : forall ds uf f n s l,
  (n < 0)%Z -> take ds uf f n s = Some l -> Finite ds uf s /\ forall x, InStream ds uf x s <-> In x l.
Proof. exact Take.take_negative. Qed.
Print Assumptions C03_all_for_negative_n.

(* the code itself: takeStream as translated from micro/stream.go on every run (gen/StreamGen.v: statement by statement,
   CarCdr as one step of the stream model, a nil dereference or a nil state in the result as Panic) IS `take`, for every
   count, stream and fuel; the count clauses hold of it and it never panics *)
Require GMK.GoLite GMK.GoLiteS GMK.gen.StreamGen GMK.StreamGenSpec.
Theorem C03_code_take_is_model : forall ds uf f n s,
  StreamGen.gs_takeStream f ds uf n s = StreamGenSpec.of_optS (take ds uf f n s).
Proof. exact StreamGenSpec.gs_takeStream_spec. Qed.
Print Assumptions C03_code_take_is_model.

Theorem C03_code_take_never_panics : forall ds uf f n s, StreamGen.gs_takeStream f ds uf n s <> GoLite.Panic.
Proof. exact StreamGenSpec.gs_takeStream_never_panics. Qed.
Print Assumptions C03_code_take_never_panics.

Theorem C03_code_at_most_n : forall ds uf f n s l,
  StreamGen.gs_takeStream f ds uf n s = GoLite.Ret l -> (0 <= n)%Z -> (length l <= Z.to_nat n)%nat.
Proof. exact StreamGenSpec.gs_take_at_most_n. Qed.
Print Assumptions C03_code_at_most_n.

Theorem C03_code_fewer_only_if_exhausted : forall ds uf f n s l,
  StreamGen.gs_takeStream f ds uf n s = GoLite.Ret l -> (0 <= n)%Z -> (length l < Z.to_nat n)%nat ->
  Finite ds uf s /\ forall x, InStream ds uf x s -> In x l.
Proof. exact StreamGenSpec.gs_take_fewer_only_if_exhausted. Qed.
Print Assumptions C03_code_fewer_only_if_exhausted.

Theorem C03_code_all_for_negative_n : forall ds uf f n s l,
  (n < 0)%Z -> StreamGen.gs_takeStream f ds uf n s = GoLite.Ret l -> Finite ds uf s /\ forall x, InStream ds uf x s <-> In x l.
Proof. exact StreamGenSpec.gs_take_negative. Qed.
Print Assumptions C03_code_all_for_negative_n.

(* Mplus (micro/disj.go) and Bind (micro/conj.go) as translated on every run are the model's mplus and bindk: whatever they
   return is the model's stream; they return it whenever the recursion budget covers the run of mature cells at the front
   (and no cell there is the model's error cell); they never panic; and an immature cell is NOT run when it is merely
   inspected - the new suspension wraps its thunk - which is what the fairness lemmas above rest on.  A goal is seen by the
   stream operators as a GoLiteS.sgoal: how to run it on a state, and how the (defunctionalised) model names the suspended
   Bind of it over a thunk and the suspension of the goal itself at a state. *)
Require GMK.StreamOpsSpec.
Theorem C03_code_mplus_is_model : forall ds uf f s1 s2,
  (forall r, StreamGen.gs_Mplus f ds uf s1 s2 = GoLite.Ret r -> r = mplus s1 s2) /\
  (StreamOpsSpec.ends_err s1 = false -> (StreamOpsSpec.spine s1 < f)%nat -> StreamGen.gs_Mplus f ds uf s1 s2 = GoLite.Ret (mplus s1 s2)) /\
  StreamGen.gs_Mplus f ds uf s1 s2 <> GoLite.Panic.
Proof. exact (fun ds uf f s1 s2 => conj (StreamOpsSpec.gs_Mplus_sound ds uf f s1 s2)
               (conj (StreamOpsSpec.gs_Mplus_complete ds uf f s1 s2) (StreamOpsSpec.gs_Mplus_never_panics ds uf f s1 s2))). Qed.
Print Assumptions C03_code_mplus_is_model.

Theorem C03_code_bind_is_model : forall ds uf B f s g,
  (forall r, StreamGen.gs_Bind f ds uf s g = GoLite.Ret r -> r = bindk (GoLiteS.sg_run g) (GoLiteS.sg_bind g) s) /\
  (StreamOpsSpec.ends_err s = false ->
   (forall a, In a (StreamOpsSpec.heads s) -> StreamOpsSpec.ends_err (GoLiteS.sg_run g a) = false /\ (StreamOpsSpec.spine (GoLiteS.sg_run g a) < B)%nat) ->
   (StreamOpsSpec.spine s + B < f)%nat -> StreamGen.gs_Bind f ds uf s g = GoLite.Ret (bindk (GoLiteS.sg_run g) (GoLiteS.sg_bind g) s)) /\
  StreamGen.gs_Bind f ds uf s g <> GoLite.Panic.
Proof. exact (fun ds uf B f s g => conj (StreamOpsSpec.gs_Bind_sound ds uf f s g)
               (conj (StreamOpsSpec.gs_Bind_complete ds uf B f s g) (StreamOpsSpec.gs_Bind_never_panics ds uf f s g))). Qed.
Print Assumptions C03_code_bind_is_model.

Theorem C03_code_suspensions_not_run : forall ds uf f th s2 g,
  StreamGen.gs_Mplus (S f) ds uf (SSusp th) s2 = GoLite.Ret (SSusp (TMplus s2 th)) /\
  StreamGen.gs_Bind (S f) ds uf (SSusp th) g = GoLite.Ret (SSusp (GoLiteS.sg_bind g th)).
Proof. exact (fun ds uf f th s2 g => conj (StreamOpsSpec.gs_Mplus_lazy ds uf f th s2) (StreamOpsSpec.gs_Bind_lazy ds uf f th g)). Qed.
Print Assumptions C03_code_suspensions_not_run.

(* the goal constructors Disj (micro/disj.go) and Conj (micro/conj.go) as translated: on goals seen as (run, name-of-suspended-Bind)
   pairs they return the streams the model's eval assigns to GDisj / GConj, and never panic *)
Theorem C03_code_disj_conj_are_eval : forall ds uf f g1 g2 e st r,
  (StreamGen.gs_Disj f ds uf (StreamOpsSpec.model_goal ds uf g1 e) (StreamOpsSpec.model_goal ds uf g2 e) (Some st) = GoLite.Ret r ->
   r = eval ds uf (GDisj g1 g2) e st) /\
  (StreamGen.gs_Conj f ds uf (StreamOpsSpec.model_goal ds uf g1 e) (StreamOpsSpec.model_goal ds uf g2 e) (Some st) = GoLite.Ret r ->
   r = eval ds uf (GConj g1 g2) e st).
Proof. exact (fun ds uf f g1 g2 e st r => conj (StreamOpsSpec.gs_Disj_is_eval ds uf f g1 g2 e st r) (StreamOpsSpec.gs_Conj_is_eval ds uf f g1 g2 e st r)). Qed.
Print Assumptions C03_code_disj_conj_are_eval.

(* Zzz (micro/stream.go) and CallFresh (micro/fresh.go) as translated return the streams eval assigns to GZzz / GFresh:
   a suspension of the goal at the state, not run; the goal applied to the variable numbered by the counter, on the state
   with the counter advanced by one and the substitution untouched *)
Theorem C03_code_zzz_fresh_are_eval : forall ds uf g e st,
  StreamGen.gs_Zzz ds uf (StreamOpsSpec.model_goal ds uf g e) (Some st) = GoLite.Ret (eval ds uf (GZzz g) e st) /\
  StreamGen.gs_CallFresh ds uf (fun v => StreamOpsSpec.model_goal ds uf g (v :: e)) (Some st) = GoLite.Ret (eval ds uf (GFresh g) e st).
Proof. exact (fun ds uf g e st => conj (StreamOpsSpec.gs_Zzz_is_eval ds uf g e st) (StreamOpsSpec.gs_CallFresh_is_eval ds uf g e st)). Qed.
Print Assumptions C03_code_zzz_fresh_are_eval.

Theorem C03_code_disj_conj_return : forall ds uf B f g1 g2 st,
  StreamOpsSpec.ends_err (GoLiteS.sg_run g1 st) = false ->
  ((StreamOpsSpec.spine (GoLiteS.sg_run g1 st) < f)%nat -> StreamGen.gs_Disj f ds uf g1 g2 (Some st) = GoLite.Ret (mplus (GoLiteS.sg_run g1 st) (GoLiteS.sg_run g2 st))) /\
  ((forall a, In a (StreamOpsSpec.heads (GoLiteS.sg_run g1 st)) -> StreamOpsSpec.ends_err (GoLiteS.sg_run g2 a) = false /\ (StreamOpsSpec.spine (GoLiteS.sg_run g2 a) < B)%nat) ->
   (StreamOpsSpec.spine (GoLiteS.sg_run g1 st) + B < f)%nat -> StreamGen.gs_Conj f ds uf g1 g2 (Some st) = GoLite.Ret (bindk (GoLiteS.sg_run g2) (GoLiteS.sg_bind g2) (GoLiteS.sg_run g1 st))) /\
  StreamGen.gs_Disj f ds uf g1 g2 (Some st) <> GoLite.Panic /\ StreamGen.gs_Conj f ds uf g1 g2 (Some st) <> GoLite.Panic.
Proof. exact (fun ds uf B f g1 g2 st He => conj (StreamOpsSpec.gs_Disj_complete ds uf f g1 g2 st He)
               (conj (StreamOpsSpec.gs_Conj_complete ds uf B f g1 g2 st He) (StreamOpsSpec.gs_ctors_never_panic ds uf f g1 g2 st))). Qed.
Print Assumptions C03_code_disj_conj_return.

Theorem C03_finite_returns : forall ds uf s, Finite ds uf s -> ~ ReachErr ds uf s ->
  forall n, exists f l, take ds uf f n s = Some l.
Proof. exact Take.take_finite_total. Qed.
Print Assumptions C03_finite_returns.

(* the result for n is a prefix of the result for n+1 *)
Theorem C03_prefix : forall ds uf f f' n s l l',
  take ds uf f n s = Some l -> take ds uf f' (n + 1) s = Some l' -> (0 <= n)%Z ->
  exists tl, l' = l ++ tl /\ (length tl <= 1)%nat.
Proof. exact Take.take_prefix. Qed.
Print Assumptions C03_prefix.

(* deterministic: the result does not depend on how long the search is allowed to run (the model is a function,
   so running the same goal again gives the same sequence; the harness checks the implementation's reruns) *)
Theorem C03_deterministic : forall ds uf f f' n s l l',
  take ds uf f n s = Some l -> take ds uf f' n s = Some l' -> l = l'.
Proof. exact Take.take_deterministic_prefix. Qed.
Print Assumptions C03_deterministic.

(* a state is at a finite position iff some request returns it *)
Theorem C03_position : forall ds uf x s,
  InStream ds uf x s <-> exists f n l, take ds uf f n s = Some l /\ In x l.
Proof.
  intros ds uf x s. split.
  - exact (Take.take_complete ds uf x s).
  - intros (f & n & l & H & I). exact (Take.take_sound ds uf f n s l x H I).
Qed.
Print Assumptions C03_position.

(* non-vacuity: the example relation table satisfies the hypotheses; fives-or-sixes style interleaving:
   (disj (alwayso) (nevero)) keeps producing answers although one disjunct is silent, and
   appendo x y (a b) (three answers, finite) returns all three for n = -1 and exactly two for n = 2 *)
Example C03_nonvacuous_defs : defs_ok exdefs /\ defs_relational exdefs.
Proof.
  split; intros r body H; (destruct r as [|[|[|r]]]; simpl in H;
    [inversion H; subst; vm_compute; auto .. | destruct r; discriminate]).
Qed.

Example C03_nonvacuous_fair :
  option_map (@length state) (run_answers (GDisj (GCall 1 []) (GCall 2 [])) 1 100 5) = Some 5%nat /\
  option_map (@length state) (run_answers (GDisj (GCall 2 []) (GCall 1 [])) 1 100 5) = Some 5%nat /\
  option_map (@length state) (run_answers split_ab 1 100 (-1)) = Some 3%nat /\
  option_map (@length state) (run_answers split_ab 1 100 2) = Some 2%nat.
Proof. vm_compute. auto. Qed.
