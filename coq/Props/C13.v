(* C13 — list relations denote append/member/map in every mode, in all engines.
   Only statements, each closed by `exact`, with Print Assumptions beneath.
   The relation bodies (appendo_body, membero_body, mapo_body, nullo_body, conso_body, caro_body, concato_body,
   prependo_body and the tables mini_defs / concato_defs) are REGENERATED from the Go source on every run by
   harness/cmd/genrels (coq/gen/RelMini.v, RelConcato.v): these theorems are re-checked against what the code says now.
   "In every mode": the statements are about the logical reading Den (which arguments are known is irrelevant to it);
   C02_sound / C03_complete transfer them to the answers of the search, whatever is unknown (the two *_search_* theorems). *)
From Coq Require Import List NArith ZArith Bool.
From GMK Require Import Term Unify UnifyTotal Goal Stream Den ListRel Unrolled.
From GMK.gen Require Import RelMini RelConcato.
Import ListNotations.

(* AppendO(l, t, out): out is l followed by t, l a proper list *)
Theorem C13_append_den : forall fcall l t o ve,
  Den (mini_defs fcall) (GCall appendo_idx [l; t; o]) ve <->
  exists xs, close ve l = tlist xs TNil /\ close ve o = tlist xs (close ve t).
Proof. exact append_den. Qed.
Print Assumptions C13_append_den.

(* a list of length n has exactly its n+1 splits *)
Theorem C13_splits : forall os L T,
  (exists xs, L = tlist xs TNil /\ tlist os TNil = tlist xs T) <->
  (exists k, (k <= length os)%nat /\ L = tlist (firstn k os) TNil /\ T = tlist (skipn k os) TNil).
Proof. exact append_splits. Qed.
Print Assumptions C13_splits.

(* MemberO(x, y): y is a list (possibly improper) one of whose elements is x *)
Theorem C13_member_den : forall fcall x y ve,
  Den (mini_defs fcall) (GCall membero_idx [x; y]) ve <->
  exists pre rest, close ve y = tlist pre (TPair (close ve x) rest).
Proof. exact member_den. Qed.
Print Assumptions C13_member_den.

(* MapO(f, x, y) for an arbitrary relation f with reading R: element-wise R on two proper lists of equal length *)
Theorem C13_map_den : forall fcall (R : term -> term -> Prop),
  (forall ve a b, Den (mini_defs fcall) (fcall [a; b]) ve <-> R (close ve a) (close ve b)) ->
  forall x y ve,
  Den (mini_defs fcall) (GCall mapo_idx [x; y]) ve <->
  exists xs ys, close ve x = tlist xs TNil /\ close ve y = tlist ys TNil /\ Forall2 R xs ys.
Proof. exact map_den. Qed.
Print Assumptions C13_map_den.

(* NullO, ConsO, CarO, PrependO *)
Theorem C13_helpers : forall ds ve,
  (forall x, Den ds (GLet [x] nullo_body) ve <-> close ve x = TNil) /\
  (forall a d p, Den ds (GLet [a; d; p] conso_body) ve <-> close ve p = TPair (close ve a) (close ve d)) /\
  (forall p a, Den ds (GLet [p; a] caro_body) ve <-> exists d, close ve p = TPair (close ve a) d) /\
  (forall h t l, Den ds (GLet [h; t; l] prependo_body) ve <-> close ve l = TPair (close ve h) (close ve t)).
Proof.
  exact (fun ds ve => conj (fun x => nullo_den ds x ve) (conj (fun a d p => conso_den ds a d p ve)
        (conj (fun p a => caro_den ds p a ve) (fun h t l => prependo_den ds h t l ve)))).
Qed.
Print Assumptions C13_helpers.

(* gomini's ConcatO denotes the same relation, and the two engines' relations agree on corresponding inputs *)
Theorem C13_concat_den : forall xs ys zs ve,
  Den concato_defs (GCall concato_idx [xs; ys; zs]) ve <->
  exists l, close ve xs = tlist l TNil /\ close ve zs = tlist l (close ve ys).
Proof. exact concat_den. Qed.
Print Assumptions C13_concat_den.

Theorem C13_engines_agree : forall fcall a b c ve,
  Den concato_defs (GCall concato_idx [a; b; c]) ve <-> Den (mini_defs fcall) (GCall appendo_idx [a; b; c]) ve.
Proof. exact engines_agree. Qed.
Print Assumptions C13_engines_agree.

(* the unrolled variants (Go meta-programs over a ground list, models in Unrolled.v) denote the same relations *)
Theorem C13_member_unrolled : forall fcall ys x ve,
  Den (mini_defs fcall) (GCall membero_idx [x; plist ys]) ve <-> Den (mini_defs fcall) (membero_unrolled ys x) ve.
Proof. exact member_unrolled_eq. Qed.
Print Assumptions C13_member_unrolled.

Theorem C13_map_unrolled : forall fcall (R : term -> term -> Prop),
  (forall ve a b, Den (mini_defs fcall) (fcall [a; b]) ve <-> R (close ve a) (close ve b)) ->
  forall cars x ve,
  (Den (mini_defs fcall) (mapo_unrolled fcall cars x) ve <-> Den (mini_defs fcall) (GCall mapo_idx [x; plist cars]) ve) /\
  (Den (mini_defs fcall) (mapo_double_unrolled fcall cars x) ve <-> Den (mini_defs fcall) (GCall mapo_idx [x; plist cars]) ve).
Proof.
  exact (fun fcall R H cars x ve => conj (map_unrolled_den fcall R H cars x ve) (map_double_unrolled_den fcall R H cars x ve)).
Qed.
Print Assumptions C13_map_unrolled.

(* the search: whichever arguments are unknown, every answer's instances satisfy the relation, and every satisfying
   tuple compatible with the start state is an instance of an answer returned for some finite request *)
Theorem C13_append_answers_sound : forall fcall l t o e st x,
  wf_state st -> env_ok e (ctr st) ->
  InStream (mini_defs fcall) ufuel x (eval (mini_defs fcall) ufuel (GCall appendo_idx [l; t; o]) e st) ->
  forall r, sat r (sub x) ->
  sat r (sub st) /\ exists xs, inst r (close e l) = tlist xs TNil /\ inst r (close e o) = tlist xs (inst r (close e t)).
Proof. exact append_search_sound. Qed.
Print Assumptions C13_append_answers_sound.

Theorem C13_append_answers_complete : forall fcall l t o e st r xs,
  (forall args, calls_okb (mini_defs fcall) (fcall args) = true) -> (forall args, relational (fcall args) = true) ->
  wf_state st -> env_ok e (ctr st) -> sat r (sub st) ->
  inst r (close e l) = tlist xs TNil -> inst r (close e o) = tlist xs (inst r (close e t)) ->
  exists x r', InStream (mini_defs fcall) ufuel x (eval (mini_defs fcall) ufuel (GCall appendo_idx [l; t; o]) e st) /\
    (exists f n ans, take (mini_defs fcall) ufuel f n (eval (mini_defs fcall) ufuel (GCall appendo_idx [l; t; o]) e st) = Some ans /\ In x ans) /\
    sat r' (sub x) /\ (forall y, (y < ctr st)%N -> r' y = r y).
Proof. exact append_search_complete. Qed.
Print Assumptions C13_append_answers_complete.

(* the relation table of the library satisfies the hypotheses of C03 (bodies guard-shaped, calls defined, relational) *)
Theorem C13_table_ok : forall fcall,
  (forall args, calls_okb (mini_defs fcall) (fcall args) = true) -> (forall args, relational (fcall args) = true) ->
  defs_ok (mini_defs fcall) /\ defs_relational (mini_defs fcall).
Proof. exact (fun fcall H1 H2 => conj (mini_defs_ok fcall H1) (mini_defs_relational fcall H2)). Qed.
Print Assumptions C13_table_ok.

(* non-vacuity: f := EqualO satisfies the hypotheses on fcall *)
Example C13_nonvacuous :
  (forall ve a b, Den (mini_defs fcall_eq) (fcall_eq [a; b]) ve <-> close ve a = close ve b) /\
  (forall args, calls_okb (mini_defs fcall_eq) (fcall_eq args) = true) /\
  (forall args, relational (fcall_eq args) = true).
Proof. exact fcall_eq_ok. Qed.
