(* C06 — gomini: Run delivers exactly the answers, then closes, under every schedule.
   Only statements, each closed by `exact`, with Print Assumptions beneath.
   Models: GominiSeq.v (gseq: the sequential list-monad reading of a gomini goal, fuel = depth of relation calls),
   GominiRuns.v (Runs: the set of output sequences of an invocation over ALL goroutine schedules, one rule per
   combinator of operators.go / ifthenelse.go; RunsP: partial runs), ChanKernel.v (the channel / WaitGroup protocol of
   one DisjO node).  Proofs: GominiSpec.v, ChanKernelSpec.v.
   A schedule (which goroutine runs, GOMAXPROCS, which blocked sender a receive picks) is a derivation of Runs, so
   "under every schedule" is a plain forall.  Run itself = NewVar; NewStreamForGoal(g(v)) (closes the stream when the
   goal has returned); mapOverStream(rewrite) (order preserving): the channel returned by Run delivers the image of a
   Runs sequence and is then closed.
   What the models cannot exhibit: the Go runtime's real scheduler and memory model, the goroutine limiter of
   limit.go, context cancellation races; the harness (harness/c06.go) runs the generated programs under
   GOMAXPROCS 1/2/8, -race and randomized yields and compares multisets with gseq. *)
From Coq Require Import List NArith ZArith Bool Permutation.
From GMK Require Import Term Unify Goal Stream Den InStream CombPerm CorrBase Corr01 Corr02 ProgExamples.
From GMK Require Import GominiSeq GominiRuns GominiSpec.
From GMK.gen Require Import RelConcato.
Import ListNotations.

(* For EVERY schedule the delivered sequence is a permutation of the sequential answer list: no answer is lost,
   duplicated or invented.  (gseq = Some l: the goal's search tree is finite within call depth f.) *)
Theorem C06_multiset : forall ds uf g e st outs, Runs ds uf g e st outs ->
  forall f l, gseq ds uf f g e st = Some l -> Permutation outs l.
Proof. exact runs_perm. Qed.
Print Assumptions C06_multiset.

(* hence any two schedules deliver the same multiset *)
Theorem C06_schedules_agree : forall ds uf g e st o1 o2 f l, gseq ds uf f g e st = Some l ->
  Runs ds uf g e st o1 -> Runs ds uf g e st o2 -> Permutation o1 o2.
Proof. exact runs_perm_runs. Qed.
Print Assumptions C06_schedules_agree.

(* the set of complete runs is not empty: the sequential order is one of the schedules, so the search can finish
   (and then the creator of the stream closes it) *)
Theorem C06_some_schedule_finishes : forall ds uf f g e st l,
  gseq ds uf f g e st = Some l -> Runs ds uf g e st l.
Proof. exact runs_exists. Qed.
Print Assumptions C06_some_schedule_finishes.

(* more call depth never changes an answer list already obtained *)
Theorem C06_fuel_mono : forall ds uf f f' g e st l, f <= f' ->
  gseq ds uf f g e st = Some l -> gseq ds uf f' g e st = Some l.
Proof. exact gseq_fuel_mono. Qed.
Print Assumptions C06_fuel_mono.

(* the same multiset as the sequential micro search, for programs both engines can run: relational goals over a
   relational table (if a called body is not guard-shaped the micro search errs and `Ans` has no derivation) *)
Theorem C06_same_as_micro : forall ds uf, defs_relational ds -> forall f g e st l, relational g = true ->
  gseq ds uf f g e st = Some l -> forall l', Ans ds uf (eval ds uf g e st) l' -> Permutation l l'.
Proof. exact gseq_stream_perm. Qed.
Print Assumptions C06_same_as_micro.

(* infinitely many answers / interrupted searches: every state delivered by any partial run under any schedule is
   correct: it extends the input state, is consistent, and every valuation solving it satisfies the goal's formula *)
Theorem C06_infinite_sound : forall ds uf g e st outs, RunsP ds uf g e st outs ->
  wf_state st -> env_ok e (ctr st) -> forall x, In x outs ->
  (exists ext, sub x = sub st ++ ext) /\ (ctr st <= ctr x)%N /\ wf_state x /\
  forall r, sat r (sub x) -> sat r (sub st) /\ Den ds g (map (inst r) e).
Proof. exact runs_prefix_sound. Qed.
Print Assumptions C06_infinite_sound.

(* complete runs are partial runs, so the same holds for every answer of a finished search *)
Theorem C06_runs_are_partial_runs : forall ds uf g e st l, Runs ds uf g e st l -> RunsP ds uf g e st l.
Proof. exact Runs_RunsP. Qed.
Print Assumptions C06_runs_are_partial_runs.

(* ---------- non-vacuity ---------- *)

Definition la_b : pterm := PPair (PAtom sym_a) (PPair (PAtom sym_b) PNil).
(* Run(func(q) ExistO(x => ExistO(y => ConjO(EqualO(q, [x, y]), ConcatO(x, y, [a, b]))))): env after the two ExistO is
   [y; x; q] *)
Definition split_q : goal :=
  GFresh (GFresh (GConjPlus false [GEq (PB 2) (PPair (PB 1) (PPair (PB 0) PNil)); GCall concato_idx [PB 1; PB 0; la_b]])).
Definition two_eq : goal := GDisjPlus false [GEq (PB 0) (PAtom sym_a); GEq (PB 0) (PAtom sym_b)].

Example C06_nonvacuous :
  (* ConcatO (generated from gomini/concato/concato.go) splits a 2-element list in 3 ways; depth 2 is not enough *)
  option_map (@length state) (gseq concato_defs uf400 3 split_q [TVar 0%N] (mkSt [] 1%N)) = Some 3%nat /\
  gseq concato_defs uf400 2 split_q [TVar 0%N] (mkSt [] 1%N) = None /\
  (* a disjunction really has more than one schedule: both orders are runs *)
  (exists sa sb, sa <> sb /\ Runs concato_defs uf400 two_eq [TVar 0%N] (mkSt [] 1%N) [sa; sb]
                         /\ Runs concato_defs uf400 two_eq [TVar 0%N] (mkSt [] 1%N) [sb; sa]) /\
  (* a program both engines run (mini appendo with Zzz): 3 answers each *)
  defs_relational exdefs /\ relational split_ab = true /\
  option_map (@length state) (gseq exdefs uf400 3 split_ab [TVar 0%N] (mkSt [] 1%N)) = Some 3%nat /\
  option_map (@length state) (take exdefs uf400 100 (-1) (eval exdefs uf400 split_ab [TVar 0%N] (mkSt [] 1%N))) = Some 3%nat.
Proof.
  split; [vm_compute; reflexivity|]. split; [vm_compute; reflexivity|]. split.
  { exists (mkSt [(0%N, TAtom sym_a)] 1%N), (mkSt [(0%N, TAtom sym_b)] 1%N). split; [discriminate|].
    split.
    - apply R_disjplus with (ls := [[mkSt [(0%N, TAtom sym_a)] 1%N]; [mkSt [(0%N, TAtom sym_b)] 1%N]]).
      + constructor; [apply (R_eq_ok concato_defs uf400 (PB 0) (PAtom sym_a)); reflexivity|].
        constructor; [apply (R_eq_ok concato_defs uf400 (PB 0) (PAtom sym_b)); reflexivity|constructor].
      + apply (Interleave_concat [[_]; [_]]).
    - apply R_disjplus with (ls := [[mkSt [(0%N, TAtom sym_a)] 1%N]; [mkSt [(0%N, TAtom sym_b)] 1%N]]).
      + constructor; [apply (R_eq_ok concato_defs uf400 (PB 0) (PAtom sym_a)); reflexivity|].
        constructor; [apply (R_eq_ok concato_defs uf400 (PB 0) (PAtom sym_b)); reflexivity|constructor].
      + econstructor; [apply (Interleave_concat [[_]])|]. simpl. apply (Interleave2_app_rev [_] [_]). }
  split.
  { intros r body H. destruct r as [|[|[|r]]]; simpl in H; try (inversion H; subst; reflexivity).
    destruct r; discriminate. }
  split; [reflexivity|]. split; vm_compute; reflexivity.
Qed.
