(* C07 — States and streams are persistent values (no goal mutates its input).
   Only statements, each closed by `exact`, with Print Assumptions beneath.  Model: MemModel.v; proofs: MemSpec.v.
   The functional models (Unify.v, Stream.v, GominiSeq.v) are pure functions, so there "the same goal on the same
   state yields the same answers" holds by reflexivity and says nothing about the Go code.  C07 is therefore stated
   on a MEMORY-LEVEL model: a heap of mutable objects; a micro substitution is a slice (array, len, cap); a gomini
   state is a struct of map references; a stream cell is {state, proc, mem}; every operation is a heap transformer
   that returns its write log.  A history is a list of operations each starting from ANY value published earlier
   (a tree of versions: two operations with the same source are siblings, like the branches of a disjunction), so
   "whichever order the branches run in" is "for every history".
   What the model cannot exhibit: that the Go functions contain no OTHER writes than the ones transcribed
   (exts.go:33-36, reify.go:57-60, state.go:34-38/63-75, stream.go:17-25); the harness (harness/c07.go) checks that by
   snapshotting every state reachable before a goal runs and comparing after, under -race for gomini.
   The one in-place write in micro, Substitutions.String() sorting its receiver (state.go:40), is not a goal; it
   permutes the pairs, and C07_sort_harmless shows the bindings-as-a-map are unchanged when keys are distinct. *)
From Coq Require Import List NArith ZArith Bool Permutation.
From GMK Require Import Term Unify MemModel MemSpec.
Import ListNotations.

(* the write logs mean something: for the code AND for the two breaking variants, an existing object that is not
   named in the log of a step is untouched by that step *)
Theorem C07_log_complete : forall im, im = impl_code \/ im = impl_append \/ im = impl_inplace ->
  forall w o w' lg, step im w o = Some (w', lg) ->
  forall id, id < length (hp w) -> ~ In id (map fst lg) -> nth_error (hp w') id = nth_error (hp w) id.
Proof.
  exact (fun im H => match H with
         | or_introl E => eq_ind_r (fun im => forall w o w' lg, step im w o = Some (w', lg) -> faithful (hp w) (hp w') lg)
                                   (step_faithful impl_code impl_code_faithful) E
         | or_intror (or_introl E) => eq_ind_r (fun im => forall w o w' lg, step im w o = Some (w', lg) -> faithful (hp w) (hp w') lg)
                                   (step_faithful impl_append impl_append_faithful) E
         | or_intror (or_intror E) => eq_ind_r (fun im => forall w o w' lg, step im w o = Some (w', lg) -> faithful (hp w) (hp w') lg)
                                   (step_faithful impl_inplace impl_inplace_faithful) E
         end).
Qed.
Print Assumptions C07_log_complete.

(* For every history of exts / Set / NewVar as the code performs them: every write of an operation targets an object
   allocated by THAT operation (entry_fresh: heap size before <= id < heap size after), and every slice / state
   published before the operation is still published and shows the same bindings afterwards. *)
Theorem C07_no_write_to_published : forall ops1 ops2 w1 w2 es1 es2,
  run impl_code empty_world ops1 = Some (w1, es1) -> run impl_code w1 ops2 = Some (w2, es2) ->
  Forall entry_fresh es2 /\
  (forall s, In s (slices w1) -> In s (slices w2) /\ view_slice (hp w2) s = view_slice (hp w1) s) /\
  (forall g, In g (gstates w1) -> In g (gstates w2) /\ view_gstate (hp w2) g = view_gstate (hp w1) g).
Proof. exact no_write_to_published. Qed.
Print Assumptions C07_no_write_to_published.

(* the branches of a disjunction cannot influence each other: extending a published value gives the same view
   whether it is done now or after any number of other operations (siblings included) *)
Theorem C07_siblings_independent : forall ops0 ops w0 w w' es0 es,
  run impl_code empty_world ops0 = Some (w0, es0) -> w = w0 -> run impl_code w ops = Some (w', es) ->
  (forall s p, In s (slices w) ->
     let '(h1, s1, _) := exts_copy (hp w) s p in let '(h2, s2, _) := exts_copy (hp w') s p in
     view_slice h2 s2 = view_slice h1 s1) /\
  (forall g k v, In g (gstates w) ->
     let '(h1, g1, _) := set_copy (hp w) g k v in let '(h2, g2, _) := set_copy (hp w') g k v in
     view_gstate h2 g2 = view_gstate h1 g1) /\
  (forall g k v, In g (gstates w) ->
     let '(h1, g1, _) := newvar_copy (hp w) g k v in let '(h2, g2, _) := newvar_copy (hp w') g k v in
     view_gstate h2 g2 = view_gstate h1 g1).
Proof. exact siblings_independent. Qed.
Print Assumptions C07_siblings_independent.

(* running the same operation again on the same input: equal result view; first result and input untouched *)
Theorem C07_rerun : 
  (forall h s p h1 s1 l1 h2 s2 l2, arr s < length h ->
     exts_copy h s p = (h1, s1, l1) -> exts_copy h1 s p = (h2, s2, l2) ->
     view_slice h2 s2 = view_slice h1 s1 /\ view_slice h2 s1 = view_slice h1 s1 /\ view_slice h2 s = view_slice h s) /\
  (forall h g k v h1 g1 l1 h2 g2 l2, subs g < length h -> gvars g < length h ->
     set_copy h g k v = (h1, g1, l1) -> set_copy h1 g k v = (h2, g2, l2) ->
     view_gstate h2 g2 = view_gstate h1 g1 /\ view_gstate h2 g1 = view_gstate h1 g1 /\
     view_gstate h2 g = view_gstate h g).
Proof. exact (conj rerun_exts rerun_set). Qed.
Print Assumptions C07_rerun.

(* exts written with append: make(_, 0, 2); then two extensions of the same parent: the first sibling's binding has
   been overwritten by the second *)
Theorem C07_refuted_append : exists w1 es1 w2 es2 s,
  run impl_append empty_world hist_parent = Some (w1, es1) /\ run impl_append w1 hist_sibling2 = Some (w2, es2) /\
  In s (slices w1) /\ view_slice (hp w1) s = [Some pA] /\ view_slice (hp w2) s = [Some pB].
Proof. exact refuted_append. Qed.
Print Assumptions C07_refuted_append.

(* Set writing into the map it was given: the parent state and the first sibling both see the second sibling's binding *)
Theorem C07_refuted_set_inplace : exists w1 es1 w2 es2 g0 g1,
  run impl_inplace empty_world ghist_parent = Some (w1, es1) /\ run impl_inplace w1 ghist_sibling2 = Some (w2, es2) /\
  nth_error (gstates w1) 0 = Some g0 /\ nth_error (gstates w1) 1 = Some g1 /\
  fst (view_gstate (hp w1) g1) = [(7%N, gA)] /\ fst (view_gstate (hp w2) g1) = [(7%N, gB)] /\
  fst (view_gstate (hp w2) g0) = [(7%N, gB)].
Proof. exact refuted_set_inplace. Qed.
Print Assumptions C07_refuted_set_inplace.

(* micro stream cells: after the first CarCdr every later CarCdr returns the same (car, cdr), leaves the heap as it
   is, and writes nothing (when proc returned nil it is run again and nil is stored again: no change) *)
Theorem C07_memo : forall procs h c h1 r lg, carcdr procs h c = (h1, r, lg) ->
  exists lg2, carcdr procs h1 c = (h1, r, lg2) /\ (lg2 = [] \/ snd r = None).
Proof. exact carcdr_memo. Qed.
Print Assumptions C07_memo.

(* re-traversing an already forced stream yields the same sequence of states (and forces nothing) *)
Theorem C07_retraverse : forall procs f h c h1 l,
  traverse procs f h c = (h1, l) -> traverse procs f h1 c = (h1, l).
Proof. exact retraverse. Qed.
Print Assumptions C07_retraverse.

(* CarCdr of micro/stream.go as translated from the Go source on every run (harness/cmd/gencell -> gen/CellGen.v: a term of the
   statement language of CellLang.v over the fields state / proc / mem of the receiver) IS the carcdr of the memory-level model:
   same result, same heap, same writes (at most one, to the field mem of the receiver), on every heap and every stream cell; it
   never panics.  So C07_memo and C07_retraverse are statements about the text. *)
Require GMK.GoLite GMK.CellLang GMK.gen.CellGen GMK.CellLangSpec.

Theorem C07_code_carcdr_is_model : forall procs h c st p m, nth_error h c = Some (OCell st p m) ->
  CellLang.exec procs c CellGen.gen_CarCdr h [] = CellLangSpec.of_model (carcdr procs h c).
Proof. exact CellLangSpec.gen_CarCdr_is_model. Qed.
Print Assumptions C07_code_carcdr_is_model.

Theorem C07_code_carcdr_returns : forall procs h c st p m, nth_error h c = Some (OCell st p m) ->
  CellLang.exec procs c CellGen.gen_CarCdr h [] <> GoLite.Panic /\ CellLang.exec procs c CellGen.gen_CarCdr h [] <> GoLite.OOF_.
Proof. exact CellLangSpec.gen_CarCdr_never_panics. Qed.
Print Assumptions C07_code_carcdr_returns.

Theorem C07_code_memo : forall procs h c st p m h1 lg r, nth_error h c = Some (OCell st p m) ->
  CellLang.exec procs c CellGen.gen_CarCdr h [] = GoLite.Ret (h1, lg, Some r) ->
  exists lg2, CellLang.exec procs c CellGen.gen_CarCdr h1 [] = GoLite.Ret (h1, lg2, Some r) /\ (lg2 = [] \/ snd r = None).
Proof. exact CellLangSpec.gen_CarCdr_memo. Qed.
Print Assumptions C07_code_memo.

(* non-vacuity: an unforced cell whose closure yields a new cell: the first CarCdr allocates it and writes mem, the second writes nothing *)
Example C07_code_nonvacuous :
  let procs := fun p : nat => if Nat.eqb p 7 then Some (OCell (Some 5) None None) else None in
  let h := [OCell None (Some 7) None] in
  CellLang.exec procs 0 CellGen.gen_CarCdr h [] = GoLite.Ret ([OCell None (Some 7) (Some 1); OCell (Some 5) None None], [(0, 2)], Some (None, Some 1)) /\
  CellLang.exec procs 0 CellGen.gen_CarCdr [OCell None (Some 7) (Some 1); OCell (Some 5) None None] []
    = GoLite.Ret ([OCell None (Some 7) (Some 1); OCell (Some 5) None None], [], Some (None, Some 1)).
Proof. vm_compute. split; reflexivity. Qed.

(* Substitutions.String() sorts the slice in place: a permutation of pairs with distinct keys binds the same *)
Theorem C07_sort_harmless : forall s s', NoDup (map fst s) -> Permutation s s' -> forall x, assv x s = assv x s'.
Proof. exact assv_perm. Qed.
Print Assumptions C07_sort_harmless.

(* ---------- non-vacuity ---------- *)
Definition ex_procs (p : nat) : option object :=
  match p with
  | 0 => Some (OCell (Some 11) (Some 1) None)
  | 1 => Some (OCell (Some 12) None None)
  | _ => None
  end.

Example C07_nonvacuous :
  (* the refuting histories are executable with the code's operations and leave every earlier view intact *)
  (exists w1 es1 w2 es2 s,
     run impl_code empty_world hist_parent = Some (w1, es1) /\ run impl_code w1 hist_sibling2 = Some (w2, es2) /\
     In s (slices w1) /\ view_slice (hp w1) s = [Some pA] /\ view_slice (hp w2) s = [Some pA] /\
     view_slice (hp w2) (mkSlice 2 1 1) = [Some pB] /\ In (mkSlice 2 1 1) (slices w2)) /\
  (exists w1 es1 w2 es2 g0 g1 g2,
     run impl_code empty_world ghist_parent = Some (w1, es1) /\ run impl_code w1 ghist_sibling2 = Some (w2, es2) /\
     nth_error (gstates w2) 0 = Some g0 /\ nth_error (gstates w2) 1 = Some g1 /\ nth_error (gstates w2) 2 = Some g2 /\
     fst (view_gstate (hp w2) g0) = [] /\ fst (view_gstate (hp w2) g1) = [(7%N, gA)] /\
     fst (view_gstate (hp w2) g2) = [(7%N, gB)]) /\
  (* a three-cell stream: the first traversal forces two suspensions (allocating two cells), the second none *)
  (let h0 := [OCell (Some 10) (Some 0) None] in
   exists h1, traverse ex_procs 5 h0 (Some 0) = (h1, [Some 10; Some 11; Some 12]) /\ length h1 = 3 /\
              traverse ex_procs 5 h1 (Some 0) = (h1, [Some 10; Some 11; Some 12])).
Proof.
  split; [exact code_not_refuted|]. split; [exact code_set_not_refuted|].
  eexists. split; [vm_compute; reflexivity|]. split; reflexivity.
Qed.
