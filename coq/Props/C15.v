(* C15 — S-expression printing and parsing round-trip.
   Only statements, each closed by `exact`, with Print Assumptions beneath.
   Models: Print.v (SExpr.String / Pair.String of sexpr/ast/ast.go as a token-list printer), Grammar.v (the grammar of
   sexpr.bnf, regenerated from /repo), LRDriver.v (the parser).  The text of an atom is an oracle (strconv); `atoms_good`
   is the per-atom hypothesis "the printed atom lexes as one token of an atom class whose converter returns the atom",
   which the harness validates on every generated atom against the real strconv and the real lexer. *)
From Coq Require Import List NArith ZArith Bool.
From GMK Require Import TableTypes gen.Tables gen.GrammarGen LexDriver LRDriver Grammar LexSpec Print PrintSpec.
Import ListNotations.

(* For EVERY S-expression over printable atoms - proper lists, dotted pairs, improper lists of any length, nested empty
   lists - the printed token list is a sentence of the grammar, and the tree the semantic actions build for it is the
   printed expression itself (same pair structure, same atoms at the same positions). *)
Theorem C15_print_is_sentence : forall o atom_tok e, atoms_good o atom_tok e ->
  sentence o (print atom_tok e) e.
Proof. exact (fun o atom_tok e H => proj1 (print_derives o atom_tok e H)). Qed.
Print Assumptions C15_print_is_sentence.

(* print, then parse: the parser (tables of /repo) accepts the printed tokens and returns the printed expression *)
Theorem C15_roundtrip : forall o atom_tok e, atoms_good o atom_tok e -> atoms_real atom_tok e ->
  parse_tokens o (print atom_tok e) = Accept e.
Proof. exact print_parse. Qed.
Print Assumptions C15_roundtrip.

(* the same on the bytes of String(), given that the lexer cuts the printed text into the printed tokens - which the
   correspondence checks on every generated expression (Corr14.check14, case C15Print) *)
Theorem C15_roundtrip_bytes : forall o atom_tok e, atoms_good o atom_tok e ->
  lex_bytes (print_bytes atom_tok e) = (print atom_tok e, LEnd) ->
  parse_bytes o (print_bytes atom_tok e) = Accept e.
Proof. exact print_parse_bytes. Qed.
Print Assumptions C15_roundtrip_bytes.

(* ... and prints back to exactly the same text *)
Theorem C15_reprint : forall o atom_tok e v, atoms_good o atom_tok e -> atoms_real atom_tok e ->
  parse_tokens o (print atom_tok e) = Accept v -> print atom_tok v = print atom_tok e.
Proof. exact print_parse_print. Qed.
Print Assumptions C15_reprint.

(* stability for accepted input: whatever Parse returns on any input, printing it gives a sentence that parses to the
   same tree again (for trees whose atoms print to good tokens) *)
Theorem C15_stable : forall o atom_tok bs v, parse_bytes o bs = Accept v ->
  atoms_good o atom_tok v -> atoms_real atom_tok v -> parse_tokens o (print atom_tok v) = Accept v.
Proof. exact (fun o atom_tok bs v _ Hg Hr => print_parse o atom_tok v Hg Hr). Qed.
Print Assumptions C15_stable.

(* non-vacuity, on the expression that the grammar used to reject: (a b . c) *)
Example C15_print_example :
  print (fun a => match a with XSym s => (6%nat, s) | _ => (0%nat, []) end)
        (XCons (XSym [97%N]) (XCons (XSym [98%N]) (XSym [99%N])))
  = [tk_lp; (6%nat, [97%N]); tk_sp; (6%nat, [98%N]); tk_sp; tk_dot; tk_sp; (6%nat, [99%N]); tk_rp].
Proof. reflexivity. Qed.

Example C15_improper_parses :
  let o := mkOracles (fun _ => None) (fun _ => false) in
  parse_bytes o [40; 97; 32; 98; 32; 46; 32; 99; 41]%N
  = Accept (XCons (XSym [97%N]) (XCons (XSym [98%N]) (XSym [99%N]))).
Proof. vm_compute. reflexivity. Qed.
