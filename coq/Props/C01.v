(* C01 — micro: == computes a most general unifier with occurs check.
   Only statements, each closed by `exact`, with Print Assumptions beneath. Model: Unify.v (fuel = recursion depth;
   every statement holds for every fuel whenever the outcome is definite; totality is C01_total). *)
From Coq Require Import List NArith ZArith.
From GMK Require Import Term Unify UnifySpec UnifyWf UnifyTotal GoLite gen.MicroGen MicroGenSpec.
Import ListNotations.

(* on success the result keeps every earlier binding (it is the old slice with pairs appended) ... *)
Theorem C01_extends : forall f u v s s', unify f u v s = Ok s' -> exists ext, s' = s ++ ext.
Proof. exact (fun f u v s s' H => proj1 (unify_sound f u v s s' H)). Qed.
Print Assumptions C01_extends.

(* ... every solution of the result is a solution of the old state under which both terms are the identical term ... *)
Theorem C01_unifier : forall f u v s s', unify f u v s = Ok s' ->
  forall r, sat r s' -> sat r s /\ inst r u = inst r v.
Proof. exact (fun f u v s s' H => proj2 (unify_sound f u v s s' H)). Qed.
Print Assumptions C01_unifier.

(* ... and it is most general: every unifier compatible with the old bindings is a solution of the result *)
Theorem C01_mgu : forall f u v s s', unify f u v s = Ok s' ->
  forall r, sat r s -> inst r u = inst r v -> sat r s'.
Proof. exact (fun f u v s s' H r Hs He => proj2 (unify_mgu f u v s s' H r) (conj Hs He)). Qed.
Print Assumptions C01_mgu.

(* no state is produced only when no (finite) unifier compatible with the state exists *)
Theorem C01_fail : forall f u v s, unify f u v s = Fail -> ~ exists r, sat r s /\ inst r u = inst r v.
Proof. exact unify_fail. Qed.
Print Assumptions C01_fail.

(* a definite outcome does not depend on the fuel *)
Theorem C01_fuel_irrelevant : forall f u v s, unify f u v s <> OOF ->
  forall f', (f <= f')%nat -> unify f' u v s = unify f u v s.
Proof. exact unify_mono. Qed.
Print Assumptions C01_fuel_irrelevant.

(* the result stays a consistent state: distinct keys, acyclic *)
Theorem C01_wf : forall f u v s s', wf s -> unify f u v s = Ok s' -> wf s'.
Proof. exact unify_wf. Qed.
Print Assumptions C01_wf.

(* on success both terms resolve to the identical term under the result *)
Theorem C01_resolve_identical : forall f u v s s', wf s -> unify f u v s = Ok s' ->
  exists f1 t, walkstar f1 u s' = Some t /\ walkstar f1 v s' = Some t.
Proof. exact unify_walkstar_eq. Qed.
Print Assumptions C01_resolve_identical.

(* totality: on a consistent state unification always terminates with a definite verdict, and the explicit
   fuel ufuel (a closed formula in the sizes of u, v, s) is enough; walk / occurs / walkStar terminate too *)
Theorem C01_total : forall u v s, wf s -> exists f0, forall f, (f0 <= f)%nat -> unify f u v s <> OOF.
Proof. exact unify_total. Qed.
Print Assumptions C01_total.

Theorem C01_total_explicit : forall u v s, wf s -> unify (ufuel u v s) u v s <> OOF.
Proof. exact ufuel_enough. Qed.
Print Assumptions C01_total_explicit.

Theorem C01_walk_total : forall s, wf s -> forall x, exists f0 t, forall f, (f0 <= f)%nat -> walk f x s = Some t.
Proof. exact walk_total. Qed.
Print Assumptions C01_walk_total.

Theorem C01_occurs_total : forall x v s, wf s -> exists f0, forall f, (f0 <= f)%nat -> occurs f x v s <> None.
Proof. exact occurs_total. Qed.
Print Assumptions C01_occurs_total.

Theorem C01_walkstar_total : forall t s, wf s -> exists f0, forall f, (f0 <= f)%nat -> walkstar f t s <> None.
Proof. exact walkstar_total. Qed.
Print Assumptions C01_walkstar_total.

(* hence: succeeds exactly when a finite unifier compatible with the state exists *)
Theorem C01_succeeds_iff_unifiable : forall u v s, wf s ->
  (exists s', unify (ufuel u v s) u v s = Ok s') <-> (exists r, sat r s /\ inst r u = inst r v).
Proof.
  intros u v s W. pose proof (ufuel_enough u v s W) as T. split.
  - intros [s' H]. pose proof (unify_wf _ _ _ _ _ W H) as W'.
    destruct (WS_solution s' u v W') as [r [Hr _]]. exists r.
    exact (proj2 (unify_sound _ _ _ _ _ H) r Hr).
  - intros [r [Hs He]]. pose proof (unify_complete (ufuel u v s) u v s r Hs He) as C.
    destruct (unify (ufuel u v s) u v s) as [| |s'] eqn:E; [congruence | contradiction | eauto].
Qed.
Print Assumptions C01_succeeds_iff_unifiable.

(* the goal: exactly one state with the counter unchanged iff a compatible unifier exists, otherwise no state *)
Theorem C01_goal : forall f u v st l, equalo f u v st = Some l ->
  (l = [] /\ ~ exists r, sat r (sub st) /\ inst r u = inst r v) \/
  (exists s', l = [mkSt s' (ctr st)] /\ (exists ext, s' = sub st ++ ext) /\
              forall r, sat r s' <-> (sat r (sub st) /\ inst r u = inst r v)).
Proof. exact equalo_spec. Qed.
Print Assumptions C01_goal.

(* ---- the code itself.  gen/MicroGen.v is translated from micro/walk.go, exts.go, unify.go on every run (statement by
   statement, into a result monad with out-of-fuel and panic outcomes); the generated functions ARE the model above, for
   every input and every recursion budget, so each theorem above is a theorem about the text of /repo as it is now. *)
Theorem C01_code_is_model : forall f u v s x,
  g_unify f u v s = of_res (unify f u v s) /\ g_exts f x v s = of_res (exts f x v s) /\
  g_occurs f x v s = of_opt (occurs f x v s) /\ g_walk f x s = of_opt (walk f x s) /\
  g_walkStar f v s = of_opt (walkstar f v s) /\ g_assv x s = Ret (of_assv (assv x s)).
Proof. exact (fun f u v s x => conj (g_unify_spec f u v s) (conj (g_exts_spec f x v s) (conj (g_occurs_spec f x v s)
               (conj (g_walk_spec f x s) (conj (g_walkStar_spec f v s) (g_assv_spec x s)))))). Qed.
Print Assumptions C01_code_is_model.

(* no nil dereference, no Car/Cdr of an atom, no index out of range - on any input, consistent or not *)
Theorem C01_code_never_panics : forall f u v s x,
  g_unify f u v s <> Panic /\ g_walk f x s <> Panic /\ g_occurs f x v s <> Panic /\ g_exts f x v s <> Panic /\
  g_walkStar f v s <> Panic /\ g_assv x s <> Panic.
Proof. exact code_never_panics. Qed.
Print Assumptions C01_code_never_panics.

Theorem C01_code_mgu : forall f u v s s', g_unify f u v s = Ret (s', true) ->
  (exists ext, s' = s ++ ext) /\ forall r, sat r s' <-> (sat r s /\ inst r u = inst r v).
Proof. exact code_unify_mgu. Qed.
Print Assumptions C01_code_mgu.

Theorem C01_code_fail : forall f u v s s', g_unify f u v s = Ret (s', false) ->
  s' = [] /\ ~ exists r, sat r s /\ inst r u = inst r v.
Proof. exact code_unify_fail. Qed.
Print Assumptions C01_code_fail.

Theorem C01_code_total : forall u v s, wf s ->
  exists f0, forall f, (f0 <= f)%nat -> exists s' b, g_unify f u v s = Ret (s', b).
Proof. exact code_unify_total. Qed.
Print Assumptions C01_code_total.

Theorem C01_code_wf : forall f u v s s', wf s -> g_unify f u v s = Ret (s', true) -> wf s'.
Proof. exact code_unify_wf. Qed.
Print Assumptions C01_code_wf.

(* the goal: EqualO (micro/goal.go) as translated, a function of its two terms and the state - no state when no unifier
   exists, otherwise exactly one state, whose substitution is the most general unifier and whose counter is unchanged *)
Theorem C01_code_goal : forall f u v st r, g_EqualO f u v st = Ret r ->
  (r = Stream.SNil /\ ~ exists rr, sat rr (sub st) /\ inst rr u = inst rr v) \/
  (exists s', r = Stream.SCons (mkSt s' (ctr st)) Stream.SNil /\ (exists ext, s' = sub st ++ ext) /\
              forall rr, sat rr s' <-> (sat rr (sub st) /\ inst rr u = inst rr v)).
Proof. exact code_goal. Qed.
Print Assumptions C01_code_goal.

Example C01_code_nonvacuous :
  let s := [(1%N, TVar 2%N); (0%N, TPair (TVar 1%N) (TAtom (ASym 0%N)))] in
  g_unify 20 (TVar 0%N) (TPair (TAtom (AInt 5%Z)) (TVar 3%N)) s
    = Ret (s ++ [(2%N, TAtom (AInt 5%Z)); (3%N, TAtom (ASym 0%N))], true) /\
  g_unify 20 (TVar 0%N) (TPair (TVar 0%N) TNil) [] = Ret ([], false).
Proof. vm_compute. split; reflexivity. Qed.

(* non-vacuity: a var-var chain and a partially bound pair; the result has a non-empty extension;
   and an occurs-check failure *)
Example C01_nonvacuous :
  let s := [(1%N, TVar 2%N); (0%N, TPair (TVar 1%N) (TAtom (ASym 0%N)))] in
  unify 20 (TVar 0%N) (TPair (TAtom (AInt 5%Z)) (TVar 3%N)) s
    = Ok (s ++ [(2%N, TAtom (AInt 5%Z)); (3%N, TAtom (ASym 0%N))]) /\
  unify 20 (TVar 2%N) (TPair (TVar 0%N) TNil) s = Fail /\
  unify 20 (TVar 4%N) (TVar 5%N) [] = Ok [(4%N, TVar 5%N)].
Proof. repeat split; reflexivity. Qed.
