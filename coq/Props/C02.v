(* C02 — micro/mini: every returned answer satisfies the goal (soundness).
   Only statements, each closed by `exact`, with Print Assumptions beneath.
   Model: Goal.v (programs), Stream.v (search), Den.v (logical reading of a goal, membership in a stream). *)
From Coq Require Import List NArith ZArith Bool.
From GMK Require Import Term Unify Goal Stream Den InStream Sound CorrBase Corr01 Corr02 ProgExamples.
Import ListNotations.

(* Every state that occurs at a finite position of the answer stream of ANY goal program (recursive relations,
   the mini combinators, ifte/once included; any relation table; any unify-fuel policy):
   extends the state the search started from (same bindings, more appended; counter not smaller), is again a
   consistent state, and every valuation that solves the answer's bindings solves the start state's bindings and
   makes the goal's formula true (along some choice of disjuncts every equation holds syntactically). *)
Theorem C02_sound : forall ds uf g e st x,
  wf_state st -> env_ok e (ctr st) -> InStream ds uf x (eval ds uf g e st) ->
  (exists ext, sub x = sub st ++ ext) /\ (ctr st <= ctr x)%N /\ wf_state x /\
  forall r, sat r (sub x) -> sat r (sub st) /\ Den ds g (map (inst r) e).
Proof. exact eval_sound. Qed.
Print Assumptions C02_sound.

(* the same for every state returned when n answers are requested (any n, negative included) *)
Theorem C02_take : forall ds uf g e st f n l x,
  wf_state st -> env_ok e (ctr st) -> take ds uf f n (eval ds uf g e st) = Some l -> In x l ->
  (exists ext, sub x = sub st ++ ext) /\ (ctr st <= ctr x)%N /\ wf_state x /\
  forall r, sat r (sub x) -> sat r (sub st) /\ Den ds g (map (inst r) e).
Proof. exact eval_sound_take. Qed.
Print Assumptions C02_take.

(* contradictory constraints never yield an answer *)
Theorem C02_no_answer_if_unsat : forall ds uf g e st x,
  (forall r, sat r (sub st) -> ~ Den ds g (map (inst r) e)) ->
  wf_state st -> env_ok e (ctr st) -> ~ InStream ds uf x (eval ds uf g e st).
Proof. exact eval_unsat_no_answer. Qed.
Print Assumptions C02_no_answer_if_unsat.

(* non-vacuity: appendo x y (a b) has exactly the three splits, in this order, and the search space is finite;
   the start state and environment of a run satisfy the hypotheses *)
Example C02_nonvacuous_splits :
  option_map (map resolved_q) (run_answers split_ab 1 100 (-1)) =
  Some [Some (TPair TNil (TPair (TPair (TAtom sym_a) (TPair (TAtom sym_b) TNil)) TNil));
        Some (TPair (TPair (TAtom sym_a) TNil) (TPair (TPair (TAtom sym_b) TNil) TNil));
        Some (TPair (TPair (TAtom sym_a) (TPair (TAtom sym_b) TNil)) (TPair TNil TNil))].
Proof. vm_compute. reflexivity. Qed.

Example C02_nonvacuous_hyps : wf_state (mkSt [] 1%N) /\ env_ok (query_env 1) 1%N.
Proof.
  split.
  - split; [split; [constructor | exists (fun _ => 0%nat); intros x t y []] | intros x []].
  - intros t x [<-|[]] [<-|[]]. reflexivity.
Qed.
