(* C10 — concurrent.DisjPlus / DisjPlusZzz / DisjPlusNoOrder / ConjPlus / ConjPlusZzz against the sequential
   mini.DisjPlusNoZzz / mini.DisjPlus / mini.ConjPlusNoZzz / mini.ConjPlus.
   Only statements, each closed by `exact`, with Print Assumptions beneath.
   Models: ConcDisj.v, ConcConj.v (first part of each file); proofs: second part of the same files.

   The goroutine scheduler is an explicit INPUT of the model, so "for every goroutine schedule" and "on every run"
   are ordinary universal quantifiers:
     - DisjPlus / DisjPlusZzz: `arrivals` = the order in which the collector receives the messages answer{i, ss_i};
       a schedule is any permutation of the indexed worker results;
     - DisjPlusNoOrder: `arr` = the order in which the streams arrive; any permutation of the worker results;
     - ConjPlus / ConjPlusZzz: `picks` = the sequence of `select` outcomes of the receiver (message of worker i on
       ch, or the message on ch2); the theorems hold for EVERY pick list, in particular for every schedule
       (conj_schedule: each message at most once).  `conc_conj ... = None` means that the receiver is still
       waiting; it has returned as soon as the ch2 message has been picked (C10_conj_decides).

   DATA-RACE CLAUSE.  "Evaluating them involves no data race" is a property of the Go memory model (happens-before
   between conflicting accesses of shared variables); the functional model below has no shared mutable memory and
   therefore cannot exhibit a race, so this clause is NOT a theorem here.  What the model does record is the
   sharing structure that the argument rests on: the only objects shared between goroutines are the channels
   (`ch`, `ch2`) and the read-only inputs (`gs`, `s`, the immutable state/substitution values); the per-index
   slots `list[i]` are written only by the single collector goroutine (`collect` is a sequential fold over the
   arrivals) after the corresponding receive, and read only by that same goroutine afterwards.  The clause is
   checked on the Go side by running the harness under `go test -race`.
   Not modelled either: after an early `return nil` of ConjPlus the remaining senders stay blocked on their
   unbuffered channels for ever (a goroutine leak, not a wrong answer). *)
From Coq Require Import List NArith ZArith Bool Permutation.
From GMK Require Import Term Unify UnifyTotal Goal Stream Den InStream Sound Complete Comb CombPerm
  CorrBase Corr01 Corr02 ProgExamples ConcDisj ConcConj.
Import ListNotations.

(* ---------------------------------------------------------------------------------------------------- *)
(* (1) DisjPlus and DisjPlusZzz: the SAME STREAM (hence the same answer sequence) for every arrival order *)
(* ---------------------------------------------------------------------------------------------------- *)

(* the collector rebuilds the worker results in goroutine-creation order, whatever the arrival order *)
Theorem C10_collect_order_free : forall l arrivals,
  Permutation arrivals (indexed l) -> collect (length l) arrivals = map Some l.
Proof. exact collect_order_free. Qed.
Print Assumptions C10_collect_order_free.

(* concurrent.DisjPlus(gs...)(st) is the stream of mini.DisjPlusNoZzz(gs...)(st): every goal list (any goals, not
   only relational ones), every relation table, every schedule *)
Theorem C10_disj_order_free : forall ds uf gs e st arrivals,
  Permutation arrivals (combine (seq 0 (length gs)) (map (fun g => eval ds uf g e st) gs)) ->
  conc_disj ds uf false gs e st arrivals = eval ds uf (GDisjPlus false gs) e st.
Proof. exact conc_disj_order_free. Qed.
Print Assumptions C10_disj_order_free.

(* concurrent.DisjPlusZzz(gs...)(st) is the stream of mini.DisjPlus(gs...)(st) *)
Theorem C10_disj_zzz_order_free : forall ds uf gs e st arrivals,
  Permutation arrivals (combine (seq 0 (length gs)) (map (fun g => SSusp (TGoal g e st)) gs)) ->
  conc_disj ds uf true gs e st arrivals = eval ds uf (GDisjPlus true gs) e st.
Proof. exact conc_disj_zzz_order_free. Qed.
Print Assumptions C10_disj_zzz_order_free.

(* "the same answer sequence on every run": two schedules of the same call give the same stream *)
Theorem C10_disj_deterministic : forall ds uf z gs e st arr1 arr2,
  disj_schedule ds uf z gs e st arr1 -> disj_schedule ds uf z gs e st arr2 ->
  conc_disj ds uf z gs e st arr1 = conc_disj ds uf z gs e st arr2.
Proof. exact conc_disj_deterministic. Qed.
Print Assumptions C10_disj_deterministic.

(* DisjPlus against DisjPlusZzz: the same answers (the interleaving differs, as for the sequential pair, C09) *)
Theorem C10_disj_zzz_same_answers : forall ds uf gs e st arr arrz,
  disj_schedule ds uf false gs e st arr -> disj_schedule ds uf true gs e st arrz ->
  (forall g, In g gs -> ~ ReachErr ds uf (eval ds uf g e st)) ->
  forall x, InStream ds uf x (conc_disj ds uf true gs e st arrz) <->
            InStream ds uf x (conc_disj ds uf false gs e st arr).
Proof. exact conc_disj_zzz_same_answers. Qed.
Print Assumptions C10_disj_zzz_same_answers.

(* ---------------------------------------------------------------------------------------------------- *)
(* (2) DisjPlusNoOrder: the same answers / the same multiset of answers for every arrival order           *)
(* ---------------------------------------------------------------------------------------------------- *)

(* membership in the arrival-order merge does not depend on the order *)
Theorem C10_noorder_mem : forall ds uf arr x,
  (forall s, In s arr -> ~ ReachErr ds uf s) ->
  (InStream ds uf x (noorder arr) <-> exists s, In s arr /\ InStream ds uf x s).
Proof. exact noorder_mem. Qed.
Print Assumptions C10_noorder_mem.

Theorem C10_noorder_answers : forall ds uf gs e st arr,
  Permutation arr (map (fun g => eval ds uf g e st) gs) ->
  (forall g, In g gs -> ~ ReachErr ds uf (eval ds uf g e st)) ->
  forall x, InStream ds uf x (conc_disj_noorder ds uf gs e st arr) <->
            InStream ds uf x (eval ds uf (GDisjPlus false gs) e st).
Proof. exact conc_disj_noorder_answers. Qed.
Print Assumptions C10_noorder_answers.

(* for programs with delayed recursion the side condition holds: stated with the proved-sufficient unify fuel *)
Theorem C10_noorder_answers_rel : forall ds gs e st arr,
  defs_ok ds -> calls_okb ds (GDisjPlus false gs) = true -> wf_state st -> env_ok e (ctr st) ->
  Permutation arr (map (fun g => eval ds ufuel g e st) gs) ->
  forall x, InStream ds ufuel x (conc_disj_noorder ds ufuel gs e st arr) <->
            InStream ds ufuel x (eval ds ufuel (GDisjPlus false gs) e st).
Proof. exact (fun ds gs e st arr => conc_disj_noorder_answers_rel ds ufuel gs e st arr ufuel_enough). Qed.
Print Assumptions C10_noorder_answers_rel.

(* finite search space: a run ends with the complete answer list l iff the sequential disjunction ends with a
   permutation of l (multiset equality); Ans excludes errors, so there is no side condition *)
Theorem C10_noorder_multiset : forall ds uf gs e st arr l,
  Permutation arr (map (fun g => eval ds uf g e st) gs) ->
  Ans ds uf (conc_disj_noorder ds uf gs e st arr) l ->
  exists l', Ans ds uf (eval ds uf (GDisjPlus false gs) e st) l' /\ Permutation l l'.
Proof. exact conc_disj_noorder_multiset. Qed.
Print Assumptions C10_noorder_multiset.

Theorem C10_noorder_multiset_conv : forall ds uf gs e st arr l',
  Permutation arr (map (fun g => eval ds uf g e st) gs) ->
  Ans ds uf (eval ds uf (GDisjPlus false gs) e st) l' ->
  exists l, Ans ds uf (conc_disj_noorder ds uf gs e st arr) l /\ Permutation l l'.
Proof. exact conc_disj_noorder_multiset_conv. Qed.
Print Assumptions C10_noorder_multiset_conv.

(* ---------------------------------------------------------------------------------------------------- *)
(* (3) ConjPlus and ConjPlusZzz                                                                           *)
(* ---------------------------------------------------------------------------------------------------- *)

(* every schedule: the result is the stream of mini.ConjPlusNoZzz, or nil because some g_i(st) is nil *)
Theorem C10_conj_result : forall ds uf gs e st picks s,
  conc_conj ds uf false gs e st picks = Some s ->
  (s = SNil /\ exists i g, nth_error gs i = Some g /\ eval ds uf g e st = SNil) \/
  s = eval ds uf (GConjPlus false gs) e st.
Proof. exact conc_conj_result. Qed.
Print Assumptions C10_conj_result.

(* every schedule: ConjPlusZzz returns the stream of mini.ConjPlus (a worker message Zzz(g_i)(st) is never nil) *)
Theorem C10_conj_zzz_result : forall ds uf gs e st picks s,
  conc_conj ds uf true gs e st picks = Some s -> s = eval ds uf (GConjPlus true gs) e st.
Proof. exact conc_conj_zzz_result. Qed.
Print Assumptions C10_conj_zzz_result.

(* the receiver has returned once the message on ch2 has been picked *)
Theorem C10_conj_decides : forall ds uf z gs e st picks, In PBind picks ->
  exists s, conc_conj ds uf z gs e st picks = Some s.
Proof. exact conc_conj_decides. Qed.
Print Assumptions C10_conj_decides.

(* a purely relational goal that fails immediately (nil, not even a suspension) on st has no answer on any
   extension of st *)
Theorem C10_immediate_failure_monotone : forall ds uf, uf_ok uf -> defs_ok ds -> defs_relational ds ->
  forall g e st, relational g = true -> calls_okb ds g = true -> wf_state st -> env_ok e (ctr st) ->
  eval ds uf g e st = SNil ->
  forall st' x, (exists ext, sub st' = sub st ++ ext) -> (ctr st <= ctr st')%N -> wf_state st' ->
  ~ InStream ds uf x (eval ds uf g e st').
Proof. exact immediate_failure_monotone. Qed.
Print Assumptions C10_immediate_failure_monotone.

(* THE KEY THEOREM: for purely relational goals, every schedule of ConjPlus has exactly the answers of the
   sequential mini.ConjPlusNoZzz: the early `return nil` loses nothing *)
Theorem C10_conj_same_answers : forall ds uf, uf_ok uf -> defs_ok ds -> defs_relational ds ->
  forall gs e st picks s,
  relational (GConjPlus false gs) = true -> calls_okb ds (GConjPlus false gs) = true ->
  wf_state st -> env_ok e (ctr st) ->
  conc_conj ds uf false gs e st picks = Some s ->
  forall x, InStream ds uf x s <-> InStream ds uf x (eval ds uf (GConjPlus false gs) e st).
Proof. exact conc_conj_same_answers. Qed.
Print Assumptions C10_conj_same_answers.

Theorem C10_conj_same_answers_ufuel : forall ds gs e st picks s,
  defs_ok ds -> defs_relational ds ->
  relational (GConjPlus false gs) = true -> calls_okb ds (GConjPlus false gs) = true ->
  wf_state st -> env_ok e (ctr st) ->
  conc_conj ds ufuel false gs e st picks = Some s ->
  forall x, InStream ds ufuel x s <-> InStream ds ufuel x (eval ds ufuel (GConjPlus false gs) e st).
Proof. exact conc_conj_same_answers_ufuel. Qed.
Print Assumptions C10_conj_same_answers_ufuel.

(* "none exactly when the conjunction is unsatisfiable" *)
Theorem C10_conj_none_iff_unsat : forall ds uf, uf_ok uf -> defs_ok ds -> defs_relational ds ->
  forall gs e st picks s,
  relational (GConjPlus false gs) = true -> calls_okb ds (GConjPlus false gs) = true ->
  wf_state st -> env_ok e (ctr st) ->
  conc_conj ds uf false gs e st picks = Some s ->
  ((forall r, sat r (sub st) -> ~ DenAll ds gs (map (inst r) e)) <-> (forall x, ~ InStream ds uf x s)).
Proof. exact conc_conj_none_iff_unsat. Qed.
Print Assumptions C10_conj_none_iff_unsat.

Theorem C10_conj_zzz_none_iff_unsat : forall ds uf, uf_ok uf -> defs_ok ds -> defs_relational ds ->
  forall gs e st picks s,
  relational (GConjPlus true gs) = true -> calls_okb ds (GConjPlus true gs) = true ->
  wf_state st -> env_ok e (ctr st) ->
  conc_conj ds uf true gs e st picks = Some s ->
  ((forall r, sat r (sub st) -> ~ DenAll ds gs (map (inst r) e)) <-> (forall x, ~ InStream ds uf x s)).
Proof. exact conc_conj_zzz_none_iff_unsat. Qed.
Print Assumptions C10_conj_zzz_none_iff_unsat.

(* ConjPlus, ConjPlusZzz, mini.ConjPlusNoZzz and mini.ConjPlus all have the same answers *)
Theorem C10_conj_four_same_answers : forall ds uf, uf_ok uf -> defs_ok ds -> defs_relational ds ->
  forall gs e st picks picksz s sz,
  relational (GConjPlus false gs) = true -> calls_okb ds (GConjPlus false gs) = true ->
  wf_state st -> env_ok e (ctr st) ->
  conc_conj ds uf false gs e st picks = Some s ->
  conc_conj ds uf true gs e st picksz = Some sz ->
  forall x, (InStream ds uf x s <-> InStream ds uf x (eval ds uf (GConjPlus false gs) e st)) /\
            (InStream ds uf x sz <-> InStream ds uf x (eval ds uf (GConjPlus true gs) e st)) /\
            (InStream ds uf x s <-> InStream ds uf x sz).
Proof. exact conc_conj_four_same_answers. Qed.
Print Assumptions C10_conj_four_same_answers.

(* ---------------------------------------------------------------------------------------------------- *)
(* non-vacuity                                                                                            *)
(* ---------------------------------------------------------------------------------------------------- *)

Definition c10_e : env := query_env 1.
Definition c10_st : state := mkSt [] 1%N.
(* (disj+ (alwayso) (== q a) (nevero)) *)
Definition c10_disj_gs : list goal := [GCall 2 []; GEq (PB 0) (PAtom sym_a); GCall 1 []].
(* (conj+ (alwayso) (== a b)): the second goal fails immediately, the sequential conjunction diverges silently *)
Definition c10_conj_gs : list goal := [GCall 2 []; GEq (PAtom sym_a) (PAtom sym_b)].

(* a schedule that is not the creation order (worker 2 first) satisfies the hypothesis, and the concurrent result
   is the sequential stream; the arrival-order merge of the same schedule is a different stream *)
Example C10_nonvacuous_disj :
  let ws := map (fun g => eval exdefs uf400 g c10_e c10_st) c10_disj_gs in
  let arr := [(2, nth 2 ws SErr); (0, nth 0 ws SErr); (1, nth 1 ws SErr)] in
  Permutation arr (combine (seq 0 (length c10_disj_gs)) ws) /\
  arr <> combine (seq 0 (length c10_disj_gs)) ws /\
  conc_disj exdefs uf400 false c10_disj_gs c10_e c10_st arr = eval exdefs uf400 (GDisjPlus false c10_disj_gs) c10_e c10_st /\
  conc_disj_noorder exdefs uf400 c10_disj_gs c10_e c10_st (map snd arr)
    <> eval exdefs uf400 (GDisjPlus false c10_disj_gs) c10_e c10_st /\
  option_map (@length state) (take exdefs uf400 100 3 (conc_disj_noorder exdefs uf400 c10_disj_gs c10_e c10_st (map snd arr)))
    = Some 3%nat.
Proof.
  cbv zeta. split; [|split; [|split; [|split]]].
  - exact (Permutation_cons_append [_; _] _).
  - vm_compute. discriminate.
  - vm_compute. reflexivity.
  - vm_compute. discriminate.
  - vm_compute. reflexivity.
Qed.

(* ConjPlus: the hypotheses of the key theorem are satisfiable; one schedule returns nil early, another returns the
   (non-nil, silently diverging) sequential stream: different streams, the same (empty) set of answers *)
Example C10_nonvacuous_conj :
  defs_ok exdefs /\ defs_relational exdefs /\
  relational (GConjPlus false c10_conj_gs) = true /\ calls_okb exdefs (GConjPlus false c10_conj_gs) = true /\
  wf_state c10_st /\ env_ok c10_e (ctr c10_st) /\
  conj_schedule 2 [PWorker 1] /\ conj_schedule 2 [PWorker 0; PBind] /\
  conc_conj exdefs ufuel false c10_conj_gs c10_e c10_st [PWorker 1] = Some SNil /\
  conc_conj exdefs uf400 false c10_conj_gs c10_e c10_st [PWorker 0; PBind]
    = Some (eval exdefs uf400 (GConjPlus false c10_conj_gs) c10_e c10_st) /\
  eval exdefs uf400 (GConjPlus false c10_conj_gs) c10_e c10_st <> SNil /\
  conc_conj exdefs uf400 false c10_conj_gs c10_e c10_st [PWorker 0] = None /\
  (forall x, ~ InStream exdefs ufuel x (eval exdefs ufuel (GConjPlus false c10_conj_gs) c10_e c10_st)).
Proof.
  assert (Hd : defs_ok exdefs /\ defs_relational exdefs).
  { split; intros r body H; (destruct r as [|[|[|r]]]; simpl in H;
      [inversion H; subst; vm_compute; auto .. | destruct r; discriminate]). }
  destruct Hd as [Hdf Hrl].
  assert (Hwf : wf_state c10_st).
  { split; [split; [constructor|exists (fun _ => O); intros x t y []]|intros x []]. }
  assert (He : env_ok c10_e (ctr c10_st)).
  { intros t x [E|[]] Hx. subst t. destruct Hx as [E|[]]. subst x. reflexivity. }
  assert (Hnil : conc_conj exdefs ufuel false c10_conj_gs c10_e c10_st [PWorker 1] = Some SNil).
  { unfold conc_conj, c10_conj_gs. simpl. unfold conj_worker_msg. simpl.
    unfold ufuel. vm_compute. reflexivity. }
  split; [exact Hdf|]. split; [exact Hrl|]. split; [reflexivity|]. split; [reflexivity|].
  split; [exact Hwf|]. split; [exact He|].
  split.
  { split; [repeat constructor; simpl; intuition discriminate|]. intros i [E|[]]. inversion E. auto. }
  split.
  { split; [repeat constructor; simpl; intuition discriminate|]. intros i [E|[E|[]]]; inversion E. auto. }
  split; [exact Hnil|]. split; [vm_compute; reflexivity|]. split; [vm_compute; discriminate|].
  split; [vm_compute; reflexivity|].
  intros x.
  exact (conc_conj_nil_sound exdefs ufuel ufuel_enough Hdf Hrl c10_conj_gs c10_e c10_st [PWorker 1]
             eq_refl eq_refl Hwf He Hnil x).
Qed.
