(* C19 — example/peano relations denote Peano arithmetic in every mode.
   Only statements, each closed by `exact`, with Print Assumptions beneath.
   natplus_body, leq_body, half_body, succ_body and peano_defs are REGENERATED from example/peano/peano.go on every run
   (coq/gen/RelPeano.v).  nat_term is Makenat, parsenat is Parsenat.  "Every mode": the statements are about the logical
   reading; the *_answers_* theorems transfer them to the search with any arguments unknown. *)
From Coq Require Import List NArith ZArith Bool Arith.
From GMK Require Import Term Unify UnifyTotal Goal Stream Den ListRel PeanoRel.
From GMK.gen Require Import RelMini RelPeano.
Import ListNotations.

Theorem C19_plus_den : forall x y z ve,
  Den peano_defs (GCall natplus_idx [x; y; z]) ve <->
  exists n, close ve x = nat_term n /\ close ve z = succs n (close ve y).
Proof. exact natplus_den. Qed.
Print Assumptions C19_plus_den.

(* Natplus(x,y,z) holds exactly when x+y=z *)
Theorem C19_plus : forall x y z ve a b c,
  close ve x = nat_term a -> close ve y = nat_term b -> close ve z = nat_term c ->
  (Den peano_defs (GCall natplus_idx [x; y; z]) ve <-> a + b = c).
Proof. exact natplus_nat. Qed.
Print Assumptions C19_plus.

(* Leq(x,y) exactly when x<=y *)
Theorem C19_leq : forall x y ve a b,
  close ve x = nat_term a -> close ve y = nat_term b ->
  (Den peano_defs (GCall leq_idx [x; y]) ve <-> a <= b).
Proof. exact leq_nat. Qed.
Print Assumptions C19_leq.

Theorem C19_leq_den : forall x y ve,
  Den peano_defs (GCall leq_idx [x; y]) ve <-> exists n t, close ve x = nat_term n /\ close ve y = succs n t.
Proof. exact leq_den. Qed.
Print Assumptions C19_leq_den.

(* Half(x,y) exactly when y is x divided by two rounded down *)
Theorem C19_half : forall x y ve a b,
  close ve x = nat_term a -> close ve y = nat_term b ->
  (Den peano_defs (GCall half_idx [x; y]) ve <-> b = a / 2).
Proof. exact half_nat_div. Qed.
Print Assumptions C19_half.

Theorem C19_half_den : forall x y ve,
  Den peano_defs (GCall half_idx [x; y]) ve <->
  exists n, (close ve x = nat_term (2 * n) \/ close ve x = nat_term (2 * n + 1)) /\ close ve y = nat_term n.
Proof. exact half_den. Qed.
Print Assumptions C19_half_den.

(* Makenat and Parsenat are mutually inverse on naturals (Parsenat only follows cars, so the converse is for
   Peano-shaped terms) *)
Theorem C19_nat_inverse : forall n t, t = nat_term n <-> peano_shaped t /\ parsenat (S n) t = Some n.
Proof. exact parsenat_makenat_inverse. Qed.
Print Assumptions C19_nat_inverse.

Theorem C19_nat_injective : forall n m, nat_term n = nat_term m -> n = m.
Proof. exact nat_term_inj. Qed.
Print Assumptions C19_nat_injective.

(* the search, with any arguments unknown: every instantiation of an answer by naturals is a satisfying tuple,
   and every satisfying tuple is an instance of an answer returned for some finite request *)
Theorem C19_plus_answers_sound : forall px py pz e st x,
  wf_state st -> env_ok e (ctr st) ->
  InStream peano_defs ufuel x (eval peano_defs ufuel (GCall natplus_idx [px; py; pz]) e st) ->
  forall r a b c, sat r (sub x) ->
  inst r (close e px) = nat_term a -> inst r (close e py) = nat_term b -> inst r (close e pz) = nat_term c -> a + b = c.
Proof. exact natplus_search_sound_nat. Qed.
Print Assumptions C19_plus_answers_sound.

Theorem C19_plus_answers_complete : forall px py pz e st r a b c,
  wf_state st -> env_ok e (ctr st) -> sat r (sub st) ->
  inst r (close e px) = nat_term a -> inst r (close e py) = nat_term b -> inst r (close e pz) = nat_term c -> a + b = c ->
  exists x r', InStream peano_defs ufuel x (eval peano_defs ufuel (GCall natplus_idx [px; py; pz]) e st) /\
    (exists f k ans, take peano_defs ufuel f k (eval peano_defs ufuel (GCall natplus_idx [px; py; pz]) e st) = Some ans /\ In x ans) /\
    sat r' (sub x) /\ (forall y, (y < ctr st)%N -> r' y = r y).
Proof. exact natplus_search_complete_nat. Qed.
Print Assumptions C19_plus_answers_complete.

Theorem C19_table_ok : defs_ok peano_defs /\ defs_relational peano_defs.
Proof. exact (conj peano_defs_ok peano_defs_relational). Qed.
Print Assumptions C19_table_ok.

Example C19_nonvacuous :
  nat_term 2 = TPair (TPair (TAtom (AInt 0%Z)) TNil) TNil /\ parsenat 3 (nat_term 2) = Some 2%nat /\
  succs 2 (nat_term 1) = nat_term 3.
Proof. repeat split; reflexivity. Qed.
