(* C12 — the gomini routine limit changes pacing only, never termination or answers.
   Only statements, each closed by `exact`, with Print Assumptions beneath.  Model: Limiter.v - an LTS over a finite
   forest of tasks (the goroutines of a search that terminates without the limit), the token channel and the ticker;
   the schedule is a list of labels, so "under every schedule" is a plain forall.
   Parameters:  lim = None (no limit) | Some max;   release_blocks = true (THE CODE: releaseRoutine is a blocking
   send on a channel the ticker may have filled) | false (repaired: the token is dropped when the channel is full).
   With release_blocks = true the property is FALSE (C12_refuted_blocking_release).
   "Tick fairness" needs no separate hypothesis in this formulation: a tick is a step of the system, it is enabled
   exactly when the channel has room, so at most max ticks occur between two other steps; the theorems say that every
   step decreases a measure and that a configuration with unfinished work always has an enabled step, i.e. every
   maximal run (every run in which an enabled ticker or goroutine is not suspended for ever) is finite and complete.
   What the model cannot exhibit: the blocking of result-stream writes on a consumer that has stopped reading
   (that is cancellation, C11), goals that do not terminate without the limit, real time. *)
From Coq Require Import List Arith Bool Permutation.
From GMK Require Import Leak LeakSpec Limiter LimiterSpec.
Import ListNotations.

(* With the non-blocking release a goroutine that has entered releaseRoutine can always leave it: limit or no limit,
   any configuration, whatever the ticker has done. *)
Theorem C12_release_never_blocks : forall lim c i t,
  nth_error (tasks c) i = Some t -> st t = Releasing -> exists c', step lim false c (LRelease i) = Some c'.
Proof. exact release_never_blocks. Qed.
Print Assumptions C12_release_never_blocks.

(* Termination for every max >= 1, every finite program and every schedule: a run of the limited system from the
   initial configuration has at most work * (max + 1) steps (every step, ticks included, decreases mu), and a
   reachable configuration in which no step is enabled is a finished search - a configuration with unfinished work
   is never deadlocked. *)
Theorem C12_terminates : forall max p ls c,
  1 <= max -> wfprog p -> run (Some max) false (init max p) ls = Some c ->
  length ls + mu max c <= work p * S max /\
  (forall l c', step (Some max) false c l = Some c' -> mu max c' < mu max c) /\
  ((forall l, step (Some max) false c l = None) -> forall t, In t (tasks c) -> st t = Finished).
Proof. exact terminates. Qed.
Print Assumptions C12_terminates.

(* Pacing: a Go that finds no token is disabled, the tick is then enabled, and after one tick the Go is enabled. *)
Theorem C12_pacing_one_tick : forall max rb c i t,
  1 <= max -> nth_error (tasks c) i = Some t -> st t = NotStarted -> parent_running (tasks c) t = true ->
  tokens c = 0 ->
  step (Some max) rb c (LAcquire i) = None /\
  exists c1 c2, step (Some max) rb c LTick = Some c1 /\ step (Some max) rb c1 (LAcquire i) = Some c2.
Proof. exact tick_enables_acquire. Qed.
Print Assumptions C12_pacing_one_tick.

(* The limit only removes schedules: erasing the ticks from any run of the limited system (either release) gives a
   run of the unlimited system through the same task states with the same answers delivered, complete if the limited
   one is.  So whatever holds of all unlimited runs (the multiset theorem of C06) holds of all limited runs. *)
Theorem C12_same_answers : forall max rb rb' p ls c,
  run (Some max) rb (init max p) ls = Some c ->
  exists c0, run None rb' (init 0 p) (erase ls) = Some c0 /\ out c0 = out c /\ tasks c0 = tasks c /\
             ((forall t, In t (tasks c) -> st t = Finished) -> forall t, In t (tasks c0) -> st t = Finished).
Proof. exact same_answers. Qed.
Print Assumptions C12_same_answers.

(* ... and inside this model the multiset statement itself: every complete run, with or without the limit, under
   either release, has delivered exactly the answers of the program, as a multiset. *)
Theorem C12_answers_multiset : forall lim rb k p ls c,
  wfprog p -> run lim rb (init k p) ls = Some c -> (lim = None \/ lim = Some k) ->
  (forall t, In t (tasks c) -> st t = Finished) ->
  Permutation (out c) (all_answers p).
Proof. exact answers_complete. Qed.
Print Assumptions C12_answers_multiset.

(* The code: a disjunction of two goals under SetMaxRoutines(ctx, 1).  Each Go needs a tick because the parent holds
   the only permit; one more tick fills the channel; both children write their answers and block in releaseRoutine,
   which runs before wg.Done; the root stays in wg.Wait() and never closes the stream.  No step is enabled: a
   reachable deadlock with unfinished work, in a search that terminates without the limit. *)
Theorem C12_refuted_blocking_release :
  exists c, run (Some 1) true (init 1 prog_disj) deadlock_sched = Some c /\
    (forall l, step (Some 1) true c l = None) /\
    ~ (forall t, In t (tasks c) -> st t = Finished) /\ out c = [8; 7] /\
    (exists t, nth_error (tasks c) 1 = Some t /\ st t = Releasing) /\
    (exists t, nth_error (tasks c) 0 = Some t /\ st t = Running).
Proof. exact refuted_blocking_release. Qed.
Print Assumptions C12_refuted_blocking_release.

(* ... and handing the permit back must be ONE atomic non-blocking operation: with the check-then-act form
   `if len(ch) == cap(ch) { return }; ch <- x` two goroutines that finish together (max = 1, channel empty) both see
   room, the first send fills the channel, the second blocks - and stays blocked under EVERY continuation, since nothing
   takes a permit any more (schedule: check 0, check 1, send 0). *)
Theorem C12_refuted_check_then_act :
  exists c, crun 1 (mkCC 0 [RIdle; RIdle]) cta_sched = Some c /\
            nth_error (rel c) 1 = Some RChecked /\ ctok c = 1 /\
            forall ls c', crun 1 c ls = Some c' -> nth_error (rel c') 1 = Some RChecked /\ ctok c' = 1.
Proof. exact refuted_check_then_act. Qed.
Print Assumptions C12_refuted_check_then_act.

(* Installing the limit is part of "any size >= 1": with the refill ticker started BEFORE the permits are put into the
   channel (the code as it was), one tick during the fill makes the last send block for ever, for every max >= 1 - and the
   fill does take longer than a refill period once max is in the millions.  With all permits handed out first (the repaired
   order) the fill completes with exactly max permits, on every schedule. *)
Theorem C12_refuted_fill_after_ticker : forall max, 1 <= max ->
  frun max true (0, max) (FTick :: repeat FFill (max - 1)) = Some (max, 1) /\
  forall l, fstep max true (max, 1) l = None.
Proof. exact refuted_fill_after_ticker. Qed.
Print Assumptions C12_refuted_fill_after_ticker.

Theorem C12_fill_before_ticker : forall max, frun max false (0, max) (repeat FFill max) = Some (max, 0) /\
  forall ls c, frun max false (0, max) ls = Some c -> fst c + snd c = max.
Proof. exact fill_before_ticker. Qed.
Print Assumptions C12_fill_before_ticker.

(* non-vacuity: prog_disj is a program; under max = 1 with the repaired release the deadlock schedule continues to a
   finished search with the same two answers, in 10 + 3 <= work * 2 = 22 steps; its erasure is the unlimited run *)
Example C12_nonvacuous :
  wfprog prog_disj /\ work prog_disj = 11 /\
  (exists c, run (Some 1) false (init 1 prog_disj) (deadlock_sched ++ [LRelease 1; LRelease 2; LFinish 0; LRelease 0]) = Some c /\
     (forall t, In t (tasks c) -> st t = Finished) /\ out c = [8; 7] /\
     (forall l, step (Some 1) false c l = None)) /\
  erase deadlock_sched = [LAcquire 0; LAcquire 1; LAcquire 2; LEmit 1; LFinish 1; LEmit 2; LFinish 2] /\
  (* without ticks the limited search cannot even start its first child: pacing is the ticker's *)
  run (Some 1) false (init 1 prog_disj) [LAcquire 0; LAcquire 1] = None /\
  (exists c, run None false (init 0 prog_disj) [LAcquire 0; LAcquire 1] = Some c).
Proof.
  split; [|split; [reflexivity|split; [|split; [reflexivity|split; [reflexivity|eexists; reflexivity]]]]].
  - split.
    + intros t [<-|[<-|[<-|[]]]]; reflexivity.
    + intros i t q H P. destruct i as [|[|[|i]]]; simpl in H.
      * inversion H; subst; discriminate.
      * inversion H; subst. inversion P. auto.
      * inversion H; subst. inversion P. auto.
      * destruct i; discriminate.
  - eexists. split; [vm_compute; reflexivity|]. split; [|split; [reflexivity|]].
    + intros t [<-|[<-|[<-|[]]]]; reflexivity.
    + intros l. destruct l as [i|i|i|i|]; try reflexivity; destruct i as [|[|[|[|i]]]]; reflexivity.
Qed.
