(* L2 model: lazy streams of states with suspensions (micro/stream.go), Mplus (micro/disj.go), Bind (micro/conj.go),
   goal evaluation, forcing of suspensions, takeStream. No proofs here.

   A suspension is never run when it is merely inspected: `mplus (SSusp th) s2 = SSusp (TMplus s2 th)` and
   likewise for bind / ifte / once.  This is the semantics the properties demand (Mplus/Bind/ifThenElseLoop/onceLoop
   must test `state == nil` before they call CarCdr).  The lazily computed tail of a mature cell is modelled as the
   already computed tail: a chain of mature cells is finite and its computation is pure.

   `eval` is structural in the goal: a relation call does not recurse into `eval` but runs the head evaluator
   `evalh` on the relation's body, which only understands guard-shaped heads (a Zzz, or the conj+/disj+/conde
   wrappers, possibly under CallFresh) and is SErr for anything else.  SErr is "the Go program would recurse while
   the goal is being built / started" or "unify out of fuel"; it is never an answer. *)
From Coq Require Import List NArith ZArith Bool.
From GMK Require Import Term Unify Goal.
Import ListNotations.

Inductive stream :=
| SNil                                   (* nil *)
| SCons (st : state) (tl : stream)       (* mature cell *)
| SSusp (th : thunk)                     (* immature cell: Suspension(proc) *)
| SErr
with thunk :=
| TGoal (g : goal) (e : env) (st : state)               (* func() { return g(st) } *)
| TMplus (s2 : stream) (th1 : thunk)                    (* func() { return Mplus(s2, th1()) } *)
| TBind (th : thunk) (g : goal) (e : env)               (* func() { return Bind(th(), g) } *)
| TIfte (th : thunk) (g2 g3 : goal) (e : env) (st : state)  (* func() { return ifThenElseLoop(g2, g3, st, th()) } *)
| TOnce (th : thunk).                                   (* func() { return onceLoop(th()) } *)

(* Mplus *)
Fixpoint mplus (s1 s2 : stream) : stream :=
  match s1 with
  | SNil => s2
  | SCons a tl => SCons a (mplus tl s2)
  | SSusp th => SSusp (TMplus s2 th)
  | SErr => SErr
  end.

(* Bind, with the goal abstracted as k (how to run it on a state) and mk (how to name the suspended bind) *)
Fixpoint bindk (k : state -> stream) (mk : thunk -> thunk) (s : stream) : stream :=
  match s with
  | SNil => SNil
  | SCons a tl => mplus (k a) (bindk k mk tl)
  | SSusp th => SSusp (mk th)
  | SErr => SErr
  end.

(* onceLoop *)
Definition once_loop (s : stream) : stream :=
  match s with
  | SNil => SNil
  | SCons a _ => SCons a SNil
  | SSusp th => SSusp (TOnce th)
  | SErr => SErr
  end.

Definition fresh_state (st : state) : state := mkSt (sub st) (ctr st + 1).

Section Eval.
  Variable ds : defs.
  (* fuel handed to unify for one equation *)
  Variable uf : term -> term -> subst -> nat.

  (* disj+ with Zzz: every argument becomes a suspension; no evaluation of the arguments is needed *)
  Fixpoint disjplus_z (gs : list goal) (e : env) (st : state) : stream :=
    match gs with
    | [] => SNil
    | [g1] => SSusp (TGoal g1 e st)
    | g1 :: rest => mplus (SSusp (TGoal g1 e st)) (disjplus_z rest e st)
    end.

  (* conj+ with Zzz: Bind of a suspension is a suspension *)
  Definition conjplus_z (gs : list goal) (e : env) (st : state) : stream :=
    match gs with
    | [] => SCons st SNil
    | [g1] => SSusp (TGoal g1 e st)
    | g1 :: rest => SSusp (TBind (TGoal g1 e st) (GConjPlus true rest) e)
    end.

  (* head evaluator: no recursion into eval *)
  Fixpoint evalh (g : goal) (e : env) (st : state) : stream :=
    match g with
    | GZzz g1 => SSusp (TGoal g1 e st)
    | GFresh g1 => evalh g1 (TVar (ctr st) :: e) (fresh_state st)
    | GDisjPlus true gs => disjplus_z gs e st
    | GConjPlus true gs => conjplus_z gs e st
    | _ => SErr
    end.

  Fixpoint eval (g : goal) (e : env) (st : state) {struct g} : stream :=
    match g with
    | GFail => SNil
    | GSucc => SCons st SNil
    | GEq t1 t2 =>
        let u := close e t1 in let v := close e t2 in
        match unify (uf u v (sub st)) u v (sub st) with
        | Ok s' => SCons (mkSt s' (ctr st)) SNil
        | Fail => SNil
        | OOF => SErr
        end
    | GDisj g1 g2 => mplus (eval g1 e st) (eval g2 e st)
    | GConj g1 g2 => bindk (fun a => eval g2 e a) (fun th => TBind th g2 e) (eval g1 e st)
    | GFresh g1 => eval g1 (TVar (ctr st) :: e) (fresh_state st)
    | GZzz g1 => SSusp (TGoal g1 e st)
    | GLet args b => eval b (arg_env e args) st
    | GCall r args =>
        match ds r with
        | Some body => evalh body (arg_env e args) st
        | None => SErr
        end
    | GConjPlus true gs => conjplus_z gs e st
    | GDisjPlus true gs => disjplus_z gs e st
    | GConjPlus false gs =>
        (fix cp (gs : list goal) (st : state) : stream :=
           match gs with
           | [] => SCons st SNil
           | [g1] => eval g1 e st
           | g1 :: rest => bindk (fun a => cp rest a) (fun th => TBind th (GConjPlus false rest) e) (eval g1 e st)
           end) gs st
    | GDisjPlus false gs =>
        (fix dp (gs : list goal) : stream :=
           match gs with
           | [] => SNil
           | [g1] => eval g1 e st
           | g1 :: rest => mplus (eval g1 e st) (dp rest)
           end) gs
    | GIfte c t el =>
        match eval c e st with
        | SNil => eval el e st
        | SCons a tl => bindk (fun a => eval t e a) (fun th => TBind th t e) (SCons a tl)
        | SSusp th => SSusp (TIfte th t el e st)
        | SErr => SErr
        end
    | GOnce g1 => once_loop (eval g1 e st)
    end.

  (* running a suspension *)
  Fixpoint force (th : thunk) : stream :=
    match th with
    | TGoal g e st => eval g e st
    | TMplus s2 th1 => mplus s2 (force th1)
    | TBind th1 g e => bindk (fun a => eval g e a) (fun th' => TBind th' g e) (force th1)
    | TIfte th1 t el e st =>
        match force th1 with
        | SNil => eval el e st
        | SCons a tl => bindk (fun a => eval t e a) (fun th' => TBind th' t e) (SCons a tl)
        | SSusp th' => SSusp (TIfte th' t el e st)
        | SErr => SErr
        end
    | TOnce th1 => once_loop (force th1)
    end.

  (* takeStream(n, s); fuel bounds the number of cells visited; None = out of fuel or SErr *)
  Fixpoint take (f : nat) (n : Z) (s : stream) : option (list state) :=
    match f with
    | O => None
    | S f' =>
        if Z.eqb n 0 then Some []
        else match s with
             | SNil => Some []
             | SCons a tl => option_map (cons a) (take f' (n - 1) tl)
             | SSusp th => take f' n (force th)
             | SErr => None
             end
    end.

  (* the cell trace observed by stepping CarCdr with a budget of forces *)
  Inductive event := EvS | EvA (st : state) | EvNil | EvErr | EvBudget.
  Fixpoint trace (f : nat) (s : stream) {struct f} : list event :=
    (fix go (s : stream) : list event :=
       match s with
       | SNil => [EvNil]
       | SErr => [EvErr]
       | SCons a tl => EvA a :: go tl
       | SSusp th => match f with O => [EvBudget] | S f' => EvS :: trace f' (force th) end
       end) s.
End Eval.
