(* example/peano: the logical reading of the GENERATED bodies of Natplus, Leq, Half (gen/RelPeano.v) is addition,
   order and halving of Peano numerals; Makenat / Parsenat; the search enumerates exactly the sums. *)
From Coq Require Import List NArith ZArith Bool Lia Arith Setoid Morphisms.
From GMK Require Import Term Unify UnifyTotal Goal Stream Den InStream Sound Complete ListRel.
From GMK.gen Require Import RelMini RelPeano RelConcato.
Import ListNotations.

(* peano.Makenat *)
Fixpoint nat_term (n : nat) : term :=
  match n with O => TAtom (AInt 0%Z) | S k => TPair (nat_term k) TNil end.

(* n successors on top of an arbitrary term *)
Fixpoint succs (n : nat) (t : term) : term :=
  match n with O => t | S k => TPair (succs k t) TNil end.

(* peano.Parsenat: `x == Zero` is "the atom 0"; otherwise 1 + Parsenat(x.Car()); Car of a non-pair panics (None);
   f bounds the recursion depth *)
Fixpoint parsenat (f : nat) (t : term) : option nat :=
  match f with
  | O => None
  | S f' =>
      match t with
      | TAtom (AInt Z0) => Some O
      | TPair a _ => option_map S (parsenat f' a)
      | _ => None
      end
  end.

(* ---------- numerals ---------- *)

Theorem nat_term_inj : forall n m, nat_term n = nat_term m -> n = m.
Proof.
  induction n as [|n IH]; intros [|m] H; simpl in H; try discriminate; [reflexivity|].
  inversion H. f_equal. apply IH. assumption.
Qed.
Print Assumptions nat_term_inj.

Theorem succs_nat : forall n m, succs n (nat_term m) = nat_term (n + m).
Proof. induction n as [|n IH]; intros m; simpl; [reflexivity|rewrite IH; reflexivity]. Qed.
Print Assumptions succs_nat.

Lemma succs_zero n : succs n (TAtom (AInt 0%Z)) = nat_term n.
Proof. change (TAtom (AInt 0%Z)) with (nat_term 0). rewrite (succs_nat n 0). f_equal. lia. Qed.

Lemma nat_term_succs : forall n b t, nat_term b = succs n t -> (n <= b)%nat /\ t = nat_term (b - n).
Proof.
  induction n as [|n IH]; intros b t H; simpl in H.
  - split; [lia|]. rewrite Nat.sub_0_r. symmetry. exact H.
  - destruct b as [|b]; simpl in H; [discriminate|]. inversion H.
    destruct (IH b t H1) as [L E]. split; [lia|exact E].
Qed.

Lemma parsenat_nat_term_ge : forall n f, (n < f)%nat -> parsenat f (nat_term n) = Some n.
Proof.
  induction n as [|n IH]; intros f Hf; (destruct f as [|f]; [lia|]).
  - reflexivity.
  - cbn [nat_term parsenat]. rewrite IH by lia. reflexivity.
Qed.

(* Parsenat (Makenat n) = n *)
Theorem parsenat_nat_term : forall n, parsenat (S n) (nat_term n) = Some n.
Proof. intros n. apply parsenat_nat_term_ge. lia. Qed.
Print Assumptions parsenat_nat_term.

(* Parsenat looks at the cars only: the converse needs the cdrs to be nil *)
Fixpoint peano_shaped (t : term) : Prop :=
  match t with TPair a d => d = TNil /\ peano_shaped a | _ => True end.

Lemma nat_term_shaped n : peano_shaped (nat_term n).
Proof. induction n; simpl; auto. Qed.

(* Makenat (Parsenat t) = t on numerals *)
Theorem nat_term_parsenat : forall f t n, parsenat f t = Some n -> peano_shaped t -> t = nat_term n.
Proof.
  induction f as [|f IH]; intros t n H Hs; [discriminate|].
  destruct t as [|a|i|a d]; simpl in H; try discriminate.
  - destruct a as [s|z|s|k|k]; try discriminate. destruct z; try discriminate.
    inversion H. reflexivity.
  - destruct (parsenat f a) as [k|] eqn:E; simpl in H; [|discriminate]. inversion H; subst n.
    destruct Hs as [Hd Ha]. subst d. simpl. f_equal. apply IH; assumption.
Qed.
Print Assumptions nat_term_parsenat.

(* the side condition cannot be dropped: Parsenat accepts (0 . 1) as 1 *)
Lemma parsenat_ignores_cdr :
  parsenat 2 (TPair (TAtom (AInt 0%Z)) (TAtom (AInt 1%Z))) = Some 1%nat /\
  TPair (TAtom (AInt 0%Z)) (TAtom (AInt 1%Z)) <> nat_term 1.
Proof. split; [reflexivity|discriminate]. Qed.

Corollary parsenat_makenat_inverse n t :
  (t = nat_term n) <-> (peano_shaped t /\ parsenat (S n) t = Some n).
Proof.
  split.
  - intros E. subst t. split; [apply nat_term_shaped|apply parsenat_nat_term].
  - intros [Hs H]. eapply nat_term_parsenat; eauto.
Qed.
Print Assumptions parsenat_makenat_inverse.

(* ================================================================================================ *)
Notation pds := peano_defs.

(* ---------- Natplus(x, y, z): environment [z; y; x] ---------- *)

Definition plus_spec (env : list term) : Prop :=
  exists n, nth 2 env TNil = nat_term n /\ nth 0 env TNil = succs n (nth 1 env TNil).

Lemma natplus_core env : DenCall pds natplus_idx env <-> plus_spec env.
Proof.
  split.
  - intros H. refine (call_lfp pds (fun r e => r = natplus_idx -> plus_spec e) _ _ _ H eq_refl).
    clear env H. intros r body env Hb HS Hr. subst r. unfold peano_defs, natplus_idx in Hb. table_entry Hb.
    unfold natplus_body, succ_body in HS. simpl in HS. sem_destruct;
      try match goal with H : _ -> plus_spec _ |- _ => destruct (H eq_refl) as [n [E1 E2]]; simpl in E1, E2 end;
      first [ exists 0%nat; simpl; split; congruence | exists (S n); simpl; split; congruence ].
  - intros [n [H2 H0]]. revert env H2 H0. induction n as [|n IH]; intros env H2 H0; simpl in H2, H0;
      (exists natplus_body; split; [reflexivity|]); den_simpl; unfold natplus_body, succ_body; simpl.
    + sem_auto fail.
    + sem_auto ltac:(apply IH; simpl; reflexivity).
Qed.

Theorem natplus_den x y z ve :
  Den pds (GCall natplus_idx [x; y; z]) ve <->
  exists n, close ve x = nat_term n /\ close ve z = succs n (close ve y).
Proof. rewrite den_call_iff, natplus_core. unfold plus_spec, arg_env. simpl. reflexivity. Qed.
Print Assumptions natplus_den.

Theorem natplus_nat x y z ve a b c :
  close ve x = nat_term a -> close ve y = nat_term b -> close ve z = nat_term c ->
  (Den pds (GCall natplus_idx [x; y; z]) ve <-> (a + b = c)%nat).
Proof.
  intros Hx Hy Hz. rewrite natplus_den, Hx, Hy, Hz. split.
  - intros [n [E1 E2]]. apply nat_term_inj in E1. subst n. rewrite succs_nat in E2.
    apply nat_term_inj in E2. lia.
  - intros E. exists a. split; [reflexivity|]. rewrite succs_nat, E. reflexivity.
Qed.
Print Assumptions natplus_nat.

(* ---------- Leq(x, y): environment [y; x] ---------- *)

Definition leq_spec (env : list term) : Prop :=
  exists n t, nth 1 env TNil = nat_term n /\ nth 0 env TNil = succs n t.

Lemma leq_core env : DenCall pds leq_idx env <-> leq_spec env.
Proof.
  split.
  - intros H. refine (call_lfp pds (fun r e => r = leq_idx -> leq_spec e) _ _ _ H eq_refl).
    clear env H. intros r body env Hb HS Hr. subst r. unfold peano_defs, leq_idx in Hb. table_entry Hb.
    unfold leq_body, succ_body in HS. simpl in HS. sem_destruct;
      try match goal with H : _ -> leq_spec _ |- _ => destruct (H eq_refl) as [n [t [E1 E2]]]; simpl in E1, E2 end;
      first [ exists 0%nat, (nth 0 env TNil); simpl; split; congruence
            | exists (S n), t; simpl; split; congruence ].
  - intros [n [t [H1 H0]]]. revert env H1 H0. induction n as [|n IH]; intros env H1 H0; simpl in H1, H0;
      (exists leq_body; split; [reflexivity|]); den_simpl; unfold leq_body, succ_body; simpl.
    + sem_auto fail.
    + sem_auto ltac:(apply IH; simpl; reflexivity).
Qed.

Theorem leq_den x y ve :
  Den pds (GCall leq_idx [x; y]) ve <->
  exists n t, close ve x = nat_term n /\ close ve y = succs n t.
Proof. rewrite den_call_iff, leq_core. unfold leq_spec, arg_env. simpl. reflexivity. Qed.
Print Assumptions leq_den.

Theorem leq_nat x y ve a b :
  close ve x = nat_term a -> close ve y = nat_term b ->
  (Den pds (GCall leq_idx [x; y]) ve <-> (a <= b)%nat).
Proof.
  intros Hx Hy. rewrite leq_den, Hx, Hy. split.
  - intros [n [t [E1 E2]]]. apply nat_term_inj in E1. subst n. apply nat_term_succs in E2. tauto.
  - intros L. exists a, (nat_term (b - a)). split; [reflexivity|]. rewrite succs_nat. f_equal. lia.
Qed.
Print Assumptions leq_nat.

(* ---------- Half(x, y): environment [y; x] ---------- *)

Definition half_spec (env : list term) : Prop :=
  exists n, (nth 1 env TNil = nat_term (n + n) \/ nth 1 env TNil = nat_term (S (n + n))) /\
            nth 0 env TNil = nat_term n.

Lemma half_core env : DenCall pds half_idx env <-> half_spec env.
Proof.
  split.
  - intros H. refine (call_lfp pds (fun r e => r = half_idx -> half_spec e) _ _ _ H eq_refl).
    clear env H. intros r body env Hb HS Hr. subst r. unfold peano_defs, half_idx in Hb. table_entry Hb.
    unfold half_body, succ_body in HS. simpl in HS. sem_destruct;
      try match goal with H : _ -> half_spec _ |- _ => destruct (H eq_refl) as [n [E1 E2]]; simpl in E1, E2 end;
      first [ exists 0%nat; simpl; split; [first [left; congruence|right; congruence]|congruence]
            | exists (S n); replace (S n + S n)%nat with (S (S (n + n))) by lia; simpl;
              split; [destruct E1 as [E1|E1]; [left|right]; congruence|congruence] ].
  - intros [n [H1 H0]]. revert env H1 H0. induction n as [|n IH]; intros env H1 H0;
      [|replace (S n + S n)%nat with (S (S (n + n))) in H1 by lia]; simpl in H1, H0; destruct H1 as [H1|H1];
      (exists half_body; split; [reflexivity|]); den_simpl; unfold half_body, succ_body; simpl.
    + sem_auto fail.
    + sem_auto fail.
    + sem_auto ltac:(apply IH; simpl; sem_auto fail).
    + sem_auto ltac:(apply IH; simpl; sem_auto fail).
Qed.

Theorem half_den x y ve :
  Den pds (GCall half_idx [x; y]) ve <->
  exists n, (close ve x = nat_term (2 * n) \/ close ve x = nat_term (2 * n + 1)) /\ close ve y = nat_term n.
Proof.
  rewrite den_call_iff, half_core. unfold half_spec, arg_env. simpl nth.
  split; intros [n H]; exists n.
  - replace (2 * n)%nat with (n + n)%nat by lia. replace (n + n + 1)%nat with (S (n + n)) by lia. exact H.
  - replace (2 * n)%nat with (n + n)%nat in H by lia. replace (n + n + 1)%nat with (S (n + n)) in H by lia. exact H.
Qed.
Print Assumptions half_den.

Theorem half_nat x y ve a b :
  close ve x = nat_term a -> close ve y = nat_term b ->
  (Den pds (GCall half_idx [x; y]) ve <-> b = Nat.div2 a).
Proof.
  intros Hx Hy. rewrite half_den, Hx, Hy. split.
  - intros [n [[E1|E1] E2]]; apply nat_term_inj in E1; apply nat_term_inj in E2; subst.
    + symmetry. apply Nat.div2_double.
    + replace (2 * n + 1)%nat with (S (2 * n)) by lia. symmetry. apply Nat.div2_succ_double.
  - intros E. subst b. exists (Nat.div2 a). split; [|reflexivity].
    pose proof (Nat.div2_odd a) as Ho. destruct (Nat.odd a); simpl in Ho.
    + right. f_equal. lia.
    + left. f_equal. lia.
Qed.
Print Assumptions half_nat.

Corollary half_nat_div x y ve a b :
  close ve x = nat_term a -> close ve y = nat_term b ->
  (Den pds (GCall half_idx [x; y]) ve <-> b = (a / 2)%nat).
Proof. intros Hx Hy. rewrite (half_nat x y ve a b Hx Hy), Nat.div2_div. reflexivity. Qed.
Print Assumptions half_nat_div.

(* ---------- the table ---------- *)

Theorem peano_defs_ok : defs_ok peano_defs.
Proof.
  intros r body Hb. unfold peano_defs in Hb.
  destruct r as [|[|[|r]]]; simpl in Hb; try (destruct r; discriminate); inversion Hb; subst body; clear Hb;
    split; reflexivity.
Qed.
Print Assumptions peano_defs_ok.

Theorem peano_defs_relational : defs_relational peano_defs.
Proof.
  intros r body Hb. unfold peano_defs in Hb.
  destruct r as [|[|[|r]]]; simpl in Hb; try (destruct r; discriminate); inversion Hb; subst body; clear Hb;
    reflexivity.
Qed.
Print Assumptions peano_defs_relational.

(* ================================================================================================ *)
(* end to end *)

Theorem natplus_search_sound px py pz e st x :
  wf_state st -> env_ok e (ctr st) ->
  InStream pds ufuel x (eval pds ufuel (GCall natplus_idx [px; py; pz]) e st) ->
  forall r, sat r (sub x) ->
    sat r (sub st) /\
    exists n, inst r (close e px) = nat_term n /\ inst r (close e pz) = succs n (inst r (close e py)).
Proof.
  intros Hwf He Hin r Hr.
  destruct (eval_sound _ _ _ _ _ _ Hwf He Hin) as [_ [_ [_ Hs]]].
  destruct (Hs r Hr) as [H0 Hd]. split; [exact H0|].
  apply natplus_den in Hd. rewrite !inst_close. exact Hd.
Qed.
Print Assumptions natplus_search_sound.

(* every instantiation of an answer by naturals is a sum *)
Corollary natplus_search_sound_nat px py pz e st x :
  wf_state st -> env_ok e (ctr st) ->
  InStream pds ufuel x (eval pds ufuel (GCall natplus_idx [px; py; pz]) e st) ->
  forall r a b c, sat r (sub x) ->
    inst r (close e px) = nat_term a -> inst r (close e py) = nat_term b -> inst r (close e pz) = nat_term c ->
    (a + b = c)%nat.
Proof.
  intros Hwf He Hin r a b c Hr Ea Eb Ec.
  destruct (natplus_search_sound px py pz e st x Hwf He Hin r Hr) as [_ [n [E1 E2]]].
  rewrite Ea in E1. apply nat_term_inj in E1. subst n. rewrite Eb, Ec, succs_nat in E2.
  apply nat_term_inj in E2. lia.
Qed.
Print Assumptions natplus_search_sound_nat.

Theorem natplus_search_complete px py pz e st r n :
  wf_state st -> env_ok e (ctr st) -> sat r (sub st) ->
  inst r (close e px) = nat_term n -> inst r (close e pz) = succs n (inst r (close e py)) ->
  exists x r',
    InStream pds ufuel x (eval pds ufuel (GCall natplus_idx [px; py; pz]) e st) /\
    (exists f k ans, take pds ufuel f k (eval pds ufuel (GCall natplus_idx [px; py; pz]) e st) = Some ans /\
                     In x ans) /\
    sat r' (sub x) /\ (forall y, (y < ctr st)%N -> r' y = r y).
Proof.
  intros Hwf He Hs E1 E2.
  assert (Hd: Den pds (GCall natplus_idx [px; py; pz]) (map (inst r) e)).
  { apply natplus_den. exists n. rewrite <- !inst_close. split; assumption. }
  destruct (eval_complete pds ufuel ufuel_ok peano_defs_ok peano_defs_relational
              _ _ Hd e st r eq_refl eq_refl eq_refl Hwf He Hs) as [x [r' [Hin [Hs' Hag]]]].
  exists x, r'. split; [exact Hin|]. split; [|split; assumption].
  apply eval_complete_take. exact Hin.
Qed.
Print Assumptions natplus_search_complete.

(* every sum of naturals that solves the start state is an instance of an answer at a finite position *)
Corollary natplus_search_complete_nat px py pz e st r a b c :
  wf_state st -> env_ok e (ctr st) -> sat r (sub st) ->
  inst r (close e px) = nat_term a -> inst r (close e py) = nat_term b -> inst r (close e pz) = nat_term c ->
  (a + b = c)%nat ->
  exists x r',
    InStream pds ufuel x (eval pds ufuel (GCall natplus_idx [px; py; pz]) e st) /\
    (exists f k ans, take pds ufuel f k (eval pds ufuel (GCall natplus_idx [px; py; pz]) e st) = Some ans /\
                     In x ans) /\
    sat r' (sub x) /\ (forall y, (y < ctr st)%N -> r' y = r y).
Proof.
  intros Hwf He Hs Ea Eb Ec E.
  apply (natplus_search_complete px py pz e st r a Hwf He Hs Ea).
  rewrite Eb, Ec, succs_nat, E. reflexivity.
Qed.
Print Assumptions natplus_search_complete_nat.
