(* Proofs about the LR driver (LRDriver.v) over the generated tables: a boolean validator `lr_ok` (checked by
   vm_compute over the finite tables) and the generic theorem
        lr_ok = true  ->  in every reachable configuration the stack is a path of the automaton from state 0 whose
                          entries derive the input segments they cover  ->  no Stuck, sound, terminating.
   No hints are trusted: the predecessor edges and the backward walks are computed here from the tables. *)
From Coq Require Import List NArith ZArith Bool Lia String.
From GMK Require Import TableTypes gen.Tables gen.GrammarGen LexDriver LRDriver Grammar LexSpec CorrBase.
Import ListNotations.
Local Open Scope list_scope.
Local Open Scope nat_scope.
Local Notation length := List.length.

(* ------------------------------------------------------------------------------------------------------------ *)
(* The validator                                                                                                *)
(* ------------------------------------------------------------------------------------------------------------ *)
Definition states : list nat := seq 0 p_num_states.
Definition tcols : list nat := seq 0 p_num_symbols.
Definition ntcols : list nat := seq 0 p_num_nt.
Definition all_syms : list symbol := map T tcols ++ map NT ntcols.

Definition act (s t : nat) : action := match action_at s t with Some a => a | None => ANone end.
Definition gto (s n : nat) : option nat := match goto_at s n with Some (Some x) => Some x | _ => None end.

(* q --X--> s : shift on a terminal or goto on a nonterminal *)
Definition edge_b (q : nat) (X : symbol) (s : nat) : bool :=
  match X with
  | T t => action_eqb (act q t) (AShift s)
  | NT n => match gto q n with Some s' => Nat.eqb s' s | None => false end
  end.

Definition preds (s : nat) : list (symbol * nat) :=
  flat_map (fun q => flat_map (fun X => if edge_b q X s then [(X, q)] else []) all_syms) states.

(* all backward walks of length n from s: (labels, topmost first; state reached) *)
Fixpoint walks (n : nat) (s : nat) : list (list symbol * nat) :=
  match n with
  | O => [([], s)]
  | S k => flat_map (fun Xq : symbol * nat =>
                       map (fun lq : list symbol * nat => (fst Xq :: fst lq, snd lq)) (walks k (snd Xq))) (preds s)
  end.
(* no backward walk of length < n from s ends in state 0 (the bottom of the stack) *)
Fixpoint walks_ok (n s : nat) : bool :=
  match n with
  | O => true
  | S k => negb (Nat.eqb s 0) && forallb (fun Xq : symbol * nat => walks_ok k (snd Xq)) (preds s)
  end.

Definition is_nt (rhs : list symbol) (i : nat) : bool :=
  match nth_error rhs i with Some (NT _) => true | _ => false end.
Definition is_tok (rhs : list symbol) (i : nat) : bool :=
  match nth_error rhs i with Some (T _) => true | _ => false end.
(* getSExpr only on nonterminal positions, getStr only on token positions, X[i] returns a tree *)
Definition tmpl_ok (rhs : list symbol) (t : tmpl) : bool :=
  match t with
  | TX i => is_nt rhs i
  | TNil => true
  | TCons1 i => is_nt rhs i
  | TCons2 i j => is_nt rhs i && is_nt rhs j
  | _ => is_tok rhs 0
  end.

(* Reduce p in state s: the stack is deep enough, the symbols under the top are the right-hand side,
   goto is defined in every state that can be uncovered, the template is well-typed *)
Definition reduce_ok (s p : nat) : bool :=
  match nth_error g_prods p with
  | None => false
  | Some (lhs, rhs, tm) =>
    let n := length rhs in
    Nat.ltb 0 n && walks_ok n s
    && forallb (fun lq : list symbol * nat =>
                  list_eqb symbol_eqb (fst lq) (rev rhs)
                  && match gto (snd lq) lhs with Some _ => true | None => false end) (walks n s)
    && tmpl_ok rhs tm
  end.

(* Accept only on EOF with exactly [start symbol] above state 0 *)
Definition accept_ok (s t : nat) : bool :=
  Nat.eqb t tok_EOF && walks_ok 1 s
  && forallb (fun lq : list symbol * nat =>
                list_eqb symbol_eqb (fst lq) [NT g_start] && Nat.eqb (snd lq) 0) (walks 1 s).

Definition cell_ok (s t : nat) : bool :=
  match act s t with
  | ANone => true
  | AShift s' => negb (Nat.eqb t tok_EOF) && Nat.ltb s' p_num_states
  | AReduce p => reduce_ok s p
  | AAccept => accept_ok s t
  end.

Definition prod_sig (p : nat * list symbol * tmpl) : nat * nat * tmpl :=
  (fst (fst p), length (snd (fst p)), snd p).
Definition sig_eqb (a b : nat * nat * tmpl) : bool :=
  Nat.eqb (fst (fst a)) (fst (fst b)) && Nat.eqb (snd (fst a)) (snd (fst b)) && tmpl_eqb (snd a) (snd b).

Definition goto_row_ok (r : list (option nat)) : bool :=
  Nat.eqb (length r) p_num_nt
  && forallb (fun x : option nat => match x with Some s => Nat.ltb s p_num_states | None => true end) r.

(* table shapes; productionsTable agrees with the productions of sexpr.bnf; TokMap agrees with its terminals *)
Definition shape_ok : bool :=
  Nat.eqb (length action_tab) p_num_states && Nat.eqb (length goto_tab) p_num_states
  && Nat.ltb 0 p_num_states
  && forallb (fun r : bool * list action => Nat.eqb (length (snd r)) p_num_symbols) action_tab
  && forallb goto_row_ok goto_tab
  && Nat.leb n_terminals p_num_symbols && Nat.ltb tok_EOF n_terminals && Nat.ltb tok_error_col p_num_symbols
  && list_eqb sig_eqb (map prod_sig g_prods) prod_tab
  && list_eqb String.eqb tok_names g_terminals.

(* no row can recover, the "error" column and the INVALID column are empty: the error path returns at once *)
Definition no_recovery : bool :=
  forallb (fun s => match can_recover s with Some false => true | _ => false end
                    && action_eqb (act s tok_error_col) ANone && action_eqb (act s tok_INVALID) ANone) states.

(* unit reductions replace the top state s by one of unit_succ s; rank strictly decreases along them *)
Definition unit_succ (s : nat) : list nat :=
  flat_map (fun t => match act s t with
                     | AReduce p =>
                       match nth_error g_prods p with
                       | Some (lhs, [_], _) =>
                         flat_map (fun Xq : symbol * nat =>
                                     match gto (snd Xq) lhs with Some s' => [s'] | None => [] end) (preds s)
                       | _ => []
                       end
                     | _ => []
                     end) tcols.
Fixpoint rank_f (k s : nat) : nat :=
  match k with
  | O => O
  | S k' => fold_right Nat.max 0 (map (fun s' => S (rank_f k' s')) (unit_succ s))
  end.
Definition rank (s : nat) : nat := rank_f p_num_states s.
Definition rank_tab : list nat := map rank states.
Definition rank_ok : bool :=
  forallb (fun s => forallb (fun s' => Nat.ltb s' p_num_states && Nat.ltb (nth s' rank_tab 0) (nth s rank_tab 0))
                            (unit_succ s)) states.

Definition cells_ok : bool := forallb (fun s => forallb (fun t => cell_ok s t) tcols) states.

Definition lr_ok : bool :=
  shape_ok && no_recovery && match preds 0 with [] => true | _ => false end && cells_ok && rank_ok.

Lemma lr_ok_true : lr_ok = true.
Proof. vm_compute. reflexivity. Qed.

(* ------------------------------------------------------------------------------------------------------------ *)
(* Generic facts                                                                                                *)
(* ------------------------------------------------------------------------------------------------------------ *)
Lemma action_eqb_eq : forall a b, action_eqb a b = true -> a = b.
Proof.
  destruct a, b; simpl; intros H; try discriminate; try reflexivity; apply Nat.eqb_eq in H; subst; reflexivity.
Qed.
Lemma action_eqb_refl : forall a, action_eqb a a = true.
Proof. destruct a; simpl; auto using Nat.eqb_refl. Qed.
Lemma symbol_eqb_eq : forall a b, symbol_eqb a b = true -> a = b.
Proof. destruct a, b; simpl; intros H; try discriminate; apply Nat.eqb_eq in H; subst; reflexivity. Qed.
Lemma tmpl_eqb_eq : forall a b, tmpl_eqb a b = true -> a = b.
Proof.
  destruct a, b; simpl; intros H; try discriminate; try reflexivity;
    try (apply Nat.eqb_eq in H; subst; reflexivity).
  apply andb_prop in H. destruct H as [H1 H2]. apply Nat.eqb_eq in H1, H2. subst. reflexivity.
Qed.
Lemma list_eqb_eq {A} (eqb : A -> A -> bool) :
  (forall a b, eqb a b = true -> a = b) -> forall x y, list_eqb eqb x y = true -> x = y.
Proof.
  intros He. induction x as [|a x IH]; destruct y as [|b y]; simpl; intros H; try discriminate; auto.
  apply andb_prop in H. destruct H as [H1 H2]. f_equal; auto.
Qed.

Lemma nth_map_seq {A} (f : nat -> A) n s d : s < n -> nth s (map f (seq 0 n)) d = f s.
Proof.
  intros H. rewrite (nth_indep _ d (f 0)) by (rewrite map_length, seq_length; exact H).
  rewrite (map_nth f (seq 0 n) 0 s). rewrite seq_nth by exact H. reflexivity.
Qed.

Record lr_parts : Prop := mkParts {
  lp_alen : length action_tab = p_num_states;
  lp_glen : length goto_tab = p_num_states;
  lp_pos : 0 < p_num_states;
  lp_arows : forall r, In r action_tab -> length (snd r) = p_num_symbols;
  lp_grows : forall r, In r goto_tab -> goto_row_ok r = true;
  lp_nterm : n_terminals <= p_num_symbols;
  lp_eof : tok_EOF < n_terminals;
  lp_errcol : tok_error_col < p_num_symbols;
  lp_prods : map prod_sig g_prods = prod_tab;
  lp_norec : forall s, s < p_num_states ->
               can_recover s = Some false /\ act s tok_error_col = ANone;
  lp_pred0 : preds 0 = [];
  lp_cells : forall s t, s < p_num_states -> t < p_num_symbols -> cell_ok s t = true;
  lp_rank : forall s s', s < p_num_states -> In s' (unit_succ s) -> rank s' < rank s }.

Lemma lr_ok_parts : lr_ok = true -> lr_parts.
Proof.
  unfold lr_ok. intros H.
  apply andb_prop in H. destruct H as [H Hrank].
  apply andb_prop in H. destruct H as [H Hcells].
  apply andb_prop in H. destruct H as [H Hp0].
  apply andb_prop in H. destruct H as [Hshape Hnr].
  unfold shape_ok in Hshape. repeat (apply andb_prop in Hshape; destruct Hshape as [Hshape ?]).
  repeat match goal with
         | X : Nat.eqb _ _ = true |- _ => apply Nat.eqb_eq in X
         | X : Nat.ltb _ _ = true |- _ => apply Nat.ltb_lt in X
         | X : Nat.leb _ _ = true |- _ => apply Nat.leb_le in X
         end.
  constructor; try assumption.
  - intros r Hr. match goal with X : forallb _ action_tab = true |- _ => rewrite forallb_forall in X; specialize (X r Hr); apply Nat.eqb_eq in X; exact X end.
  - intros r Hr. match goal with X : forallb goto_row_ok goto_tab = true |- _ => rewrite forallb_forall in X; exact (X r Hr) end.
  - match goal with X : list_eqb sig_eqb _ _ = true |- _ => apply (list_eqb_eq sig_eqb) in X; [exact X|] end.
    intros [[a1 a2] a3] [[b1 b2] b3]. unfold sig_eqb. simpl. intros X.
    apply andb_prop in X. destruct X as [X X3]. apply andb_prop in X. destruct X as [X1 X2].
    apply Nat.eqb_eq in X1, X2. apply tmpl_eqb_eq in X3. subst. reflexivity.
  - intros s Hs. unfold no_recovery in Hnr. rewrite forallb_forall in Hnr.
    assert (Hin : In s states) by (apply in_seq; lia).
    specialize (Hnr s Hin). apply andb_prop in Hnr. destruct Hnr as [Hnr _].
    apply andb_prop in Hnr. destruct Hnr as [Hn1 Hn2]. split.
    + revert Hn1. generalize (can_recover s). intros [[|]|] Hn1; try discriminate Hn1. reflexivity.
    + apply action_eqb_eq in Hn2. exact Hn2.
  - revert Hp0. generalize (preds 0). intros [|x l] Hp0; [reflexivity|discriminate Hp0].
  - intros s t Hs Ht. unfold cells_ok in Hcells. rewrite forallb_forall in Hcells.
    assert (Hin : In s states) by (apply in_seq; lia). specialize (Hcells s Hin).
    rewrite forallb_forall in Hcells. apply Hcells. apply in_seq. lia.
  - intros s s' Hs Hin. unfold rank_ok in Hrank. rewrite forallb_forall in Hrank.
    assert (Hins : In s states) by (apply in_seq; lia). specialize (Hrank s Hins).
    rewrite forallb_forall in Hrank. specialize (Hrank s' Hin).
    apply andb_prop in Hrank. destruct Hrank as [Hs' Hlt]. apply Nat.ltb_lt in Hs', Hlt.
    unfold rank_tab, states in Hlt. rewrite !nth_map_seq in Hlt by assumption. exact Hlt.
Qed.

Lemma rank_f_le : forall k s, rank_f k s <= k.
Proof.
  induction k as [|k IH]; intros s; [simpl; lia|].
  change (rank_f (S k) s) with (fold_right Nat.max 0 (map (fun s' => S (rank_f k s')) (unit_succ s))).
  generalize (unit_succ s). intros l.
  induction l as [|x l IHl]; cbn [map fold_right]; [lia|]. specialize (IH x). lia.
Qed.
Lemma rank_le : forall s, rank s <= p_num_states.
Proof. intros s. apply rank_f_le. Qed.

Section LR.
Context (o : oracles).
Hypothesis Hparts : lr_parts.

Lemma action_at_bounds : forall s t a, action_at s t = Some a -> s < p_num_states /\ t < p_num_symbols.
Proof.
  unfold action_at. intros s t a H. destruct (nth_error action_tab s) as [[c acts]|] eqn:E; [|discriminate].
  split.
  - rewrite <- (lp_alen Hparts). apply nth_error_Some. congruence.
  - rewrite <- (lp_arows Hparts _ (nth_error_In _ _ E)). simpl. apply nth_error_Some. congruence.
Qed.

Lemma action_at_some : forall s t, s < p_num_states -> t < p_num_symbols -> action_at s t = Some (act s t).
Proof.
  intros s t Hs Ht. unfold act, action_at.
  destruct (nth_error action_tab s) as [[c acts]|] eqn:E.
  - pose proof (lp_arows Hparts _ (nth_error_In _ _ E)) as Hl. simpl in Hl.
    destruct (nth_error acts t) eqn:E2; [reflexivity|]. apply nth_error_None in E2. lia.
  - apply nth_error_None in E. rewrite (lp_alen Hparts) in E. lia.
Qed.

Lemma gto_bounds : forall q n s, gto q n = Some s -> q < p_num_states /\ n < p_num_nt /\ s < p_num_states.
Proof.
  unfold gto, goto_at. intros q n s H. destruct (nth_error goto_tab q) as [row|] eqn:E; [|discriminate].
  destruct (nth_error row n) as [[x|]|] eqn:E2; try discriminate. inversion H; subst x.
  pose proof (lp_grows Hparts _ (nth_error_In _ _ E)) as Hr. unfold goto_row_ok in Hr.
  apply andb_prop in Hr. destruct Hr as [Hl Hall]. apply Nat.eqb_eq in Hl.
  rewrite forallb_forall in Hall. specialize (Hall _ (nth_error_In _ _ E2)). apply Nat.ltb_lt in Hall.
  repeat split; auto.
  - rewrite <- (lp_glen Hparts). apply nth_error_Some. congruence.
  - rewrite <- Hl. apply nth_error_Some. congruence.
Qed.

Lemma goto_at_gto : forall q n s, gto q n = Some s -> goto_at q n = Some (Some s).
Proof.
  unfold gto. intros q n s H. destruct (goto_at q n) as [[x|]|]; try discriminate. congruence.
Qed.

Lemma in_preds : forall q X s, In q states -> In X all_syms -> edge_b q X s = true -> In (X, q) (preds s).
Proof.
  intros q X s Hq HX He. unfold preds. apply in_flat_map. exists q. split; auto.
  apply in_flat_map. exists X. split; auto. rewrite He. left. reflexivity.
Qed.

Lemma preds_edge : forall q X s, In (X, q) (preds s) -> In q states /\ edge_b q X s = true.
Proof.
  unfold preds. intros q X s H. apply in_flat_map in H. destruct H as [q' [Hq' H]].
  apply in_flat_map in H. destruct H as [X' [HX' H]].
  destruct (edge_b q' X' s) eqn:E; [|destruct H]. destruct H as [H|[]]. inversion H; subst. auto.
Qed.

Lemma preds_shift : forall q t s, action_at q t = Some (AShift s) -> In (T t, q) (preds s).
Proof.
  intros q t s H. destruct (action_at_bounds _ _ _ H) as [Hq Ht]. apply in_preds.
  - apply in_seq. lia.
  - unfold all_syms. apply in_or_app. left. apply in_map. apply in_seq. lia.
  - simpl. unfold act. rewrite H. apply action_eqb_refl.
Qed.

Lemma preds_goto : forall q n s, gto q n = Some s -> In (NT n, q) (preds s).
Proof.
  intros q n s H. destruct (gto_bounds _ _ _ H) as [Hq [Hn Hs]]. apply in_preds.
  - apply in_seq. lia.
  - unfold all_syms. apply in_or_app. right. apply in_map. apply in_seq. lia.
  - simpl. rewrite H. apply Nat.eqb_refl.
Qed.

(* states at both ends of an edge are in range *)
Lemma preds_bounds : forall q X s, In (X, q) (preds s) -> q < p_num_states /\ s < p_num_states.
Proof.
  intros q X s H. destruct (preds_edge _ _ _ H) as [Hq He]. apply in_seq in Hq. split; [lia|].
  destruct X as [t|n]; simpl in He.
  - apply action_eqb_eq in He. unfold act in He. destruct (action_at q t) as [a|] eqn:Ea; [|discriminate].
    subst a. destruct (action_at_bounds _ _ _ Ea) as [Hq' Ht].
    pose proof (lp_cells Hparts q t Hq' Ht) as Hc. unfold cell_ok, act in Hc. rewrite Ea in Hc.
    apply andb_prop in Hc. destruct Hc as [_ Hc]. apply Nat.ltb_lt in Hc. exact Hc.
  - destruct (gto q n) as [s'|] eqn:Eg; [|discriminate]. apply Nat.eqb_eq in He. subst s'.
    destruct (gto_bounds _ _ _ Eg) as [_ [_ Hs]]. exact Hs.
Qed.

(* ---- the invariant ---- *)
Definition good_attr (a : attr) : Prop :=
  match a with ATok t => snd t <> [] | ASx _ => True | AErr => False end.

(* spath stk w: the stack is a path of the automaton from state 0, and its entries derive, in order, the segments
   of the consumed input w *)
Inductive spath : stack -> list token -> Prop :=
| sp_base : spath [(0, ASx XNil)] []
| sp_T : forall q b rest w t tok s,
    spath ((q, b) :: rest) w -> In (T t, q) (preds s) -> fst tok = t -> snd tok <> [] ->
    spath ((s, ATok tok) :: (q, b) :: rest) (w ++ [tok])
| sp_NT : forall q b rest w n w1 v s,
    spath ((q, b) :: rest) w -> In (NT n, q) (preds s) -> derives o n w1 v ->
    spath ((s, ASx v) :: (q, b) :: rest) (w ++ w1).

Lemma spath_states : forall stk w, spath stk w -> Forall (fun e : nat * attr => fst e < p_num_states) stk.
Proof.
  induction 1.
  - constructor; [simpl; exact (lp_pos Hparts)|constructor].
  - constructor; auto. simpl. destruct (preds_bounds _ _ _ H0). assumption.
  - constructor; auto. simpl. destruct (preds_bounds _ _ _ H0). assumption.
Qed.

Lemma spath_zero : forall b rest w, spath ((0, b) :: rest) w -> rest = [] /\ w = [].
Proof.
  intros b rest w H. inversion H; subst; auto;
    match goal with X : In _ (preds 0) |- _ => rewrite (lp_pred0 Hparts) in X; destruct X end.
Qed.

Lemma derives_seq_app : forall l1 w1 X1, derives_seq o l1 w1 X1 ->
  forall l2 w2 X2, derives_seq o l2 w2 X2 -> derives_seq o (l1 ++ l2) (w1 ++ w2) (X1 ++ X2).
Proof.
  induction 1; intros l2 w2 X2 H2; simpl; auto.
  - constructor; auto.
  - rewrite <- app_assoc. constructor; auto.
Qed.

Lemma pop_n : forall n s a stk0 w,
  spath ((s, a) :: stk0) w -> walks_ok n s = true ->
  exists top q b rest w0 wseg lbls,
    (s, a) :: stk0 = top ++ (q, b) :: rest /\ length top = n /\ spath ((q, b) :: rest) w0 /\ w = w0 ++ wseg /\
    In (lbls, q) (walks n s) /\ derives_seq o (rev lbls) wseg (rev (map snd top)) /\
    Forall good_attr (map snd top).
Proof.
  induction n as [|k IH]; intros s a stk0 w Hsp Hok.
  - exists [], s, a, stk0, w, [], []. simpl. rewrite app_nil_r. repeat split; auto. constructor.
  - simpl in Hok. apply andb_prop in Hok. destruct Hok as [Hs0 Hall].
    apply negb_true_iff in Hs0. apply Nat.eqb_neq in Hs0. rewrite forallb_forall in Hall.
    inversion Hsp; subst; [congruence| |].
    + match goal with X : In (T _, _) (preds s) |- _ => rename X into Hin end.
      pose proof (Hall _ Hin) as Hk. simpl in Hk.
      match goal with X : spath ((q, b) :: rest) _ |- _ => rename X into Hsp' end.
      destruct (IH _ _ _ _ Hsp' Hk) as (top & q' & b' & rest' & ww0 & wseg & lbls & He & Hl & Hp & Hw & Hi & Hd & Hg).
      exists ((s, ATok tok) :: top), q', b', rest', ww0, (wseg ++ [tok]), (T (fst tok) :: lbls).
      repeat split.
      * simpl. rewrite He. reflexivity.
      * simpl. lia.
      * exact Hp.
      * rewrite Hw. rewrite app_assoc. reflexivity.
      * simpl. apply in_flat_map. exists (T (fst tok), q). split; auto.
        simpl. apply in_map_iff. exists (lbls, q'). split; auto.
      * simpl. apply derives_seq_app; auto. constructor; auto. constructor.
      * simpl. constructor; auto.
    + match goal with X : In (NT _, _) (preds s) |- _ => rename X into Hin end.
      pose proof (Hall _ Hin) as Hk. simpl in Hk.
      match goal with X : spath ((q, b) :: rest) _ |- _ => rename X into Hsp' end.
      destruct (IH _ _ _ _ Hsp' Hk) as (top & q' & b' & rest' & ww0 & wseg & lbls & He & Hl & Hp & Hw & Hi & Hd & Hg).
      exists ((s, ASx v) :: top), q', b', rest', ww0, (wseg ++ w1), (NT n :: lbls).
      repeat split.
      * simpl. rewrite He. reflexivity.
      * simpl. lia.
      * exact Hp.
      * rewrite Hw. rewrite app_assoc. reflexivity.
      * simpl. apply in_flat_map. exists (NT n, q). split; auto.
        simpl. apply in_map_iff. exists (lbls, q'). split; auto.
      * simpl. apply derives_seq_app; auto.
        replace w1 with (w1 ++ []) by apply app_nil_r. constructor; auto. constructor.
      * simpl. constructor; simpl; auto.
Qed.

(* ---- templates never panic on a well-typed right-hand side ---- *)
Lemma derives_seq_nth_nt : forall rhs w X, derives_seq o rhs w X ->
  forall i n, nth_error rhs i = Some (NT n) -> exists v, nth_error X i = Some (ASx v).
Proof.
  induction 1; intros i m Hi.
  - destruct i; discriminate.
  - destruct i; simpl in *; [discriminate|eauto].
  - destruct i; simpl in *; [eauto|eauto].
Qed.
Lemma derives_seq_nth_t : forall rhs w X, derives_seq o rhs w X ->
  forall i t, nth_error rhs i = Some (T t) -> exists tok, nth_error X i = Some (ATok tok).
Proof.
  induction 1; intros i m Hi.
  - destruct i; discriminate.
  - destruct i; simpl in *; [eauto|eauto].
  - destruct i; simpl in *; [discriminate|eauto].
Qed.

Lemma tmpl_safe : forall rhs w X tm, derives_seq o rhs w X -> Forall good_attr X -> tmpl_ok rhs tm = true ->
  apply_tmpl o tm X = RErr \/ exists v, apply_tmpl o tm X = ROk (ASx v).
Proof.
  intros rhs w X tm Hd Hg Hok.
  assert (Hnt : forall i, is_nt rhs i = true -> exists v, nth_error X i = Some (ASx v)).
  { intros i Hi. unfold is_nt in Hi. destruct (nth_error rhs i) as [[t|n]|] eqn:E; try discriminate.
    eapply derives_seq_nth_nt; eauto. }
  assert (Htok : is_tok rhs 0 = true -> exists tok, nth_error X 0 = Some (ATok tok) /\ snd tok <> []).
  { intros Hi. unfold is_tok in Hi. destruct (nth_error rhs 0) as [[t|n]|] eqn:E; try discriminate.
    destruct (derives_seq_nth_t _ _ _ Hd _ _ E) as [tok Ht]. exists tok. split; auto.
    destruct X as [|x X']; [discriminate|]. simpl in Ht. inversion Ht; subst. inversion Hg; subst. assumption. }
  destruct tm; simpl in Hok |- *.
  - destruct (Hnt _ Hok) as [v Hv]. rewrite Hv. right. eauto.
  - right. eauto.
  - destruct (Hnt _ Hok) as [v Hv]. unfold get_sexpr. rewrite Hv. right. eauto.
  - apply andb_prop in Hok. destruct Hok as [H1 H2].
    destruct (Hnt _ H1) as [v1 Hv1]. destruct (Hnt _ H2) as [v2 Hv2]. unfold get_sexpr. rewrite Hv1, Hv2. right. eauto.
  - destruct (Htok Hok) as [tok [Ht Hne]]. unfold get_str. rewrite Ht. simpl. right. eauto.
  - destruct (Htok Hok) as [tok [Ht Hne]]. unfold get_str. rewrite Ht. simpl.
    destruct (parse_int (snd tok)); [right; eauto|left; reflexivity].
  - destruct (Htok Hok) as [tok [Ht Hne]]. unfold get_str. rewrite Ht. simpl.
    destruct (o_float o (snd tok)); [right; eauto|left; reflexivity].
  - destruct (Htok Hok) as [tok [Ht Hne]]. unfold get_str. rewrite Ht. simpl.
    destruct (o_unquote o (snd tok)); [right; eauto|left; reflexivity].
  - destruct (Htok Hok) as [tok [Ht Hne]]. unfold get_str. rewrite Ht. simpl.
    destruct (snd tok) as [|c r]; [congruence|]. destruct (N.eqb c 44); [right; eauto|left; reflexivity].
Qed.

(* ---- the error path returns a parse error at once ---- *)
Lemma pop_to_recovery_none : forall stk, stk <> [] ->
  Forall (fun e : nat * attr => fst e < p_num_states) stk -> pop_to_recovery stk = Some None.
Proof.
  induction stk as [|[s a] below IH]; intros Hne Hall; [congruence|].
  inversion Hall; subst. simpl in H1. simpl.
  destruct (lp_norec Hparts s H1) as [Hc _]. rewrite Hc.
  destruct below as [|e below']; [reflexivity|]. apply IH; [discriminate|assumption].
Qed.

Lemma new_error_ok : forall s a rest, s < p_num_states -> new_error ((s, a) :: rest) = ParseError.
Proof.
  intros s a rest Hs. unfold new_error. destruct (nth_error action_tab s) eqn:E; [reflexivity|].
  apply nth_error_None in E. rewrite (lp_alen Hparts) in E. lia.
Qed.

Lemma error_path_ok : forall s a rest tok inp,
  Forall (fun e : nat * attr => fst e < p_num_states) ((s, a) :: rest) ->
  error_path ((s, a) :: rest) tok inp = inl ParseError.
Proof.
  intros s a rest tok inp Hall. unfold error_path.
  rewrite pop_to_recovery_none by (auto; discriminate).
  inversion Hall; subst. simpl in H1.
  rewrite (action_at_some s tok_error_col H1 (lp_errcol Hparts)).
  destruct (lp_norec Hparts s H1) as [_ He]. rewrite He.
  rewrite new_error_ok by assumption. reflexivity.
Qed.

(* ---- the measure ---- *)
Definition top_state (stk : stack) : nat := match stk with (s, _) :: _ => s | [] => 0 end.
Definition measure (stk : stack) (l : list token) : nat :=
  (p_num_states + 2) * (2 * length l + length stk) + rank (top_state stk).

Lemma measure_dec : forall K A A' r r', A' + 1 <= A -> r' + 2 <= K -> K * A' + r' < K * A + r.
Proof. intros. assert (K * (A' + 1) <= K * A) by (apply Nat.mul_le_mono_l; lia). nia. Qed.

(* the scanner state: l = the real tokens not yet pulled *)
Definition at_input (l : list token) (tok : token) (inp : input) : Prop := pull (l, LEnd) = PTok tok inp.

Lemma at_input_cases : forall l tok inp, at_input l tok inp ->
  (exists ts, l = tok :: ts /\ inp = (ts, LEnd)) \/ (l = [] /\ tok = eof_token /\ inp = ([], LEnd)).
Proof.
  unfold at_input, pull. intros l tok inp H. destruct l as [|t ts]; inversion H; subst; eauto.
Qed.

Lemma at_input_next : forall ts, exists tok' inp', at_input ts tok' inp'.
Proof. intros ts. unfold at_input, pull. destruct ts; eauto. Qed.

Lemma tok_type_bound : forall l tok inp, at_input l tok inp -> Forall real_token l -> fst tok < p_num_symbols.
Proof.
  intros l tok inp H Hall. pose proof (lp_nterm Hparts). pose proof (lp_eof Hparts).
  destruct (at_input_cases _ _ _ H) as [[ts [Hl _]]|[_ [Ht _]]].
  - subst l. inversion Hall; subst. destruct H4 as [_ [Hlt _]]. lia.
  - subst tok. simpl. lia.
Qed.

(* ---- one iteration of the loop preserves the invariant, never panics, and decreases the measure ---- *)
Lemma step_inv : forall stk w l tok inp,
  spath stk w -> at_input l tok inp -> Forall real_token l ->
  match lr_step o stk tok inp with
  | inl (Accept v) => l = [] /\ derives o g_start w v
  | inl ParseError => True
  | inl (Stuck _) => False
  | inl OutOfFuel => False
  | inr (stk', tok', inp') =>
    exists w' l', spath stk' w' /\ at_input l' tok' inp' /\ Forall real_token l' /\ w' ++ l' = w ++ l /\
                  measure stk' l' < measure stk l
  end.
Proof.
  intros stk w l tok inp Hsp Hin Hreal.
  pose proof (spath_states _ _ Hsp) as Hst.
  pose proof (tok_type_bound _ _ _ Hin Hreal) as Hty.
  destruct stk as [|[s a] stk0]; [inversion Hsp|].
  assert (Hs : s < p_num_states) by (inversion Hst; subst; assumption).
  unfold lr_step. rewrite (action_at_some s (fst tok) Hs Hty).
  pose proof (lp_cells Hparts s (fst tok) Hs Hty) as Hcell. unfold cell_ok in Hcell.
  destruct (act s (fst tok)) as [|s'|p|] eqn:Eact.
  - (* error *) rewrite error_path_ok by assumption. exact I.
  - (* shift *)
    apply andb_prop in Hcell. destruct Hcell as [Hne Hs'].
    apply negb_true_iff in Hne. apply Nat.eqb_neq in Hne.
    destruct (at_input_cases _ _ _ Hin) as [[ts [Hl Hinp]]|[_ [Ht _]]]; [|subst tok; simpl in Hne; congruence].
    subst l inp. inversion Hreal; subst.
    destruct (at_input_next ts) as [tok' [inp' Hnext]]. unfold at_input in Hnext. rewrite Hnext.
    exists (w ++ [tok]), ts. repeat split; auto.
    + assert (Hne' : snd tok <> []) by (destruct H1 as [H1 _]; exact H1).
      assert (Hpre : In (T (fst tok), s) (preds s')).
      { apply preds_shift. rewrite (action_at_some s (fst tok) Hs Hty), Eact. reflexivity. }
      destruct stk0 as [|[q b] rest].
      * inversion Hsp; subst.
        apply (sp_T 0 (ASx XNil) [] [] (fst tok) tok s'); [constructor|exact Hpre|reflexivity|exact Hne'].
      * apply (sp_T s a ((q, b) :: rest) w (fst tok) tok s'); [exact Hsp|exact Hpre|reflexivity|exact Hne'].
    + rewrite <- app_assoc. reflexivity.
    + unfold measure. simpl top_state. simpl length.
      apply measure_dec; [lia|]. pose proof (rank_le s'). lia.
  - (* reduce *)
    unfold reduce_ok in Hcell. destruct (nth_error g_prods p) as [[[lhs rhs] tm]|] eqn:Ep; [|discriminate].
    repeat (apply andb_prop in Hcell; destruct Hcell as [Hcell ?]).
    rename Hcell into Hn0. apply Nat.ltb_lt in Hn0.
    match goal with X : walks_ok _ _ = true |- _ => rename X into Hwok end.
    match goal with X : forallb _ (walks _ _) = true |- _ => rename X into Hwalks end.
    match goal with X : tmpl_ok _ _ = true |- _ => rename X into Htm end.
    assert (Hpt : nth_error prod_tab p = Some (lhs, length rhs, tm)).
    { rewrite <- (lp_prods Hparts). rewrite nth_error_map. rewrite Ep. reflexivity. }
    rewrite Hpt.
    destruct (pop_n _ _ _ _ _ Hsp Hwok) as (top & q & b & rest & w0 & wseg & lbls & He & Hl & Hp & Hw & Hi & Hd & Hg).
    rewrite forallb_forall in Hwalks. specialize (Hwalks _ Hi). simpl in Hwalks.
    apply andb_prop in Hwalks. destruct Hwalks as [Hlb Hgt].
    apply (list_eqb_eq symbol_eqb symbol_eqb_eq) in Hlb. subst lbls. rewrite rev_involutive in Hd.
    destruct (gto q lhs) as [s'|] eqn:Eg; [|discriminate].
    rewrite He.
    replace (length (top ++ (q, b) :: rest) <? length rhs) with false
      by (symmetry; apply Nat.ltb_ge; rewrite app_length; simpl; lia).
    rewrite <- Hl. rewrite firstn_app, Nat.sub_diag, firstn_all. simpl firstn. rewrite app_nil_r.
    rewrite skipn_app, Nat.sub_diag, skipn_all. simpl.
    assert (HgX : Forall good_attr (rev (map snd top))) by (apply Forall_rev; exact Hg).
    assert (Hq : q < p_num_states).
    { pose proof (spath_states _ _ Hp) as Hq. inversion Hq; subst. assumption. }
    destruct (tmpl_safe _ _ _ _ Hd HgX Htm) as [Herr|[v Hv]].
    + rewrite Herr. destruct (nth_error action_tab q) eqn:Eq; [exact I|].
      apply nth_error_None in Eq. rewrite (lp_alen Hparts) in Eq. lia.
    + rewrite Hv. rewrite (goto_at_gto _ _ _ Eg).
      exists (w0 ++ wseg), l. repeat split; auto.
      * apply sp_NT with (n := lhs); auto.
        -- apply preds_goto. exact Eg.
        -- eapply D_prod; eauto. eapply nth_error_In; eauto.
      * rewrite Hw. reflexivity.
      * unfold measure. simpl top_state. rewrite app_length. simpl length.
        destruct (Nat.eq_dec (length top) 1) as [H1|H1].
        -- (* unit reduction: the rank decreases *)
           assert (Hlt : rank s' < rank s).
           { apply (lp_rank Hparts s s' Hs). unfold unit_succ. apply in_flat_map. exists (fst tok). split.
             - apply in_seq. lia.
             - rewrite Eact, Ep. destruct rhs as [|X [|Y rhs']]; simpl in Hl; try lia.
               simpl in Hi. apply in_flat_map in Hi. destruct Hi as [[X' q'] [Hpre Hm]].
               simpl in Hm. destruct Hm as [Hm|[]]. inversion Hm; subst.
               apply in_flat_map. exists (X, q). split; auto. simpl. rewrite Eg. left. reflexivity. }
           rewrite H1. replace (top_state (top ++ (q, b) :: rest)) with s by (rewrite <- He; reflexivity).
           replace (2 * length l + (1 + S (length rest))) with (2 * length l + S (S (length rest))) by lia. lia.
        -- apply measure_dec; [lia|]. pose proof (rank_le s'). lia.
  - (* accept *)
    unfold accept_ok in Hcell. repeat (apply andb_prop in Hcell; destruct Hcell as [Hcell ?]).
    apply Nat.eqb_eq in Hcell.
    match goal with X : walks_ok _ _ = true |- _ => rename X into Hwok end.
    match goal with X : forallb _ (walks _ _) = true |- _ => rename X into Hwalks end.
    destruct (pop_n _ _ _ _ _ Hsp Hwok) as (top & q & b & rest & w0 & wseg & lbls & He & Hl & Hp & Hw & Hi & Hd & Hg).
    rewrite forallb_forall in Hwalks. specialize (Hwalks _ Hi). simpl in Hwalks.
    apply andb_prop in Hwalks. destruct Hwalks as [Hlb Hq0].
    apply (list_eqb_eq symbol_eqb symbol_eqb_eq) in Hlb. apply Nat.eqb_eq in Hq0. subst lbls q.
    destruct (spath_zero _ _ _ Hp) as [Hrest Hw0]. subst rest w0.
    destruct top as [|e [|e' top']]; simpl in Hl; try lia. simpl in He. inversion He; subst e.
    simpl in Hd. inversion Hd; subst.
    match goal with X : derives_seq o [] _ _ |- _ => inversion X; subst end.
    rewrite app_nil_r. simpl. split; auto.
    destruct (at_input_cases _ _ _ Hin) as [[ts [Hl' _]]|[Hl' _]]; auto.
    subst l. apply Forall_inv in Hreal. destruct Hreal as [_ [_ Hneq]]. congruence.
Qed.

(* ---- the loop ---- *)
Lemma lr_loop_inv : forall fuel stk w l tok inp,
  spath stk w -> at_input l tok inp -> Forall real_token l -> measure stk l < fuel ->
  match lr_loop o fuel stk tok inp with
  | Accept v => derives o g_start (w ++ l) v
  | ParseError => True
  | _ => False
  end.
Proof.
  induction fuel as [|f IH]; intros stk w l tok inp Hsp Hin Hreal Hm; [lia|].
  simpl. pose proof (step_inv _ _ _ _ _ Hsp Hin Hreal) as Hstep.
  destruct (lr_step o stk tok inp) as [[v| |r|]|[[stk' tok'] inp']]; auto.
  - destruct Hstep as [Hl Hd]. subst l. rewrite app_nil_r. exact Hd.
  - destruct Hstep as (w' & l' & Hsp' & Hin' & Hreal' & Hw & Hlt). rewrite <- Hw. apply IH; auto. lia.
Qed.

(* on a list of real tokens the parser never panics, terminates within lr_fuel, and accepts only sentences,
   with the tree of the semantic actions *)
Theorem parse_tokens_inv : forall toks, Forall real_token toks ->
  match parse_tokens o toks with
  | Accept v => derives o g_start toks v
  | ParseError => True
  | _ => False
  end.
Proof.
  intros toks Hreal. unfold parse_tokens, parse_input.
  destruct (at_input_next toks) as [tok [inp Hin]]. pose proof Hin as Hin'. unfold at_input in Hin'. rewrite Hin'.
  apply (lr_loop_inv _ init_stack [] toks tok inp); auto.
  - constructor.
  - unfold measure, lr_fuel, init_stack. simpl top_state. simpl length. simpl fst.
    pose proof (rank_le 0). nia.
Qed.
End LR.
