(* L4 model for C05: addresses, allocation, garbage collection and the variables a gomini state lists.
   A gomini variable is identified by the ADDRESS of its placeholder (gomini.Var is a uintptr).  The state lists its
   variables in `vars`; `retains` says whether the state also holds the placeholder pointers themselves (map[Var]any,
   the repaired code) or only the numbers (map[Var]struct{}).  The collector and the allocator are arbitrary: GC may
   free any set of unreachable objects, allocation may return any address that is not currently live. *)
From Coq Require Import List NArith Bool Lia.
Import ListNotations.

Definition addr := N.

Record world := mkW {
  live : list addr;        (* allocated, not yet collected *)
  roots : list addr;       (* referenced by the caller / by terms reachable from the caller *)
  listed : list addr;      (* addresses the gomini state lists as its variables *)
  fresh_consts : list addr (* addresses of values allocated after the variables (constants) *)
}.

Inductive step_label :=
| LNewVar (a : addr)       (* NewVar: allocate a placeholder at a, list it, hand it to the caller *)
| LDrop (a : addr)         (* the caller forgets a *)
| LGC (freed : list addr)  (* the collector frees these objects *)
| LAlloc (a : addr).       (* a later allocation of a constant lands at a *)

Definition mem (a : addr) (l : list addr) : bool := existsb (N.eqb a) l.
Definition remove_all (xs l : list addr) : list addr := filter (fun a => negb (mem a xs)) l.

(* reachable objects: the caller's roots, plus the listed placeholders iff the state retains them *)
Definition reachable (retains : bool) (w : world) (a : addr) : bool :=
  mem a (roots w) || (retains && mem a (listed w)).

(* step is partial: a label is enabled only if the collector/allocator respects the rules *)
Definition step (retains : bool) (w : world) (l : step_label) : option world :=
  match l with
  | LNewVar a =>
      if mem a (live w) then None
      else Some (mkW (a :: live w) (a :: roots w) (a :: listed w) (fresh_consts w))
  | LDrop a => Some (mkW (live w) (remove_all [a] (roots w)) (listed w) (fresh_consts w))
  | LGC freed =>
      if forallb (fun a => mem a (live w) && negb (reachable retains w a)) freed
      then Some (mkW (remove_all freed (live w)) (roots w) (listed w) (remove_all freed (fresh_consts w)))
      else None
  | LAlloc a =>
      if mem a (live w) then None
      else Some (mkW (a :: live w) (a :: roots w) (listed w) (a :: fresh_consts w))
  end.

Fixpoint run (retains : bool) (w : world) (ls : list step_label) : option world :=
  match ls with
  | [] => Some w
  | l :: r => match step retains w l with Some w' => run retains w' r | None => None end
  end.

Definition empty_world : world := mkW [] [] [] [].

(* CastVar: is this value's address listed as a variable? *)
Definition castvar (w : world) (a : addr) : bool := mem a (listed w).
