(* Correspondence for C04: gomini.EqualO on Go values against the unification model on ENCODED terms.
   Encoding (harness): a registered variable placeholder (pointer identified by creation order) -> TVar i;
   nil pointer -> TNil; pointer to struct with fields f1..fn -> TPair (TAtom (ASym tag)) (f1 . (f2 ... . ()));
   slice -> TPair (TAtom (ASym slicetag)) (e1 ... . ()); pointer to scalar -> atom by content.
   gomini keeps bindings in a map: compared as solution-equivalent substitutions (same unifier up to renaming),
   with every earlier binding still present. *)
From Coq Require Import List NArith ZArith Bool.
From GMK Require Import Term Unify Reflect GCore CorrBase Corr01 Corr02.
Import ListNotations.

Fixpoint has_binding (p : N * term) (l : subst) : bool :=
  match l with [] => false | q :: r => pair_eqb p q || has_binding p r end.

Inductive case04 :=
| CGUnify (u v : term) (s : subst) (nstates : nat) (s' : subst)    (* EqualO(u,v) on state s: number of states written, bindings of the result *)
(* the same observation, with the Go values written as reflecttools sees them (Reflect.gval, registered pointers as gvar i):
   checked against the TRANSCRIBED gomini algorithm GCore.gunify (walk / CastVar / hasCycle / isLeaf / ZipReduce) *)
| CGCore (x y : gval) (s : gsub) (nstates : nat) (s' : gsub) (u v : term) (ts : subst) (ts' : subst)
(* a sequence of EqualO calls threaded through the state (values with interface-typed slots, bindings to the untyped nil):
   1 state at the end, or 0 as soon as one call fails; against the fold of GCore.gunify *)
| CGSeq (eqs : list (gval * gval)) (nstates : nat).

Definition check_gunify_terms (u v : term) (s : subst) (n : nat) (s' : subst) : bool :=
  match unify F01 u v s with
  | Ok sm => Nat.eqb n 1 && forallb (fun p => has_binding p s') s &&
             same_unifier (vars u ++ vars v ++ subst_vars s) sm s'
  | Fail => Nat.eqb n 0
  | OOF => false
  end.

Definition check04 (c : case04) : bool :=
  match c with
  | CGUnify u v s n s' => check_gunify_terms u v s n s'
  | CGCore x y s n s' u v ts ts' =>
      check_gunify_terms u v ts n ts' &&
      match gunify F01 x y s, tenc x, tenc y, senc s, senc s' with
      | GROk sm, Some tx, Some ty, Some tss, Some tss' =>
          match senc sm with
          | Some tm => Nat.eqb n 1 && forallb (fun p => has_binding p tss') tss &&
                       same_unifier (vars tx ++ vars ty ++ subst_vars tss) tm tss'
          | None => false
          end
      | GRFail, Some _, Some _, Some _, Some _ => Nat.eqb n 0
      | _, _, _, _, _ => false
      end
  | CGSeq eqs n =>
      match fold_left (fun acc e => match acc with GROk s => gunify F01 (fst e) (snd e) s | other => other end) eqs (GROk []) with
      | GROk _ => Nat.eqb n 1
      | GRFail => Nat.eqb n 0
      | GROOF => false
      end
  end.
