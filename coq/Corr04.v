(* Correspondence for C04: gomini.EqualO on Go values against the unification model on ENCODED terms.
   Encoding (harness): a registered variable placeholder (pointer identified by creation order) -> TVar i;
   nil pointer -> TNil; pointer to struct with fields f1..fn -> TPair (TAtom (ASym tag)) (f1 . (f2 ... . ()));
   slice -> TPair (TAtom (ASym slicetag)) (e1 ... . ()); pointer to scalar -> atom by content.
   gomini keeps bindings in a map: compared as solution-equivalent substitutions (same unifier up to renaming),
   with every earlier binding still present. *)
From Coq Require Import List NArith ZArith Bool.
From GMK Require Import Term Unify CorrBase Corr01 Corr02.
Import ListNotations.

Fixpoint has_binding (p : N * term) (l : subst) : bool :=
  match l with [] => false | q :: r => pair_eqb p q || has_binding p r end.

Inductive case04 :=
| CGUnify (u v : term) (s : subst) (nstates : nat) (s' : subst).   (* EqualO(u,v) on state s: number of states written, bindings of the result *)

Definition check04 (c : case04) : bool :=
  match c with
  | CGUnify u v s n s' =>
      match unify F01 u v s with
      | Ok sm => Nat.eqb n 1 && forallb (fun p => has_binding p s') s &&
                 same_unifier (vars u ++ vars v ++ subst_vars s) sm s'
      | Fail => Nat.eqb n 0
      | OOF => false
      end
  end.
