From Coq Require Import List NArith ZArith Lia Bool Arith.
From GMK Require Import Term Unify UnifySpec.
From GMK Require Import UnifyWf.
Import ListNotations.

(* Termination of occurs, walkstar and unify on wf substitutions (enough fuel exists, and then every larger
   fuel gives the same definite answer). *)

(* ---------- occurs ---------- *)

Lemma occurs_step s f x y t b : assv y s = Some t -> occurs f x t s = Some b ->
  occurs (S f) x (TVar y) s = Some b.
Proof.
  intros E H. destruct f as [|f]; [discriminate|].
  rewrite occurs_S in H.
  destruct (walkt f t s) as [vv|] eqn:Ew; [|discriminate].
  assert (Hw: walkt (S f) (TVar y) s = Some vv).
  { simpl. rewrite E. destruct t; simpl in Ew; exact Ew. }
  rewrite occurs_S. rewrite Hw.
  destruct vv as [| a | z | a d]; try exact H.
  destruct (occurs f x a s) as [[|]|] eqn:E1; try discriminate.
  - rewrite (occurs_mono f x a s true E1 (S f)) by lia. exact H.
  - rewrite (occurs_mono f x a s false E1 (S f)) by lia.
    apply (occurs_mono f x d s b H). lia.
Qed.

Lemma occurs_total_WS s v v' : WS s v v' -> exists f, forall x, occurs f x v s <> None.
Proof.
  induction 1 as [| a | y Hy | y t t' Hy Hw IH | a d a' d' Ha IHa Hd IHd].
  - exists 1%nat. intros x. simpl. discriminate.
  - exists 1%nat. intros x. simpl. discriminate.
  - exists 2%nat. intros x. rewrite occurs_S. simpl. rewrite Hy. discriminate.
  - destruct IH as [f Hf]. exists (S f). intros x. specialize (Hf x).
    destruct (occurs f x t s) as [b|] eqn:E; [|congruence].
    rewrite (occurs_step s f x y t b Hy E). discriminate.
  - destruct IHa as [fa Hfa]. destruct IHd as [fd Hfd]. exists (S (Nat.max fa fd)). intros x.
    specialize (Hfa x). specialize (Hfd x).
    destruct (occurs fa x a s) as [ba|] eqn:Ea; [|congruence].
    destruct (occurs fd x d s) as [bd|] eqn:Ed; [|congruence].
    rewrite occurs_S. simpl walkt. cbv iota beta.
    rewrite (occurs_mono fa x a s ba Ea (Nat.max fa fd)) by lia.
    rewrite (occurs_mono fd x d s bd Ed (Nat.max fa fd)) by lia.
    destruct ba; discriminate.
Qed.

Lemma occurs_some_mono f x v s : occurs f x v s <> None -> forall f', (f <= f')%nat -> occurs f' x v s <> None.
Proof.
  intros H f' L. destruct (occurs f x v s) as [b|] eqn:E; [|congruence].
  rewrite (occurs_mono f x v s b E f' L). discriminate.
Qed.

Theorem occurs_total : forall x v s, wf s -> exists f0, forall f, (f0 <= f)%nat -> occurs f x v s <> None.
Proof.
  intros x v s Hwf. destruct (WS_total s Hwf v) as [v' Hv'].
  destruct (occurs_total_WS s v v' Hv') as [f0 Hf0]. exists f0. intros f L.
  eapply occurs_some_mono; [apply Hf0|exact L].
Qed.
Print Assumptions occurs_total.

(* ---------- walkstar ---------- *)

Lemma walkstar_S f t s : walkstar (S f) t s =
  match walkt f t s with
  | None => None
  | Some (TPair a d) =>
      match walkstar f a s, walkstar f d s with
      | Some a', Some d' => Some (TPair a' d')
      | _, _ => None
      end
  | Some w => Some w
  end.
Proof. reflexivity. Qed.

Lemma walkstar_mono f : forall t s r, walkstar f t s = Some r -> forall f', (f <= f')%nat -> walkstar f' t s = Some r.
Proof.
  induction f as [|f IH]; intros t s r H f' L; [discriminate|].
  destruct f' as [|f']; [lia|]. rewrite walkstar_S in H. rewrite walkstar_S.
  destruct (walkt f t s) as [w|] eqn:Ew; [|discriminate].
  rewrite (walkt_mono f t s w Ew f') by lia.
  destruct w as [| a | y | a d]; try exact H.
  destruct (walkstar f a s) as [a'|] eqn:Ea; [|discriminate].
  destruct (walkstar f d s) as [d'|] eqn:Ed; [|discriminate].
  rewrite (IH a s a' Ea f') by lia. rewrite (IH d s d' Ed f') by lia. exact H.
Qed.

Lemma walkstar_step s f y t r : assv y s = Some t -> walkstar f t s = Some r ->
  walkstar (S f) (TVar y) s = Some r.
Proof.
  intros E H. destruct f as [|f]; [discriminate|].
  rewrite walkstar_S in H.
  destruct (walkt f t s) as [vv|] eqn:Ew; [|discriminate].
  assert (Hw: walkt (S f) (TVar y) s = Some vv).
  { simpl. rewrite E. destruct t; simpl in Ew; exact Ew. }
  rewrite walkstar_S. rewrite Hw.
  destruct vv as [| a | z | a d]; try exact H.
  destruct (walkstar f a s) as [a'|] eqn:Ea; [|discriminate].
  destruct (walkstar f d s) as [d'|] eqn:Ed; [|discriminate].
  rewrite (walkstar_mono f a s a' Ea (S f)) by lia.
  rewrite (walkstar_mono f d s d' Ed (S f)) by lia. exact H.
Qed.

(* the fuelled walkstar computes the expansion *)
Lemma walkstar_WS_total s t t' : WS s t t' -> exists f, walkstar f t s = Some t'.
Proof.
  induction 1 as [| a | y Hy | y t t' Hy Hw IH | a d a' d' Ha IHa Hd IHd].
  - exists 1%nat. reflexivity.
  - exists 1%nat. reflexivity.
  - exists 2%nat. rewrite walkstar_S. simpl. rewrite Hy. reflexivity.
  - destruct IH as [f Hf]. exists (S f). eapply walkstar_step; eauto.
  - destruct IHa as [fa Hfa]. destruct IHd as [fd Hfd]. exists (S (Nat.max fa fd)).
    rewrite walkstar_S. simpl walkt. cbv iota beta.
    rewrite (walkstar_mono fa a s a' Hfa (Nat.max fa fd)) by lia.
    rewrite (walkstar_mono fd d s d' Hfd (Nat.max fa fd)) by lia. reflexivity.
Qed.

Lemma walkstar_WS s : forall f t t', walkstar f t s = Some t' -> wf s -> WS s t t'.
Proof.
  intros f t t' H Hwf. destruct (WS_total s Hwf t) as [t2 H2].
  destruct (walkstar_WS_total s t t2 H2) as [f2 Hf2].
  pose proof (walkstar_mono f t s t' H (Nat.max f f2)) as A.
  pose proof (walkstar_mono f2 t s t2 Hf2 (Nat.max f f2)) as B.
  rewrite A in B by lia. assert (t' = t2) by (specialize (B ltac:(lia)); congruence).
  subst. exact H2.
Qed.

Theorem walkstar_total : forall t s, wf s -> exists f0, forall f, (f0 <= f)%nat -> walkstar f t s <> None.
Proof.
  intros t s Hwf. destruct (WS_total s Hwf t) as [t' Ht'].
  destruct (walkstar_WS_total s t t' Ht') as [f0 Hf0]. exists f0. intros f L.
  rewrite (walkstar_mono f0 t s t' Hf0 f L). discriminate.
Qed.
Print Assumptions walkstar_total.

(* ---------- unify ---------- *)

(* all keys and all variables of values of s lie in the (finite) universe U *)
Definition closedU (U : list N) (s : subst) : Prop :=
  forall a t, In (a, t) s -> In a U /\ incl (vars t) U.

Lemma walk_vars U s : closedU U s -> forall f x t, walk f x s = Some t -> In x U -> incl (vars t) U.
Proof.
  intros Hcl. induction f as [|f IH]; simpl; intros x t H Hx; [discriminate|].
  destruct (assv x s) as [w|] eqn:E.
  - apply assv_in in E. destruct (Hcl x w E) as [_ Hw].
    destruct w; try (inversion H; subst; exact Hw).
    eapply IH; [exact H|]. apply Hw. simpl. auto.
  - inversion H; subst. intros z [Hz|[]]. subst. exact Hx.
Qed.

Lemma walkt_vars U s f u uu : closedU U s -> walkt f u s = Some uu -> incl (vars u) U -> incl (vars uu) U.
Proof.
  intros Hcl H Hu. destruct u; simpl in H; try (inversion H; subst; exact Hu).
  eapply walk_vars; eauto. apply Hu. simpl. auto.
Qed.

Lemma closedU_snoc U s x t : closedU U s -> In x U -> incl (vars t) U -> closedU U (s ++ [(x, t)]).
Proof.
  intros Hcl Hx Ht a w Hin. apply in_app_or in Hin. destruct Hin as [Hin|[Hin|[]]].
  - apply Hcl. exact Hin.
  - inversion Hin; subst. auto.
Qed.

Lemma incl_pair_l (a d : term) U : incl (vars (TPair a d)) U -> incl (vars a) U.
Proof. intros H z Hz. apply H. simpl. apply in_or_app. auto. Qed.
Lemma incl_pair_r (a d : term) U : incl (vars (TPair a d)) U -> incl (vars d) U.
Proof. intros H z Hz. apply H. simpl. apply in_or_app. auto. Qed.

Lemma unify_closed U : forall f u v s s', unify f u v s = Ok s' ->
  closedU U s -> incl (vars u) U -> incl (vars v) U -> closedU U s'.
Proof.
  induction f as [|f IH]; simpl; intros u v s s' H Hcl Hu Hv; [discriminate|].
  destruct (walkt f u s) as [uu|] eqn:Eu; [|discriminate].
  destruct (walkt f v s) as [vv|] eqn:Ev; [|discriminate].
  pose proof (walkt_vars U s f u uu Hcl Eu Hu) as Huu.
  pose proof (walkt_vars U s f v vv Hcl Ev Hv) as Hvv.
  assert (Hext: forall x t, exts f x t s = Ok s' -> In x U -> incl (vars t) U -> closedU U s').
  { intros x t He Hx Ht. unfold exts in He. destruct (occurs f x t s) as [[|]|]; try discriminate.
    inversion He; subst. apply closedU_snoc; auto. }
  destruct uu as [| au | xu | a d], vv as [| av | xv | a' d']; try discriminate;
  try (inversion H; subst; exact Hcl);
  try (eapply Hext; [exact H| |first [exact Huu|exact Hvv]];
       first [apply Huu; simpl; left; reflexivity|apply Hvv; simpl; left; reflexivity]).
  - destruct (atom_eqb au av); [|discriminate]. inversion H; subst; exact Hcl.
  - destruct (N.eqb xu xv).
    + inversion H; subst; exact Hcl.
    + eapply Hext; [exact H| |exact Hvv]. apply Huu; simpl; left; reflexivity.
  - destruct (unify f a a' s) as [| |s1] eqn:E1; try discriminate.
    eapply IH; [exact H| | |].
    + eapply IH; [exact E1|exact Hcl| |]; [eapply incl_pair_l|eapply incl_pair_l]; eauto.
    + eapply incl_pair_r; eauto.
    + eapply incl_pair_r; eauto.
Qed.

Lemma closedU_length U s : wf s -> closedU U s -> (length s <= length U)%nat.
Proof.
  intros [Hnd _] Hcl. rewrite <- (map_length fst s). apply NoDup_incl_length; [exact Hnd|].
  intros a Ha. apply in_map_iff in Ha. destruct Ha as [[k t] [E Hin]]. simpl in E. subst.
  destruct (Hcl a t Hin) as [Ha _]. exact Ha.
Qed.

Lemma unify_S f u v s : unify (S f) u v s =
      match walkt f u s, walkt f v s with
      | Some uu, Some vv =>
          match uu, vv with
          | TVar x, TVar y => if N.eqb x y then Ok s else exts f x vv s
          | TVar x, _ => exts f x vv s
          | _, TVar y => exts f y uu s
          | TPair a d, TPair a' d' =>
              match unify f a a' s with
              | Ok s1 => unify f d d' s1
              | r => r
              end
          | TNil, TNil => Ok s
          | TAtom a, TAtom b => if atom_eqb a b then Ok s else Fail
          | _, _ => Fail
          end
      | _, _ => OOF
      end.
Proof. reflexivity. Qed.

(* Lexicographic measure: (room left in the universe, size of the expansion of u). *)
Lemma unify_term U : forall m1 m2 s u v u',
  wf s -> closedU U s -> incl (vars u) U -> incl (vars v) U ->
  (length U - length s < m1)%nat -> WS s u u' -> (size u' < m2)%nat ->
  exists f, unify f u v s <> OOF.
Proof.
  induction m1 as [|m1 IH1]; [intros; lia|].
  induction m2 as [|m2 IH2]; [intros; lia|].
  intros s u v u' Hwf Hcl Hu Hv Hm1 Hws Hsz.
  destruct (walkt_total s Hwf u) as [fu [uu Hfu]].
  destruct (walkt_total s Hwf v) as [fv [vv Hfv]].
  pose proof (WS_walkt s fu u uu u' (Hfu fu (le_n _)) Hws) as Hwu.
  pose proof (walkt_vars U s fu u uu Hcl (Hfu fu (le_n _)) Hu) as Huu.
  pose proof (walkt_vars U s fv v vv Hcl (Hfv fv (le_n _)) Hv) as Hvv.
  destruct (WS_total s Hwf vv) as [vv' Hwv].
  destruct (occurs_total_WS s uu u' Hwu) as [fou Hfou].
  destruct (occurs_total_WS s vv vv' Hwv) as [fov Hfov].
  assert (HF: exists F, (fu <= F /\ fv <= F /\ fou <= F /\ fov <= F)%nat).
  { exists (Nat.max (Nat.max fu fv) (Nat.max fou fov)). lia. }
  destruct HF as [F [LFu [LFv [LFou LFov]]]].
  assert (Hxu: forall f x, (F <= f)%nat -> exts f x uu s <> OOF).
  { intros f x L. unfold exts.
    pose proof (occurs_some_mono fou x uu s (Hfou x) f ltac:(lia)) as Ho.
    destruct (occurs f x uu s) as [[|]|]; congruence. }
  assert (Hxv: forall f x, (F <= f)%nat -> exts f x vv s <> OOF).
  { intros f x L. unfold exts.
    pose proof (occurs_some_mono fov x vv s (Hfov x) f ltac:(lia)) as Ho.
    destruct (occurs f x vv s) as [[|]|]; congruence. }
  assert (Hleaf: forall f, (F <= f)%nat -> walkt f u s = Some uu /\ walkt f v s = Some vv).
  { intros f L. split; [apply Hfu|apply Hfv]; lia. }
  destruct uu as [| au | xu | a d], vv as [| av | xv | a' d'];
  try (exists (S F); rewrite unify_S; destruct (Hleaf F (le_n _)) as [Ru Rv]; rewrite Ru, Rv;
       first [ discriminate | apply Hxu; lia | apply Hxv; lia ]).
  - exists (S F); rewrite unify_S; destruct (Hleaf F (le_n _)) as [Ru Rv]; rewrite Ru, Rv.
    destruct (atom_eqb au av); discriminate.
  - exists (S F); rewrite unify_S; destruct (Hleaf F (le_n _)) as [Ru Rv]; rewrite Ru, Rv.
    destruct (N.eqb xu xv); [discriminate|apply Hxv; lia].
  - (* both pairs *)
    apply WS_pair_inv in Hwu. destruct Hwu as [a1 [d1 [Eu' [Hwa Hwd]]]]. subst u'. simpl in Hsz.
    destruct (IH2 s a a' a1 Hwf Hcl (incl_pair_l a d U Huu) (incl_pair_l a' d' U Hvv) Hm1 Hwa ltac:(lia))
      as [f1 Hf1].
    destruct (unify f1 a a' s) as [| |s1] eqn:E1; [congruence| |].
    + exists (S (Nat.max F f1)). rewrite unify_S.
      destruct (Hleaf (Nat.max F f1) ltac:(lia)) as [Ru Rv]; rewrite Ru, Rv.
      rewrite (unify_mono f1 a a' s) by (try lia; congruence). rewrite E1. discriminate.
    + pose proof (unify_wf f1 a a' s s1 Hwf E1) as Hwf1.
      pose proof (unify_closed U f1 a a' s s1 E1 Hcl (incl_pair_l a d U Huu) (incl_pair_l a' d' U Hvv)) as Hcl1.
      destruct (unify_sound f1 a a' s s1 E1) as [[ext Hext] _].
      assert (H2: exists f2, unify f2 d d' s1 <> OOF).
      { destruct ext as [|p ext].
        - rewrite app_nil_r in Hext. subst s1.
          apply (IH2 s d d' d1 Hwf Hcl (incl_pair_r a d U Huu) (incl_pair_r a' d' U Hvv) Hm1 Hwd). lia.
        - destruct (WS_total s1 Hwf1 d) as [d2 Hd2].
          apply (IH1 (S (size d2)) s1 d d' d2 Hwf1 Hcl1 (incl_pair_r a d U Huu) (incl_pair_r a' d' U Hvv));
            [|exact Hd2|lia].
          pose proof (closedU_length U s1 Hwf1 Hcl1) as Hl.
          assert (Hl1: length s1 = (length s + S (length ext))%nat).
          { rewrite Hext. rewrite app_length. reflexivity. }
          lia. }
      destruct H2 as [f2 Hf2].
      exists (S (Nat.max F (Nat.max f1 f2))). rewrite unify_S.
      destruct (Hleaf (Nat.max F (Nat.max f1 f2)) ltac:(lia)) as [Ru Rv]; rewrite Ru, Rv.
      rewrite (unify_mono f1 a a' s) by (try lia; congruence). rewrite E1.
      rewrite (unify_mono f2 d d' s1) by (try lia; congruence). exact Hf2.
Qed.

Definition universe (u v : term) (s : subst) : list N :=
  vars u ++ vars v ++ flat_map (fun p => fst p :: vars (snd p)) s.

Lemma universe_closed u v s : closedU (universe u v s) s.
Proof.
  intros a t Hin. unfold universe. split.
  - apply in_or_app. right. apply in_or_app. right. apply in_flat_map.
    exists (a, t). split; [exact Hin|simpl; auto].
  - intros y Hy. apply in_or_app. right. apply in_or_app. right. apply in_flat_map.
    exists (a, t). split; [exact Hin|simpl; auto].
Qed.

Theorem unify_total : forall u v s, wf s -> exists f0, forall f, (f0 <= f)%nat -> unify f u v s <> OOF.
Proof.
  intros u v s Hwf. destruct (WS_total s Hwf u) as [u' Hu'].
  destruct (unify_term (universe u v s) (S (length (universe u v s) - length s)) (S (size u')) s u v u'
              Hwf (universe_closed u v s)) as [f0 Hf0].
  - unfold universe. apply incl_appl. apply incl_refl.
  - unfold universe. apply incl_appr. apply incl_appl. apply incl_refl.
  - lia.
  - exact Hu'.
  - lia.
  - exists f0. intros f L. rewrite (unify_mono f0 u v s Hf0 f L). exact Hf0.
Qed.
Print Assumptions unify_total.
