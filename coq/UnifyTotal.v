From Coq Require Import List NArith ZArith Lia Bool Arith.
From GMK Require Import Term Unify UnifySpec.
From GMK Require Import UnifyWf.
Import ListNotations.

(* Termination of occurs, walkstar and unify on wf substitutions (enough fuel exists, and then every larger
   fuel gives the same definite answer). *)

(* ---------- occurs ---------- *)

Lemma occurs_step s f x y t b : assv y s = Some t -> occurs f x t s = Some b ->
  occurs (S f) x (TVar y) s = Some b.
Proof.
  intros E H. destruct f as [|f]; [discriminate|].
  rewrite occurs_S in H.
  destruct (walkt f t s) as [vv|] eqn:Ew; [|discriminate].
  assert (Hw: walkt (S f) (TVar y) s = Some vv).
  { simpl. rewrite E. destruct t; simpl in Ew; exact Ew. }
  rewrite occurs_S. rewrite Hw.
  destruct vv as [| a | z | a d]; try exact H.
  destruct (occurs f x a s) as [[|]|] eqn:E1; try discriminate.
  - rewrite (occurs_mono f x a s true E1 (S f)) by lia. exact H.
  - rewrite (occurs_mono f x a s false E1 (S f)) by lia.
    apply (occurs_mono f x d s b H). lia.
Qed.

Lemma occurs_total_WS s v v' : WS s v v' -> exists f, forall x, occurs f x v s <> None.
Proof.
  induction 1 as [| a | y Hy | y t t' Hy Hw IH | a d a' d' Ha IHa Hd IHd].
  - exists 1%nat. intros x. simpl. discriminate.
  - exists 1%nat. intros x. simpl. discriminate.
  - exists 2%nat. intros x. rewrite occurs_S. simpl. rewrite Hy. discriminate.
  - destruct IH as [f Hf]. exists (S f). intros x. specialize (Hf x).
    destruct (occurs f x t s) as [b|] eqn:E; [|congruence].
    rewrite (occurs_step s f x y t b Hy E). discriminate.
  - destruct IHa as [fa Hfa]. destruct IHd as [fd Hfd]. exists (S (Nat.max fa fd)). intros x.
    specialize (Hfa x). specialize (Hfd x).
    destruct (occurs fa x a s) as [ba|] eqn:Ea; [|congruence].
    destruct (occurs fd x d s) as [bd|] eqn:Ed; [|congruence].
    rewrite occurs_S. simpl walkt. cbv iota beta.
    rewrite (occurs_mono fa x a s ba Ea (Nat.max fa fd)) by lia.
    rewrite (occurs_mono fd x d s bd Ed (Nat.max fa fd)) by lia.
    destruct ba; discriminate.
Qed.

Lemma occurs_some_mono f x v s : occurs f x v s <> None -> forall f', (f <= f')%nat -> occurs f' x v s <> None.
Proof.
  intros H f' L. destruct (occurs f x v s) as [b|] eqn:E; [|congruence].
  rewrite (occurs_mono f x v s b E f' L). discriminate.
Qed.

Theorem occurs_total : forall x v s, wf s -> exists f0, forall f, (f0 <= f)%nat -> occurs f x v s <> None.
Proof.
  intros x v s Hwf. destruct (WS_total s Hwf v) as [v' Hv'].
  destruct (occurs_total_WS s v v' Hv') as [f0 Hf0]. exists f0. intros f L.
  eapply occurs_some_mono; [apply Hf0|exact L].
Qed.
Print Assumptions occurs_total.

(* ---------- walkstar ---------- *)

Lemma walkstar_S f t s : walkstar (S f) t s =
  match walkt f t s with
  | None => None
  | Some (TPair a d) =>
      match walkstar f a s, walkstar f d s with
      | Some a', Some d' => Some (TPair a' d')
      | _, _ => None
      end
  | Some w => Some w
  end.
Proof. reflexivity. Qed.

Lemma walkstar_mono f : forall t s r, walkstar f t s = Some r -> forall f', (f <= f')%nat -> walkstar f' t s = Some r.
Proof.
  induction f as [|f IH]; intros t s r H f' L; [discriminate|].
  destruct f' as [|f']; [lia|]. rewrite walkstar_S in H. rewrite walkstar_S.
  destruct (walkt f t s) as [w|] eqn:Ew; [|discriminate].
  rewrite (walkt_mono f t s w Ew f') by lia.
  destruct w as [| a | y | a d]; try exact H.
  destruct (walkstar f a s) as [a'|] eqn:Ea; [|discriminate].
  destruct (walkstar f d s) as [d'|] eqn:Ed; [|discriminate].
  rewrite (IH a s a' Ea f') by lia. rewrite (IH d s d' Ed f') by lia. exact H.
Qed.

Lemma walkstar_step s f y t r : assv y s = Some t -> walkstar f t s = Some r ->
  walkstar (S f) (TVar y) s = Some r.
Proof.
  intros E H. destruct f as [|f]; [discriminate|].
  rewrite walkstar_S in H.
  destruct (walkt f t s) as [vv|] eqn:Ew; [|discriminate].
  assert (Hw: walkt (S f) (TVar y) s = Some vv).
  { simpl. rewrite E. destruct t; simpl in Ew; exact Ew. }
  rewrite walkstar_S. rewrite Hw.
  destruct vv as [| a | z | a d]; try exact H.
  destruct (walkstar f a s) as [a'|] eqn:Ea; [|discriminate].
  destruct (walkstar f d s) as [d'|] eqn:Ed; [|discriminate].
  rewrite (walkstar_mono f a s a' Ea (S f)) by lia.
  rewrite (walkstar_mono f d s d' Ed (S f)) by lia. exact H.
Qed.

(* the fuelled walkstar computes the expansion *)
Lemma walkstar_WS_total s t t' : WS s t t' -> exists f, walkstar f t s = Some t'.
Proof.
  induction 1 as [| a | y Hy | y t t' Hy Hw IH | a d a' d' Ha IHa Hd IHd].
  - exists 1%nat. reflexivity.
  - exists 1%nat. reflexivity.
  - exists 2%nat. rewrite walkstar_S. simpl. rewrite Hy. reflexivity.
  - destruct IH as [f Hf]. exists (S f). eapply walkstar_step; eauto.
  - destruct IHa as [fa Hfa]. destruct IHd as [fd Hfd]. exists (S (Nat.max fa fd)).
    rewrite walkstar_S. simpl walkt. cbv iota beta.
    rewrite (walkstar_mono fa a s a' Hfa (Nat.max fa fd)) by lia.
    rewrite (walkstar_mono fd d s d' Hfd (Nat.max fa fd)) by lia. reflexivity.
Qed.

Lemma walkstar_WS s : forall f t t', walkstar f t s = Some t' -> wf s -> WS s t t'.
Proof.
  intros f t t' H Hwf. destruct (WS_total s Hwf t) as [t2 H2].
  destruct (walkstar_WS_total s t t2 H2) as [f2 Hf2].
  pose proof (walkstar_mono f t s t' H (Nat.max f f2)) as A.
  pose proof (walkstar_mono f2 t s t2 Hf2 (Nat.max f f2)) as B.
  rewrite A in B by lia. assert (t' = t2) by (specialize (B ltac:(lia)); congruence).
  subst. exact H2.
Qed.

Theorem walkstar_total : forall t s, wf s -> exists f0, forall f, (f0 <= f)%nat -> walkstar f t s <> None.
Proof.
  intros t s Hwf. destruct (WS_total s Hwf t) as [t' Ht'].
  destruct (walkstar_WS_total s t t' Ht') as [f0 Hf0]. exists f0. intros f L.
  rewrite (walkstar_mono f0 t s t' Hf0 f L). discriminate.
Qed.
Print Assumptions walkstar_total.

(* ---------- unify ---------- *)

(* all keys and all variables of values of s lie in the (finite) universe U *)
Definition closedU (U : list N) (s : subst) : Prop :=
  forall a t, In (a, t) s -> In a U /\ incl (vars t) U.

Lemma walk_vars U s : closedU U s -> forall f x t, walk f x s = Some t -> In x U -> incl (vars t) U.
Proof.
  intros Hcl. induction f as [|f IH]; simpl; intros x t H Hx; [discriminate|].
  destruct (assv x s) as [w|] eqn:E.
  - apply assv_in in E. destruct (Hcl x w E) as [_ Hw].
    destruct w; try (inversion H; subst; exact Hw).
    eapply IH; [exact H|]. apply Hw. simpl. auto.
  - inversion H; subst. intros z [Hz|[]]. subst. exact Hx.
Qed.

Lemma walkt_vars U s f u uu : closedU U s -> walkt f u s = Some uu -> incl (vars u) U -> incl (vars uu) U.
Proof.
  intros Hcl H Hu. destruct u; simpl in H; try (inversion H; subst; exact Hu).
  eapply walk_vars; eauto. apply Hu. simpl. auto.
Qed.

Lemma closedU_snoc U s x t : closedU U s -> In x U -> incl (vars t) U -> closedU U (s ++ [(x, t)]).
Proof.
  intros Hcl Hx Ht a w Hin. apply in_app_or in Hin. destruct Hin as [Hin|[Hin|[]]].
  - apply Hcl. exact Hin.
  - inversion Hin; subst. auto.
Qed.

Lemma incl_pair_l (a d : term) U : incl (vars (TPair a d)) U -> incl (vars a) U.
Proof. intros H z Hz. apply H. simpl. apply in_or_app. auto. Qed.
Lemma incl_pair_r (a d : term) U : incl (vars (TPair a d)) U -> incl (vars d) U.
Proof. intros H z Hz. apply H. simpl. apply in_or_app. auto. Qed.

Lemma unify_closed U : forall f u v s s', unify f u v s = Ok s' ->
  closedU U s -> incl (vars u) U -> incl (vars v) U -> closedU U s'.
Proof.
  induction f as [|f IH]; simpl; intros u v s s' H Hcl Hu Hv; [discriminate|].
  destruct (walkt f u s) as [uu|] eqn:Eu; [|discriminate].
  destruct (walkt f v s) as [vv|] eqn:Ev; [|discriminate].
  pose proof (walkt_vars U s f u uu Hcl Eu Hu) as Huu.
  pose proof (walkt_vars U s f v vv Hcl Ev Hv) as Hvv.
  assert (Hext: forall x t, exts f x t s = Ok s' -> In x U -> incl (vars t) U -> closedU U s').
  { intros x t He Hx Ht. unfold exts in He. destruct (occurs f x t s) as [[|]|]; try discriminate.
    inversion He; subst. apply closedU_snoc; auto. }
  destruct uu as [| au | xu | a d], vv as [| av | xv | a' d']; try discriminate;
  try (inversion H; subst; exact Hcl);
  try (eapply Hext; [exact H| |first [exact Huu|exact Hvv]];
       first [apply Huu; simpl; left; reflexivity|apply Hvv; simpl; left; reflexivity]).
  - destruct (atom_eqb au av); [|discriminate]. inversion H; subst; exact Hcl.
  - destruct (N.eqb xu xv).
    + inversion H; subst; exact Hcl.
    + eapply Hext; [exact H| |exact Hvv]. apply Huu; simpl; left; reflexivity.
  - destruct (unify f a a' s) as [| |s1] eqn:E1; try discriminate.
    eapply IH; [exact H| | |].
    + eapply IH; [exact E1|exact Hcl| |]; [eapply incl_pair_l|eapply incl_pair_l]; eauto.
    + eapply incl_pair_r; eauto.
    + eapply incl_pair_r; eauto.
Qed.

Lemma closedU_length U s : wf s -> closedU U s -> (length s <= length U)%nat.
Proof.
  intros [Hnd _] Hcl. rewrite <- (map_length fst s). apply NoDup_incl_length; [exact Hnd|].
  intros a Ha. apply in_map_iff in Ha. destruct Ha as [[k t] [E Hin]]. simpl in E. subst.
  destruct (Hcl a t Hin) as [Ha _]. exact Ha.
Qed.

Lemma unify_S f u v s : unify (S f) u v s =
      match walkt f u s, walkt f v s with
      | Some uu, Some vv =>
          match uu, vv with
          | TVar x, TVar y => if N.eqb x y then Ok s else exts f x vv s
          | TVar x, _ => exts f x vv s
          | _, TVar y => exts f y uu s
          | TPair a d, TPair a' d' =>
              match unify f a a' s with
              | Ok s1 => unify f d d' s1
              | r => r
              end
          | TNil, TNil => Ok s
          | TAtom a, TAtom b => if atom_eqb a b then Ok s else Fail
          | _, _ => Fail
          end
      | _, _ => OOF
      end.
Proof. reflexivity. Qed.

(* Lexicographic measure: (room left in the universe, size of the expansion of u). *)
Lemma unify_term U : forall m1 m2 s u v u',
  wf s -> closedU U s -> incl (vars u) U -> incl (vars v) U ->
  (length U - length s < m1)%nat -> WS s u u' -> (size u' < m2)%nat ->
  exists f, unify f u v s <> OOF.
Proof.
  induction m1 as [|m1 IH1]; [intros; lia|].
  induction m2 as [|m2 IH2]; [intros; lia|].
  intros s u v u' Hwf Hcl Hu Hv Hm1 Hws Hsz.
  destruct (walkt_total s Hwf u) as [fu [uu Hfu]].
  destruct (walkt_total s Hwf v) as [fv [vv Hfv]].
  pose proof (WS_walkt s fu u uu u' (Hfu fu (le_n _)) Hws) as Hwu.
  pose proof (walkt_vars U s fu u uu Hcl (Hfu fu (le_n _)) Hu) as Huu.
  pose proof (walkt_vars U s fv v vv Hcl (Hfv fv (le_n _)) Hv) as Hvv.
  destruct (WS_total s Hwf vv) as [vv' Hwv].
  destruct (occurs_total_WS s uu u' Hwu) as [fou Hfou].
  destruct (occurs_total_WS s vv vv' Hwv) as [fov Hfov].
  assert (HF: exists F, (fu <= F /\ fv <= F /\ fou <= F /\ fov <= F)%nat).
  { exists (Nat.max (Nat.max fu fv) (Nat.max fou fov)). lia. }
  destruct HF as [F [LFu [LFv [LFou LFov]]]].
  assert (Hxu: forall f x, (F <= f)%nat -> exts f x uu s <> OOF).
  { intros f x L. unfold exts.
    pose proof (occurs_some_mono fou x uu s (Hfou x) f ltac:(lia)) as Ho.
    destruct (occurs f x uu s) as [[|]|]; congruence. }
  assert (Hxv: forall f x, (F <= f)%nat -> exts f x vv s <> OOF).
  { intros f x L. unfold exts.
    pose proof (occurs_some_mono fov x vv s (Hfov x) f ltac:(lia)) as Ho.
    destruct (occurs f x vv s) as [[|]|]; congruence. }
  assert (Hleaf: forall f, (F <= f)%nat -> walkt f u s = Some uu /\ walkt f v s = Some vv).
  { intros f L. split; [apply Hfu|apply Hfv]; lia. }
  destruct uu as [| au | xu | a d], vv as [| av | xv | a' d'];
  try (exists (S F); rewrite unify_S; destruct (Hleaf F (le_n _)) as [Ru Rv]; rewrite Ru, Rv;
       first [ discriminate | apply Hxu; lia | apply Hxv; lia ]).
  - exists (S F); rewrite unify_S; destruct (Hleaf F (le_n _)) as [Ru Rv]; rewrite Ru, Rv.
    destruct (atom_eqb au av); discriminate.
  - exists (S F); rewrite unify_S; destruct (Hleaf F (le_n _)) as [Ru Rv]; rewrite Ru, Rv.
    destruct (N.eqb xu xv); [discriminate|apply Hxv; lia].
  - (* both pairs *)
    apply WS_pair_inv in Hwu. destruct Hwu as [a1 [d1 [Eu' [Hwa Hwd]]]]. subst u'. simpl in Hsz.
    destruct (IH2 s a a' a1 Hwf Hcl (incl_pair_l a d U Huu) (incl_pair_l a' d' U Hvv) Hm1 Hwa ltac:(lia))
      as [f1 Hf1].
    destruct (unify f1 a a' s) as [| |s1] eqn:E1; [congruence| |].
    + exists (S (Nat.max F f1)). rewrite unify_S.
      destruct (Hleaf (Nat.max F f1) ltac:(lia)) as [Ru Rv]; rewrite Ru, Rv.
      rewrite (unify_mono f1 a a' s) by (try lia; congruence). rewrite E1. discriminate.
    + pose proof (unify_wf f1 a a' s s1 Hwf E1) as Hwf1.
      pose proof (unify_closed U f1 a a' s s1 E1 Hcl (incl_pair_l a d U Huu) (incl_pair_l a' d' U Hvv)) as Hcl1.
      destruct (unify_sound f1 a a' s s1 E1) as [[ext Hext] _].
      assert (H2: exists f2, unify f2 d d' s1 <> OOF).
      { destruct ext as [|p ext].
        - rewrite app_nil_r in Hext. subst s1.
          apply (IH2 s d d' d1 Hwf Hcl (incl_pair_r a d U Huu) (incl_pair_r a' d' U Hvv) Hm1 Hwd). lia.
        - destruct (WS_total s1 Hwf1 d) as [d2 Hd2].
          apply (IH1 (S (size d2)) s1 d d' d2 Hwf1 Hcl1 (incl_pair_r a d U Huu) (incl_pair_r a' d' U Hvv));
            [|exact Hd2|lia].
          pose proof (closedU_length U s1 Hwf1 Hcl1) as Hl.
          assert (Hl1: length s1 = (length s + S (length ext))%nat).
          { rewrite Hext. rewrite app_length. reflexivity. }
          lia. }
      destruct H2 as [f2 Hf2].
      exists (S (Nat.max F (Nat.max f1 f2))). rewrite unify_S.
      destruct (Hleaf (Nat.max F (Nat.max f1 f2)) ltac:(lia)) as [Ru Rv]; rewrite Ru, Rv.
      rewrite (unify_mono f1 a a' s) by (try lia; congruence). rewrite E1.
      rewrite (unify_mono f2 d d' s1) by (try lia; congruence). exact Hf2.
Qed.

Definition universe (u v : term) (s : subst) : list N :=
  vars u ++ vars v ++ flat_map (fun p => fst p :: vars (snd p)) s.

Lemma universe_closed u v s : closedU (universe u v s) s.
Proof.
  intros a t Hin. unfold universe. split.
  - apply in_or_app. right. apply in_or_app. right. apply in_flat_map.
    exists (a, t). split; [exact Hin|simpl; auto].
  - intros y Hy. apply in_or_app. right. apply in_or_app. right. apply in_flat_map.
    exists (a, t). split; [exact Hin|simpl; auto].
Qed.

Theorem unify_total : forall u v s, wf s -> exists f0, forall f, (f0 <= f)%nat -> unify f u v s <> OOF.
Proof.
  intros u v s Hwf. destruct (WS_total s Hwf u) as [u' Hu'].
  destruct (unify_term (universe u v s) (S (length (universe u v s) - length s)) (S (size u')) s u v u'
              Hwf (universe_closed u v s)) as [f0 Hf0].
  - unfold universe. apply incl_appl. apply incl_refl.
  - unfold universe. apply incl_appr. apply incl_appl. apply incl_refl.
  - lia.
  - exact Hu'.
  - lia.
  - exists f0. intros f L. rewrite (unify_mono f0 u v s Hf0 f L). exact Hf0.
Qed.
Print Assumptions unify_total.

(* ---------- (4) both sides resolve to the same term under the result ---------- *)

Lemma inst_WS s (r : val) : forall t t', WS s t t' ->
  (forall n, In n (vars t) -> WS s (TVar n) (r n)) -> inst r t = t'.
Proof.
  induction t as [| a | x | a IHa d IHd]; intros t' Hw Hr; simpl.
  - inversion Hw; reflexivity.
  - inversion Hw; reflexivity.
  - eapply WS_fun; [apply Hr; simpl; auto|exact Hw].
  - apply WS_pair_inv in Hw. destruct Hw as [a' [d' [E [Ha Hd]]]]. subst t'. f_equal.
    + apply IHa; [exact Ha|]. intros n Hn. apply Hr. simpl. apply in_or_app. auto.
    + apply IHd; [exact Hd|]. intros n Hn. apply Hr. simpl. apply in_or_app. auto.
Qed.

(* on a wf substitution, the expansions of the variables form a solution; u and v expand to its instances *)
Lemma WS_solution s u v : wf s -> exists r : val, sat r s /\
  (forall t', WS s u t' -> inst r u = t') /\ (forall t', WS s v t' -> inst r v = t').
Proof.
  intros Hwf. pose proof Hwf as [Hnd _].
  destruct (fin_choice (fun n t => WS s (TVar n) t) (fun n => WS_total s Hwf (TVar n))
              (vars u ++ vars v ++ map fst s ++ flat_map (fun p => vars (snd p)) s)) as [e He].
  exists e. split; [|split].
  - intros x t Hin.
    assert (Hwx: WS s (TVar x) (e x)).
    { apply He. apply in_or_app. right. apply in_or_app. right. apply in_or_app. left.
      change x with (fst (x, t)). apply in_map. exact Hin. }
    pose proof (assv_NoDup x t s Hnd Hin) as Ex.
    apply WS_var_inv in Hwx. destruct Hwx as [[Ex' _]|[t0 [Ex' Hwt]]]; [congruence|].
    assert (t0 = t) by congruence. subst t0.
    symmetry. apply (inst_WS s e t (e x) Hwt). intros n Hn. apply He.
    apply in_or_app. right. apply in_or_app. right. apply in_or_app. right.
    apply in_flat_map. exists (x, t). split; [exact Hin|exact Hn].
  - intros t' Hw. apply (inst_WS s e u t' Hw). intros n Hn. apply He. apply in_or_app. left. exact Hn.
  - intros t' Hw. apply (inst_WS s e v t' Hw). intros n Hn. apply He.
    apply in_or_app. right. apply in_or_app. left. exact Hn.
Qed.

Theorem unify_walkstar_eq : forall f u v s s', wf s -> unify f u v s = Ok s' ->
  exists f1 t, walkstar f1 u s' = Some t /\ walkstar f1 v s' = Some t.
Proof.
  intros f u v s s' Hwf H.
  pose proof (unify_wf f u v s s' Hwf H) as Hwf'.
  destruct (unify_sound f u v s s' H) as [_ Hs].
  destruct (WS_solution s' u v Hwf') as [r [Hsat [Hru Hrv]]].
  destruct (Hs r Hsat) as [_ Heq].
  destruct (WS_total s' Hwf' u) as [tu Htu]. destruct (WS_total s' Hwf' v) as [tv Htv].
  assert (E: tu = tv). { rewrite <- (Hru tu Htu), <- (Hrv tv Htv). exact Heq. }
  subst tv.
  destruct (walkstar_WS_total s' u tu Htu) as [fu Hfu].
  destruct (walkstar_WS_total s' v tu Htv) as [fv Hfv].
  exists (Nat.max fu fv), tu. split.
  - apply (walkstar_mono fu u s' tu Hfu). lia.
  - apply (walkstar_mono fv v s' tu Hfv). lia.
Qed.
Print Assumptions unify_walkstar_eq.

(* ---------- (4) an explicit, computable fuel ---------- *)

(* D s t n : the expansion of t under s has a derivation of depth at most n
   (a variable hop and a pair descent cost one each) *)
Inductive D (s : subst) : term -> nat -> Prop :=
| D_nil n : D s TNil n
| D_atom a n : D s (TAtom a) n
| D_unb x n : assv x s = None -> D s (TVar x) n
| D_bnd x t n : assv x s = Some t -> D s t n -> D s (TVar x) (S n)
| D_pair a d n : D s a n -> D s d n -> D s (TPair a d) (S n).

Lemma D_mono s t n : D s t n -> forall m, (n <= m)%nat -> D s t m.
Proof.
  induction 1 as [n | a n | x n Hx | x t n Hx Hd IH | a d n Ha IHa Hd IHd]; intros m L.
  - constructor.
  - constructor.
  - constructor. exact Hx.
  - destruct m as [|m]; [lia|]. eapply D_bnd; [exact Hx|]. apply IH. lia.
  - destruct m as [|m]; [lia|]. apply D_pair; [apply IHa|apply IHd]; lia.
Qed.

Lemma D_var_inv s x n : D s (TVar x) n ->
  assv x s = None \/ exists t n', assv x s = Some t /\ n = S n' /\ D s t n'.
Proof.
  intros H. inversion H; subst.
  - left. assumption.
  - right. eauto.
Qed.

Lemma D_pair_inv s a d n : D s (TPair a d) n -> exists n', n = S n' /\ D s a n' /\ D s d n'.
Proof.
  intros H. inversion H; subst. eauto.
Qed.

Lemma walk_S f x s : walk (S f) x s =
  match assv x s with
  | None => Some (TVar x)
  | Some (TVar y) => walk f y s
  | Some t => Some t
  end.
Proof. reflexivity. Qed.

Lemma D_walk s : forall f x t, walk f x s = Some t -> forall n, D s (TVar x) n -> D s t n.
Proof.
  induction f as [|f IH]; intros x t H n Hd; [discriminate|].
  rewrite walk_S in H. destruct (assv x s) as [w|] eqn:E.
  - apply D_var_inv in Hd. destruct Hd as [E'|[t0 [n' [E' [En Hd']]]]]; [congruence|].
    assert (t0 = w) by congruence. subst t0 n.
    destruct w; try (inversion H; subst; apply (D_mono s _ n' Hd'); lia).
    apply (D_mono s t n'); [|lia]. eapply IH; eauto.
  - inversion H; subst. exact Hd.
Qed.

Lemma D_walkt s f u uu n : walkt f u s = Some uu -> D s u n -> D s uu n.
Proof.
  destruct u; simpl; intros H Hd; try (inversion H; subst; exact Hd).
  eapply D_walk; eauto.
Qed.

Lemma D_walk_total s : forall n x, D s (TVar x) n -> exists t, walk (S n) x s = Some t.
Proof.
  induction n as [|n IHn]; intros x Hd; rewrite walk_S;
  apply D_var_inv in Hd; destruct Hd as [E|[t [n' [E [En Hd']]]]]; rewrite E; eauto.
  - lia.
  - assert (n' = n) by lia. subst n'. destruct t; eauto.
Qed.

Lemma D_walkt_total s n u : D s u n -> exists uu, walkt (S n) u s = Some uu.
Proof.
  destruct u; simpl; eauto. apply D_walk_total.
Qed.

Lemma D_occurs s v n : D s v n -> forall x, occurs (S (S n)) x v s <> None.
Proof.
  induction 1 as [n | a n | y n Hy | y t n Hy Hd IH | a d n Ha IHa Hd IHd]; intros x.
  - rewrite occurs_S. simpl. discriminate.
  - rewrite occurs_S. simpl. discriminate.
  - rewrite occurs_S. cbn [walkt]. rewrite walk_S, Hy. discriminate.
  - specialize (IH x). destruct (occurs (S (S n)) x t s) as [b|] eqn:E; [|congruence].
    rewrite (occurs_step s (S (S n)) x y t b Hy E). discriminate.
  - specialize (IHa x). specialize (IHd x).
    destruct (occurs (S (S n)) x a s) as [ba|] eqn:Ea; [|congruence].
    destruct (occurs (S (S n)) x d s) as [bd|] eqn:Ed; [|congruence].
    rewrite occurs_S. cbn [walkt]. cbv iota beta. rewrite Ea, Ed. destruct ba; discriminate.
Qed.

(* all values of s have size at most h *)
Definition hb (h : nat) (s : subst) : Prop := forall a t, In (a, t) s -> (size t <= h)%nat.

Lemma D_pair_bound s a d K : D s a (size a + K) -> D s d (size d + K) -> D s (TPair a d) (size (TPair a d) + K).
Proof.
  intros Ha Hd. simpl. apply D_pair.
  - apply (D_mono s a _ Ha). lia.
  - apply (D_mono s d _ Hd). lia.
Qed.

(* Along a path of the expansion the bound variables met have strictly decreasing rank, hence are distinct keys:
   at most length s hops, each followed by at most h descents. *)
Lemma D_bound s h (rank : N -> nat) :
  (forall x t y, In (x, t) s -> In y (vars t) -> (rank y < rank x)%nat) -> hb h s ->
  forall k path, NoDup path -> incl path (map fst s) -> (length s - length path <= k)%nat ->
  forall t, (forall y p, In y (vars t) -> In p path -> (rank y < rank p)%nat) ->
  D s t (size t + k * S h).
Proof.
  intros Hr Hh.
  assert (Hvar: forall k path x tx, NoDup path -> incl path (map fst s) ->
            (length s - length path <= k)%nat ->
            (forall y p, In y (vars (TVar x)) -> In p path -> (rank y < rank p)%nat) ->
            assv x s = Some tx ->
            NoDup (x :: path) /\ incl (x :: path) (map fst s) /\ (1 <= k)%nat /\
            (length s - length (x :: path) <= k - 1)%nat /\
            (forall y p, In y (vars tx) -> In p (x :: path) -> (rank y < rank p)%nat) /\
            (size tx <= h)%nat).
  { intros k path x tx Hnp Hip Hk Hlt E. apply assv_in in E.
    assert (Hnx: ~ In x path).
    { intros Hin. specialize (Hlt x x (or_introl eq_refl) Hin). lia. }
    assert (Hnd': NoDup (x :: path)) by (constructor; assumption).
    assert (Hi': incl (x :: path) (map fst s)).
    { intros z [Hz|Hz]; [|auto]. subst z. change x with (fst (x, tx)). apply in_map. exact E. }
    pose proof (NoDup_incl_length Hnd' Hi') as Hl. rewrite map_length in Hl. simpl in Hl.
    split; [exact Hnd'|]. split; [exact Hi'|]. split; [lia|]. split; [simpl; lia|]. split.
    - intros y p Hy [Hp|Hp].
      + subst p. apply (Hr x tx y E Hy).
      + pose proof (Hr x tx y E Hy). pose proof (Hlt x p (or_introl eq_refl) Hp). lia.
    - apply (Hh x tx E). }
  induction k as [|k IHk]; intros path Hnp Hip Hk t;
    induction t as [| a | x | a IHa d IHd]; intros Hlt.
  - constructor.
  - constructor.
  - destruct (assv x s) as [tx|] eqn:E; [|constructor; exact E].
    destruct (Hvar _ _ _ _ Hnp Hip Hk Hlt E) as [_ [_ [Hk1 _]]]. lia.
  - apply D_pair_bound.
    + apply IHa. intros y p Hy Hp. apply Hlt; [simpl; apply in_or_app; auto|exact Hp].
    + apply IHd. intros y p Hy Hp. apply Hlt; [simpl; apply in_or_app; auto|exact Hp].
  - constructor.
  - constructor.
  - destruct (assv x s) as [tx|] eqn:E; [|constructor; exact E].
    destruct (Hvar _ _ _ _ Hnp Hip Hk Hlt E) as [Hnd' [Hi' [_ [Hk' [Hlt' Hsz]]]]].
    simpl in Hk'. rewrite Nat.sub_0_r in Hk'.
    pose proof (IHk (x :: path) Hnd' Hi' Hk' tx Hlt') as Hd.
    apply (D_mono s (TVar x) (S (h + k * S h))); [|simpl; lia].
    eapply D_bnd; [exact E|]. apply (D_mono s tx _ Hd). lia.
  - apply D_pair_bound.
    + apply IHa. intros y p Hy Hp. apply Hlt; [simpl; apply in_or_app; auto|exact Hp].
    + apply IHd. intros y p Hy Hp. apply Hlt; [simpl; apply in_or_app; auto|exact Hp].
Qed.

Definition Dmax (U : list N) (h : nat) : nat := h + length U * S h.

Lemma D_global U h s t : wf s -> closedU U s -> hb h s -> (size t <= h)%nat -> D s t (Dmax U h).
Proof.
  intros Hwf Hcl Hh Hsz. pose proof (closedU_length U s Hwf Hcl) as Hl.
  destruct Hwf as [Hnd [rank Hr]].
  pose proof (D_bound s h rank Hr Hh (length s) [] (NoDup_nil _) (incl_nil_l _) ltac:(simpl; lia) t
                ltac:(intros y p _ []; fail)) as Hd.
  apply (D_mono s t _ Hd). unfold Dmax.
  pose proof (Nat.mul_le_mono_r (length s) (length U) (S h) Hl). lia.
Qed.

Lemma walk_size h s : hb h s -> forall f x t, walk f x s = Some t -> (1 <= h)%nat -> (size t <= h)%nat.
Proof.
  intros Hh. induction f as [|f IH]; intros x t H H1; [discriminate|].
  rewrite walk_S in H. destruct (assv x s) as [w|] eqn:E.
  - apply assv_in in E. pose proof (Hh x w E) as Hw.
    destruct w; try (inversion H; subst; exact Hw). eapply IH; eauto.
  - inversion H; subst. simpl. exact H1.
Qed.

Lemma size_pos t : (1 <= size t)%nat.
Proof. destruct t; simpl; lia. Qed.

Lemma walkt_size h s f u uu : hb h s -> walkt f u s = Some uu -> (size u <= h)%nat -> (size uu <= h)%nat.
Proof.
  intros Hh H Hu. destruct u; simpl in H; try (inversion H; subst; exact Hu).
  eapply walk_size; eauto.
Qed.

Lemma hb_snoc h s x t : hb h s -> (size t <= h)%nat -> hb h (s ++ [(x, t)]).
Proof.
  intros Hh Ht a w Hin. apply in_app_or in Hin. destruct Hin as [Hin|[Hin|[]]].
  - apply (Hh a w Hin).
  - inversion Hin; subst. exact Ht.
Qed.

Lemma unify_hb h : forall f u v s s', unify f u v s = Ok s' ->
  hb h s -> (size u <= h)%nat -> (size v <= h)%nat -> hb h s'.
Proof.
  induction f as [|f IH]; intros u v s s' H Hh Hu Hv; [discriminate|].
  rewrite unify_S in H.
  destruct (walkt f u s) as [uu|] eqn:Eu; [|discriminate].
  destruct (walkt f v s) as [vv|] eqn:Ev; [|discriminate].
  pose proof (walkt_size h s f u uu Hh Eu Hu) as Huu.
  pose proof (walkt_size h s f v vv Hh Ev Hv) as Hvv.
  assert (Hext: forall x t, exts f x t s = Ok s' -> (size t <= h)%nat -> hb h s').
  { intros x t He Ht. unfold exts in He. destruct (occurs f x t s) as [[|]|]; try discriminate.
    inversion He; subst. apply hb_snoc; auto. }
  destruct uu as [| au | xu | a d], vv as [| av | xv | a' d']; try discriminate;
  try (inversion H; subst; exact Hh);
  try (eapply Hext; [exact H|first [exact Huu|exact Hvv]]).
  - destruct (atom_eqb au av); [|discriminate]. inversion H; subst; exact Hh.
  - destruct (N.eqb xu xv).
    + inversion H; subst; exact Hh.
    + eapply Hext; [exact H|exact Hvv].
  - simpl in Huu, Hvv. destruct (unify f a a' s) as [| |s1] eqn:E1; try discriminate.
    eapply IH; [exact H| | |]; [|lia|lia].
    eapply IH; [exact E1|exact Hh| |]; lia.
Qed.

Lemma unify_fuel U h : forall f m1 n s u v,
  wf s -> closedU U s -> hb h s -> incl (vars u) U -> incl (vars v) U ->
  (size u <= h)%nat -> (size v <= h)%nat ->
  (length U - length s <= m1)%nat -> D s u n ->
  (n + m1 * S (Dmax U h) + Dmax U h + 3 <= f)%nat ->
  unify f u v s <> OOF.
Proof.
  induction f as [|f IH]; intros m1 n s u v Hwf Hcl Hh Hu Hv Hsu Hsv Hm1 Hd Hf; [lia|].
  remember (Dmax U h) as DM eqn:EDM.
  pose proof (D_global U h s u Hwf Hcl Hh Hsu) as Hdu. rewrite <- EDM in Hdu.
  pose proof (D_global U h s v Hwf Hcl Hh Hsv) as Hdv. rewrite <- EDM in Hdv.
  destruct (D_walkt_total s DM u Hdu) as [uu Ru0].
  destruct (D_walkt_total s DM v Hdv) as [vv Rv0].
  assert (Ru: walkt f u s = Some uu) by (apply (walkt_mono (S DM) u s uu Ru0); lia).
  assert (Rv: walkt f v s = Some vv) by (apply (walkt_mono (S DM) v s vv Rv0); lia).
  pose proof (walkt_vars U s f u uu Hcl Ru Hu) as Huu.
  pose proof (walkt_vars U s f v vv Hcl Rv Hv) as Hvv.
  pose proof (walkt_size h s f u uu Hh Ru Hsu) as Hsuu.
  pose proof (walkt_size h s f v vv Hh Rv Hsv) as Hsvv.
  pose proof (D_walkt s f u uu n Ru Hd) as Hdn.
  pose proof (D_walkt s f u uu DM Ru Hdu) as Hduu.
  pose proof (D_walkt s f v vv DM Rv Hdv) as Hdvv.
  assert (Hxu: forall x, exts f x uu s <> OOF).
  { intros x. unfold exts.
    pose proof (occurs_some_mono (S (S DM)) x uu s (D_occurs s uu DM Hduu x) f ltac:(lia)) as Ho.
    destruct (occurs f x uu s) as [[|]|]; congruence. }
  assert (Hxv: forall x, exts f x vv s <> OOF).
  { intros x. unfold exts.
    pose proof (occurs_some_mono (S (S DM)) x vv s (D_occurs s vv DM Hdvv x) f ltac:(lia)) as Ho.
    destruct (occurs f x vv s) as [[|]|]; congruence. }
  rewrite unify_S, Ru, Rv.
  destruct uu as [| au | xu | a d], vv as [| av | xv | a' d'];
  try first [ discriminate | apply Hxu | apply Hxv ].
  - destruct (atom_eqb au av); discriminate.
  - destruct (N.eqb xu xv); [discriminate|apply Hxv].
  - apply D_pair_inv in Hdn. destruct Hdn as [n' [En [Hda Hdd]]]. subst n.
    simpl in Hsuu, Hsvv.
    pose proof (IH m1 n' s a a' Hwf Hcl Hh (incl_pair_l a d U Huu) (incl_pair_l a' d' U Hvv)
                  ltac:(lia) ltac:(lia) Hm1 Hda ltac:(lia)) as H1.
    destruct (unify f a a' s) as [| |s1] eqn:E1; [congruence|discriminate|].
    pose proof (unify_wf f a a' s s1 Hwf E1) as Hwf1.
    pose proof (unify_closed U f a a' s s1 E1 Hcl (incl_pair_l a d U Huu) (incl_pair_l a' d' U Hvv)) as Hcl1.
    pose proof (unify_hb h f a a' s s1 E1 Hh ltac:(lia) ltac:(lia)) as Hh1.
    destruct (unify_sound f a a' s s1 E1) as [[ext Hext] _].
    destruct ext as [|p ext].
    + rewrite app_nil_r in Hext. subst s1.
      apply (IH m1 n' s d d' Hwf Hcl Hh (incl_pair_r a d U Huu) (incl_pair_r a' d' U Hvv)
                ltac:(lia) ltac:(lia) Hm1 Hdd ltac:(lia)).
    + pose proof (closedU_length U s1 Hwf1 Hcl1) as Hl.
      assert (Hl1: length s1 = (length s + S (length ext))%nat).
      { rewrite Hext. rewrite app_length. reflexivity. }
      destruct m1 as [|m1]; [lia|].
      pose proof (D_global U h s1 d Hwf1 Hcl1 Hh1 ltac:(lia)) as Hdd1. rewrite <- EDM in Hdd1.
      apply (IH m1 DM s1 d d' Hwf1 Hcl1 Hh1 (incl_pair_r a d U Huu) (incl_pair_r a' d' U Hvv)
                ltac:(lia) ltac:(lia) ltac:(lia) Hdd1). lia.
Qed.

Definition maxsize (s : subst) : nat := fold_right (fun p m => Nat.max (size (snd p)) m) 0%nat s.

Lemma maxsize_hb s : hb (maxsize s) s.
Proof.
  induction s as [|[k w] s IHs]; intros a t Hin; [contradiction|]. simpl.
  destruct Hin as [Hin|Hin].
  - inversion Hin; subst. lia.
  - specialize (IHs a t Hin). lia.
Qed.

(* explicit fuel: with h the largest term size and n the number of variable occurrences,
   Dm = h + n (h+1) bounds every expansion depth, and (n+1) (Dm+1) + Dm + 2 levels of recursion suffice *)
Definition ufuel (u v : term) (s : subst) : nat :=
  let n := length (universe u v s) in
  let h := Nat.max (size u) (Nat.max (size v) (maxsize s)) in
  let Dm := (h + n * S h)%nat in
  (Dm + n * S Dm + Dm + 3)%nat.

Theorem ufuel_enough : forall u v s, wf s -> unify (ufuel u v s) u v s <> OOF.
Proof.
  intros u v s Hwf. unfold ufuel.
  set (U := universe u v s). set (h := Nat.max (size u) (Nat.max (size v) (maxsize s))).
  apply (unify_fuel U h _ (length U) (Dmax U h) s u v Hwf (universe_closed u v s)).
  - intros a t Hin. pose proof (maxsize_hb s a t Hin). unfold h. lia.
  - unfold U, universe. apply incl_appl. apply incl_refl.
  - unfold U, universe. apply incl_appr. apply incl_appl. apply incl_refl.
  - unfold h. lia.
  - unfold h. lia.
  - lia.
  - apply D_global; [exact Hwf|apply universe_closed| |unfold h; lia].
    intros a t Hin. pose proof (maxsize_hb s a t Hin). unfold h. lia.
  - unfold Dmax. lia.
Qed.
Print Assumptions ufuel_enough.
