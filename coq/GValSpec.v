(* Proofs about the encoding of Go values. *)
From Coq Require Import List NArith ZArith Bool Lia.
From GMK Require Import Term Unify UnifySpec GVal.
Import ListNotations.

Section GvalInd.
  Variable P : gval -> Prop.
  Hypothesis HV : forall i, P (GVarP i).
  Hypothesis HN : P GNilP.
  Hypothesis HS : forall a, P (GScalarP a).
  Hypothesis HT : forall tag fs, Forall P fs -> P (GStruct tag fs).
  Hypothesis HL : forall es, Forall P es -> P (GSliceV es).
  Fixpoint gval_ind' (v : gval) : P v :=
    match v with
    | GVarP i => HV i
    | GNilP => HN
    | GScalarP a => HS a
    | GStruct tag fs => HT tag fs
        ((fix all (l : list gval) : Forall P l :=
            match l with [] => Forall_nil P | x :: r => Forall_cons x (gval_ind' x) (all r) end) fs)
    | GSliceV es => HL es
        ((fix all (l : list gval) : Forall P l :=
            match l with [] => Forall_nil P | x :: r => Forall_cons x (gval_ind' x) (all r) end) es)
    end.
End GvalInd.

Definition enc_list (l : list gval) : term :=
  (fix el (l : list gval) : term := match l with [] => TNil | x :: r => TPair (enc x) (el r) end) l.

Lemma enc_struct tag fs : enc (GStruct tag fs) = TPair (TAtom (ASym tag)) (enc_list fs).
Proof. reflexivity. Qed.
Lemma enc_slice es : enc (GSliceV es) = TPair (TAtom (AStr slice_tag)) (enc_list es).
Proof. reflexivity. Qed.
Lemma enc_list_cons x r : enc_list (x :: r) = TPair (enc x) (enc_list r).
Proof. reflexivity. Qed.

Lemma enc_list_inj l : Forall (fun v => forall w, enc v = enc w -> v = w) l ->
  forall l', enc_list l = enc_list l' -> l = l'.
Proof.
  induction 1 as [|x r Hx Hr IH]; intros [|y r'] E; try reflexivity.
  - rewrite enc_list_cons in E. discriminate.
  - rewrite enc_list_cons in E. discriminate.
  - rewrite !enc_list_cons in E. inversion E as [[E1 E2]]. f_equal; auto.
Qed.

(* the encoding is injective: two Go values are deeply equal (variables by identity, scalars by content,
   structure by shape) exactly when their encodings are the same term *)
Theorem enc_inj : forall v w, enc v = enc w -> v = w.
Proof.
  intros v. induction v as [i| |a|tag fs IH|es IH] using gval_ind'; intros w E.
  - destruct w; try discriminate. inversion E; reflexivity.
  - destruct w; try discriminate. reflexivity.
  - destruct w; try discriminate. inversion E; reflexivity.
  - destruct w as [| | |tag' fs'|es']; try discriminate.
    rewrite !enc_struct in E. inversion E as [[E1 E2]]. f_equal. apply (enc_list_inj fs IH); exact E2.
  - destruct w as [| | |tag' fs'|es']; try discriminate.
    rewrite !enc_slice in E. inversion E as [E2]. f_equal. apply (enc_list_inj es IH); exact E2.
Qed.
