(* L6 model: the lexical part of sexpr.bnf (gen/GrammarGen.v g_tokens) as an automaton of Brzozowski derivatives,
   run by the SAME Scan loop as the DFA of the tables (LexDriver.scan_loop is generic in the automaton).
   State = the vector of (token id, residual regular expression) in priority order.
   Type of a state = the first token whose residual is nullable, INVALID if none (earlier definitions win ties);
   the automaton is dead when every residual denotes the empty language. `.` is gocc's: any rune that no explicit
   character of the current state matches. No proofs in this file. *)
From Coq Require Import List NArith ZArith Bool.
From GMK Require Import TableTypes Utf8 gen.Tables gen.GrammarGen LexDriver.
Import ListNotations.

Fixpoint nullable (r : re) : bool :=
  match r with
  | REmp => false
  | REps => true
  | RChr _ _ => false
  | RAny => false
  | RCat a b => nullable a && nullable b
  | RAlt a b => nullable a || nullable b
  | RStar _ => true
  end.

(* smart constructors: prune the empty language and unit *)
Definition mk_cat (a b : re) : re :=
  match a, b with
  | REmp, _ => REmp
  | _, REmp => REmp
  | REps, _ => b
  | _, _ => RCat a b
  end.
Definition mk_alt (a b : re) : re :=
  match a, b with
  | REmp, _ => b
  | _, REmp => a
  | _, _ => RAlt a b
  end.

(* some character (range) at the front of r matches c *)
Fixpoint explicit (c : N) (r : re) : bool :=
  match r with
  | RChr lo hi => N.leb lo c && N.leb c hi
  | RCat a b => explicit c a || (nullable a && explicit c b)
  | RAlt a b => explicit c a || explicit c b
  | RStar a => explicit c a
  | _ => false
  end.

(* Brzozowski derivative. `.` follows gocc: in a lexer state it matches exactly the runes that no explicit
   character (range) of the state matches (ex = "c is explicit in the current state"); e.g. inside a string_lit
   a raw double quote always closes the string and a backslash always starts an escape. *)
Fixpoint deriv (c : N) (ex : bool) (r : re) : re :=
  match r with
  | REmp => REmp
  | REps => REmp
  | RChr lo hi => if (N.leb lo c && N.leb c hi)%bool then REps else REmp
  | RAny => if ex then REmp else REps
  | RCat a b => if nullable a then mk_alt (mk_cat (deriv c ex a) b) (deriv c ex b) else mk_cat (deriv c ex a) b
  | RAlt a b => mk_alt (deriv c ex a) (deriv c ex b)
  | RStar a => mk_cat (deriv c ex a) (RStar a)
  end.

(* the language is empty *)
Fixpoint is_void (r : re) : bool :=
  match r with
  | REmp => true
  | REps => false
  | RChr lo hi => N.ltb hi lo
  | RAny => false
  | RCat a b => is_void a || is_void b
  | RAlt a b => is_void a && is_void b
  | RStar _ => false
  end.

Definition re_state := list (nat * re).

Definition re_step (st : re_state) (c : N) : option (option re_state) :=
  let ex := existsb (fun '(_, r) => explicit c r) st in
  let st' := map (fun '(t, r) => (t, deriv c ex r)) st in
  if forallb (fun '(_, r) => is_void r) st' then Some None else Some (Some st').

Fixpoint re_type (st : re_state) : nat :=
  match st with
  | [] => tok_INVALID
  | (t, r) :: st' => if nullable r then t else re_type st'
  end.

Definition re_aut : automaton re_state :=
  mkAut g_tokens re_step (fun st => Some (Z.of_nat (re_type st), false)).

(* the specification lexer: the token regular expressions of the bnf under the Scan loop's matching rule *)
Definition spec_lex_bytes (bs : list N) : list token * lexend := lex re_aut bs.
