#!/usr/bin/env python3
"""Records the content hashes (comments / formatting aside) of the /repo sources the hand-written models were validated against: pins.json."""
import json, os, sys
sys.path.insert(0, os.path.dirname(os.path.abspath(__file__)))
import vcommon as vc
files = set()
for pid in vc._PROP_FAMILIES:
    files.update(vc.pinned_files(pid))
h = vc.source_hashes(sorted(files))
json.dump(h, open(vc.PINS, "w"), indent=1, sort_keys=True)
print("pins.json: %d files" % len(h))
