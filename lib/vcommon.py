"""Shared machinery of the /verif check driver: Coq build, harness build/run, correspondence evaluation,
violation protocol, known findings, evidence."""
import hashlib
import json
import os
import re
import shutil
import subprocess
import sys
import time

VERIF = os.path.dirname(os.path.dirname(os.path.abspath(__file__)))
REPO = os.environ.get("VERIF_REPO", "/repo")
COQ = os.path.join(VERIF, "coq")
BUILD = os.path.join(VERIF, "build")
os.makedirs(os.path.join(COQ, "gen"), exist_ok=True)  # generated files are not under version control: a fresh checkout has no coq/gen
os.makedirs(BUILD, exist_ok=True)
HARNESS = os.path.join(VERIF, "harness")
EVIDENCE = os.path.join(VERIF, "evidence")
REPLAYS = os.path.join(VERIF, "replays")
KNOWN = os.path.join(VERIF, "known_findings.json")

GOENV = dict(os.environ, GOFLAGS="-mod=mod", GOPROXY="off", GOSUMDB="off", GOTOOLCHAIN="local",
             CGO_ENABLED=os.environ.get("CGO_ENABLED", "0"))

ALLOWED_AXIOMS = set()  # the target is: none.  (stdlib axioms would be whitelisted here and named in DESIGN.md)

TRUSTED_BASE = [
    "Coq 8.16.1 kernel + coqc; vm_compute (bytecode VM) for executable models and finite validators; no native_compute",
    "no axioms: every property theorem prints 'Closed under the global context'",
    "hand-written Gallina models are tied to /repo by differential execution (sampled), not by proof",
    "the Go harness (generators, canonicalisers, direct oracles), the translators gen_rels/gen_tables, this python driver",
    "Go runtime, reflect, sort, strconv, math/rand are modelled or trusted, not verified",
]


def log(*a):
    print(*a, file=sys.stderr, flush=True)


def run(cmd, cwd=None, timeout=600, env=None, stdin=None, mem_kb=None):
    """Run a command, return (rc, stdout+stderr). rc=124 on timeout."""
    pre = None
    if mem_kb:
        import resource

        def pre():
            resource.setrlimit(resource.RLIMIT_AS, (mem_kb * 1024, mem_kb * 1024))
    try:
        p = subprocess.run(cmd, cwd=cwd, timeout=timeout, env=env, input=stdin, stdout=subprocess.PIPE,
                           stderr=subprocess.STDOUT, text=True, errors="replace", preexec_fn=pre)
        return p.returncode, p.stdout
    except subprocess.TimeoutExpired as e:
        out = e.stdout or ""
        if isinstance(out, bytes):
            out = out.decode(errors="replace")
        return 124, out + "\n[timeout after %ss]" % timeout


# ---------------------------------------------------------------------------------------------
# Coq side
# ---------------------------------------------------------------------------------------------

def static_gate():
    """Refuse admits / axioms / disabled checks anywhere in the development."""
    bad = []
    pat = re.compile(r"\b(Admitted|admit|Axiom|Axioms|Parameter|Parameters|Conjecture|Hypothesis|Hypotheses|Variable|Variables)\b"
                     r"|Unset\s+Guard|bypass_check|type-in-type|impredicative-set|Admit\s+Obligations|Unset\s+Positivity|Unset\s+Universe")
    for root, _, files in os.walk(COQ):
        for f in files:
            if not f.endswith(".v"):
                continue
            path = os.path.join(root, f)
            txt = open(path, errors="replace").read()
            # strip comments (non-nested is enough: we avoid nested comments in sources)
            txt2 = strip_comments(txt)
            depth = 0
            for ln, line in enumerate(txt2.split("\n"), 1):
                if re.match(r"\s*Section\b", line):
                    depth += 1
                m = pat.search(line)
                if m:
                    word = m.group(0)
                    if word.split()[0] in ("Variable", "Variables", "Hypothesis", "Hypotheses") and depth > 0:
                        pass  # section-local
                    else:
                        bad.append("%s:%d: %s" % (os.path.relpath(path, VERIF), ln, line.strip()))
                if re.match(r"\s*End\b", line) and depth > 0:
                    depth -= 1
    proj = open(os.path.join(COQ, "_CoqProject")).read()
    if re.search(r"type-in-type|impredicative-set|-noinit", proj):
        bad.append("_CoqProject passes a forbidden flag")
    return bad


def strip_comments(txt):
    out = []
    i, depth, n = 0, 0, len(txt)
    instr = False
    while i < n:
        if depth == 0 and txt[i] == '"':
            instr = not instr
            out.append(txt[i]); i += 1; continue
        if not instr and txt.startswith("(*", i):
            depth += 1; i += 2; continue
        if not instr and depth > 0 and txt.startswith("*)", i):
            depth -= 1; i += 2; continue
        if depth == 0:
            out.append(txt[i])
        elif txt[i] == "\n":
            out.append("\n")
        i += 1
    return "".join(out)


def ensure_makefile():
    mk = os.path.join(COQ, "Makefile")
    proj = os.path.join(COQ, "_CoqProject")
    if not os.path.exists(mk) or os.path.getmtime(mk) < os.path.getmtime(proj):
        rc, out = run(["coq_makefile", "-f", "_CoqProject", "-o", "Makefile"], cwd=COQ, timeout=120)
        if rc != 0:
            raise RuntimeError("coq_makefile failed: " + out)


def coq_make(targets, timeout=1500, clean=False):
    """make the given .vo targets (with their dependencies). Returns (ok, log)."""
    ensure_makefile()
    if clean:
        run(["make", "clean"], cwd=COQ, timeout=300)
        ensure_makefile()
    rc, out = run(["make", "-j16"] + targets, cwd=COQ, timeout=timeout)
    return rc == 0, out


THM_RE = re.compile(r"^\s*(Theorem|Lemma|Example|Corollary)\s+([A-Za-z0-9_']+)", re.M)


# the compiled evaluators the generated case files of each property import (rebuilt with the proofs, so that they are never
# stale with respect to regenerated files)
CORR_VO = {
    "C01": ["Corr01.vo"], "C02": ["Corr02.vo"], "C03": ["Corr02.vo"], "C09": ["Corr02.vo"], "C10": ["Corr02.vo"], "C19": ["Corr02.vo"],
    "C13": ["Corr02.vo", "Corr08.vo", "Unrolled.vo"], "C04": ["Corr04.vo"], "C06": ["Corr06.vo"], "C07": ["Corr07.vo"], "C08": ["Corr08.vo"],
    "C14": ["Corr14.vo"], "C15": ["Corr14.vo"], "C16": ["Corr16.vo"], "C18": ["Corr18.vo"],
}


def props_check(pid, extra_files=()):
    """Compile Props/<pid>.v afresh, capture Print Assumptions. Returns dict with obligations, discharged, failed, log."""
    rel = "Props/%s.v" % pid
    path = os.path.join(COQ, rel)
    src = strip_comments(open(path).read())
    thms = [(m.group(2), src[:m.start()].count("\n") + 1) for m in THM_RE.finditer(src)]
    n_print = len(re.findall(r"Print\s+Assumptions", src))
    # dependencies first
    ok, out = coq_make([rel + "o"] + CORR_VO.get(pid, []))
    res = {"theorems": [t for t, _ in thms], "obligations": len(thms), "discharged": 0, "failed": [], "log": out,
           "assumptions": []}
    if not ok:
        # find which file/line failed
        m = re.search(r'File "\./([^"]+)", line (\d+)', out)
        failed_in = m.group(1) if m else "?"
        line = int(m.group(2)) if m else 0
        if failed_in == rel:
            done = [t for t, l in thms if l < line]
            cur = done[-1] if done else "?"
            # the failing theorem is the last one starting before the error line
            res["discharged"] = max(0, len(done) - 1)
            res["failed"] = [cur]
        else:
            res["failed"] = ["%s:%d (dependency of %s)" % (failed_in, line, rel)]
        return res
    # recompile the Props file itself to capture Print Assumptions output (make may have been up to date)
    rc, out2 = run(["coqc", "-Q", ".", "GMK", rel], cwd=COQ, timeout=600)
    res["log"] += "\n" + out2
    if rc != 0:
        res["failed"] = ["recompile of %s failed" % rel]
        return res
    closed = out2.count("Closed under the global context")
    axioms = []
    for m in re.finditer(r"Axioms:\n((?:.+\n?)+?)(?=\n\S|\Z)", out2):
        for l in m.group(1).split("\n"):
            mm = re.match(r"^([A-Za-z0-9_.']+)\s*:", l)
            if mm:
                axioms.append(mm.group(1))
    res["assumptions"] = sorted(set(axioms))
    bad = [a for a in axioms if a not in ALLOWED_AXIOMS]
    if bad:
        res["failed"] = ["axioms not allowed: " + ", ".join(sorted(set(bad)))]
        return res
    if closed + (1 if axioms else 0) < n_print:
        res["failed"] = ["Print Assumptions output incomplete (%d of %d)" % (closed, n_print)]
        return res
    res["discharged"] = len(thms)
    return res


def coqchk(pid, timeout=3300):
    """Thorough tier: re-check the compiled closure of Props/<pid>.vo with the independent checker and report the axioms it finds.
    Cached by the hash of every .v file of the development. Returns (ok, summary)."""
    h = hashlib.sha1()
    for root, _, files in sorted(os.walk(COQ)):
        for f in sorted(files):
            if f.endswith(".v"):
                h.update(open(os.path.join(root, f), "rb").read())
    cache = os.path.join(BUILD, "coqchk_%s_%s.txt" % (pid, h.hexdigest()[:12]))
    if os.path.exists(cache):
        out = open(cache).read()
    else:
        rc, out = run(["coqchk", "-silent", "-o", "-Q", ".", "GMK", "GMK.Props.%s" % pid], cwd=COQ, timeout=timeout)
        out = "rc=%d\n%s" % (rc, out)
        if rc in (0, 1):
            open(cache, "w").write(out)
    m = re.search(r"CONTEXT SUMMARY(.*)", out, re.S)
    summ = re.sub(r"\s+", " ", m.group(1)).strip() if m else out[-400:]
    ok = out.startswith("rc=0") and "* Axioms: <none>" in out and "type-in-type: <none>" in out \
        and "unsafe (co)fixpoints: <none>" in out and "positivity is assumed: <none>" in out
    return ok, summ


def coq_eval_cases(path, timeout=900):
    """Evaluate a generated cases file; returns (ok, mismatching indices, log)."""
    d = os.path.dirname(path)
    rc, out = run(["coqc", "-Q", COQ, "GMK", os.path.basename(path)], cwd=d, timeout=timeout)
    if rc != 0:
        return False, [], out
    m = re.search(r"M\s*=\s*(.*?):\s*list nat", out, re.S)
    if not m:
        return False, [], out
    idx = [int(x) for x in re.findall(r"\d+", m.group(1).replace("%nat", ""))]
    return True, idx, out


# ---------------------------------------------------------------------------------------------
# Go side
# ---------------------------------------------------------------------------------------------

def build_harness(race=False):
    os.makedirs(BUILD, exist_ok=True)
    shutil.copy(os.path.join(REPO, "go.sum"), os.path.join(HARNESS, "go.sum"))
    outbin = os.path.join(BUILD, "vharness" + ("_race" if race else ""))
    env = dict(GOENV)
    cmd = ["go", "build", "-tags", "verif"]
    if race:
        env["CGO_ENABLED"] = "1"
        cmd.append("-race")
    rc, out = run(cmd + ["-o", outbin, "."], cwd=HARNESS, timeout=900, env=env)
    return rc == 0, out, outbin


def run_harness(binpath, pid, args, timeout=600, mem_kb=None, env=None):
    e = dict(GOENV)
    if env:
        e.update(env)
    return run([binpath, pid] + args, cwd=BUILD, timeout=timeout, env=e, mem_kb=mem_kb)


# ---------------------------------------------------------------------------------------------
# Source pins: the hand-written models were validated against these exact sources (comments / formatting aside).
# A change to a pinned file is NOT a violation; it makes the quick check as deep as the thorough one for the
# properties whose modelled code it touches (the tie of a hand model is sampling, so more samples when the code moved).
# ---------------------------------------------------------------------------------------------
PINS = os.path.join(VERIF, "pins.json")
_FAMILY = {
    "micro": ["micro", "mini", "sexpr/ast", "concurrent", "example/peano"],
    "gomini": ["gomini", "gomini/reflecttools", "gomini/concato", "gomini/regex", "sexpr/ast"],
    "sexpr": ["sexpr", "sexpr/ast", "sexpr/lexer", "sexpr/parser", "sexpr/token", "sexpr/errors", "sexpr/util"],
}
_PROP_FAMILIES = {
    "C01": ["micro"], "C02": ["micro"], "C03": ["micro"], "C09": ["micro"], "C10": ["micro"], "C19": ["micro"],
    "C07": ["micro", "gomini"], "C08": ["micro", "gomini"], "C13": ["micro", "gomini"],
    "C04": ["gomini"], "C05": ["gomini"], "C06": ["gomini"], "C11": ["gomini", "micro"], "C12": ["gomini"],
    "C17": ["gomini"], "C18": ["gomini"], "C14": ["sexpr"], "C15": ["sexpr"], "C16": ["sexpr"],
}


def pinned_files(pid):
    files = set()
    for fam in _PROP_FAMILIES.get(pid, []):
        for d in _FAMILY[fam]:
            full = os.path.join(REPO, d)
            if not os.path.isdir(full):
                continue
            for f in sorted(os.listdir(full)):
                if (f.endswith(".go") and not f.endswith("_test.go")) or f.endswith(".bnf"):
                    files.add(os.path.join(d, f))
    for l in open(os.path.join(VERIF, "properties.jsonl")):
        p = json.loads(l)
        if p["id"] == pid:
            files.update(p.get("anchors", {}).get("files", []))
    return sorted(files)


def source_hashes(files):
    binp = os.path.join(BUILD, "srcpin")
    if not os.path.exists(binp) or os.path.getmtime(binp) < os.path.getmtime(os.path.join(HARNESS, "cmd", "srcpin", "main.go")):
        rc, out = run(["go", "build", "-o", binp, "./cmd/srcpin"], cwd=HARNESS, timeout=300, env=GOENV)
        if rc != 0:
            return None
    rc, out = run([binp, REPO] + files, cwd=VERIF, timeout=120)
    if rc != 0:
        return None
    res = {}
    for l in out.splitlines():
        parts = l.split(" ", 1)
        if len(parts) == 2:
            res[parts[1]] = parts[0]
    return res


def source_changes(pid):
    """Files of this property's pinned set whose content differs from pins.json (added / removed files included)."""
    if not os.path.exists(PINS):
        return []
    pins = json.load(open(PINS))
    files = pinned_files(pid)
    cur = source_hashes(files)
    if cur is None:
        return ["(source hashes could not be computed)"]
    changed = [f for f in files if pins.get(f) != cur.get(f)]
    gone = [f for f in pins if f not in cur and any(f.startswith(d + "/") and "/" not in f[len(d) + 1:]
                                                   for fam in _PROP_FAMILIES.get(pid, []) for d in _FAMILY[fam])]
    return sorted(set(changed + gone))


# ---------------------------------------------------------------------------------------------
# Findings, replays, evidence
# ---------------------------------------------------------------------------------------------

def load_known():
    if not os.path.exists(KNOWN):
        return []
    return json.load(open(KNOWN))


def match_known(pid, text):
    """A violation is 'known' if a kind=known entry of this property has all its match substrings in text."""
    for k in load_known():
        if k.get("property") != pid or k.get("kind") != "known":
            continue
        subs = k.get("match", [])
        if subs and all(s in text for s in subs):
            return k
    return None


def write_replay(pid, payload):
    os.makedirs(REPLAYS, exist_ok=True)
    blob = json.dumps(payload, indent=1, sort_keys=True)
    h = hashlib.sha1(blob.encode()).hexdigest()[:10]
    path = os.path.join(REPLAYS, "%s-%s.json" % (pid, h))
    with open(path, "w") as f:
        f.write(blob)
    return path


def write_evidence(pid, tier, seed, coverage, assumptions, wall, violations):
    os.makedirs(EVIDENCE, exist_ok=True)
    ev = {"property_id": pid, "tier": tier, "seed": seed, "level": "proof", "coverage": coverage,
          "assumptions": assumptions, "wall_s": round(wall, 2), "violations": violations}
    with open(os.path.join(EVIDENCE, pid + ".json"), "w") as f:
        json.dump(ev, f, indent=1)
