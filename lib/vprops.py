"""Per-property configuration of the check driver."""
import vcommon as vc

PROPS = {}

PROPS["C16"] = dict(
    model="SexprStruct.v",
    harness=[dict(name="main", n_quick=1500, n_thorough=1500, shards_quick=1, shards_thorough=12)],
    trusted=["sort.Sort (stdlib) is trusted: the harness checks its output to be a Compare-sorted permutation, "
             "and C16_sort_canonical shows any such output is the model's insertion sort",
             "float64 values are represented by an order-isomorphic integer key (sign-magnitude of the IEEE bits, +-0 identified); "
             "the harness self-tests monotonicity of the key on its float pool; NaN excluded as in the property"],
    assumptions=["reflect.DeepEqual on *SExpr is structural equality of the pointed-to trees (floats by ==)",
                 "strings.Compare is bytewise lexicographic"],
    explanation="theorems over the struct-level model of Compare/Equal/Sort; model tied to sexpr/ast by differential execution",
)

PROPS["C01"] = dict(
    model="Unify.v",
    harness=[dict(name="main", n_quick=2500, n_thorough=2500, shards_quick=1, shards_thorough=12)],
    trusted=["symbols/strings are interned injectively to numbers by the harness; variables are identified by Index alone (as assv/Variable.Equal do)",
             "the harness's independent reference unifier (direct oracle for verdict / most-general)"],
    assumptions=["terms are those built by the exported ast constructors; start substitutions are acyclic with distinct keys",
                 "uint64 counters do not wrap (2^64 fresh variables are unreachable)"],
    explanation="soundness / most-general / failure / goal theorems over the fuelled transcription of micro's unify; tie by differential execution of unify, EqualO, walk, occurs, exts, walkStar (hook micro/export_verif.go)",
)
