"""Per-property configuration of the check driver."""
import vcommon as vc
import gens

PROPS = {}

PROPS["C16"] = dict(
    # the compared observables are exactly what the property fixes (verdict, unifier up to renaming, resolved answer, order, call log):
    # a disagreement with the proved model on a case is a failing input
    mismatch_is_input=True,
    model="SexprTypes.v + gen/CompareGen.v (the Compare methods, REGENERATED from sexpr/ast/compare.go) + SexprStruct.v",
    gens=[gens.gen_compare],
    harness=[dict(name="main", n_quick=1500, n_thorough=1500, shards_quick=1, shards_thorough=12)],
    trusted=["sort.Sort (stdlib) is trusted: the harness checks its output to be a Compare-sorted permutation, "
             "and C16_sort_canonical shows any such output is the model's insertion sort",
             "float64 values are represented by an order-isomorphic integer key (sign-magnitude of the IEEE bits, +-0 identified); "
             "the harness self-tests monotonicity of the key on its float pool; NaN excluded as in the property"],
    assumptions=["reflect.DeepEqual on *SExpr is structural equality of the pointed-to trees (floats by ==)",
                 "strings.Compare is bytewise lexicographic"],
    explanation="theorems over the struct-level model of Compare/Equal/Sort; model tied to sexpr/ast by differential execution",
)

PROPS["C01"] = dict(
    # the compared observables are exactly what the property fixes (verdict, unifier up to renaming, resolved answer, order, call log):
    # a disagreement with the proved model on a case is a failing input
    mismatch_is_input=True,
    model="Unify.v = gen/MicroGen.v (translated from micro/walk.go, exts.go, unify.go on every run; MicroGenSpec.v)",
    gens=[gens.gen_micro],
    harness=[dict(name="main", n_quick=2500, n_thorough=2500, shards_quick=1, shards_thorough=12)],
    trusted=["symbols/strings are interned injectively to numbers by the harness; variables are identified by Index alone (as assv/Variable.Equal do)",
             "the harness's independent reference unifier (direct oracle for verdict / most-general)"],
    assumptions=["terms are those built by the exported ast constructors; start substitutions are acyclic with distinct keys",
                 "uint64 counters do not wrap (2^64 fresh variables are unreachable)"],
    explanation="soundness / most-general / failure / goal theorems over the fuelled transcription of micro's unify; tie by differential execution of unify, EqualO, walk, occurs, exts, walkStar (hook micro/export_verif.go)",
)

_PROG_TRUSTED = ["goal programs are interpreted on the Go side by the harness (build: goal AST -> real micro/mini combinators; relation calls eta-expanded as in the repository's own relations)",
                 "the harness's depth-bounded reference search (direct oracle for soundness / answer multisets)",
                 "correspondence evaluates the model with constant unify fuel 400 (a case where that is not enough shows EvErr and is reported); the theorems use the proved-sufficient ufuel",
                 "a mature cell's lazily computed tail is modelled as the already computed tail (pure, finite chains)"]
_PROG_ASSUME = ["relation bodies are guard-shaped (Zzz or conj+/disj+/conde head), every called relation is defined",
                "start states are consistent (acyclic substitution, all variables below the counter)"]
for _pid in ("C02", "C03", "C09"):
    PROPS[_pid] = dict(
        model="Stream.v",
        harness=[dict(name="main", n_quick=1200, n_thorough=2500, shards_quick=1, shards_thorough=10, timeout=1500)],
        trusted=_PROG_TRUSTED, assumptions=_PROG_ASSUME,
        explanation="theorems over the deep-embedded goal language and the stream/thunk search model; tie: cell traces of generated goal programs run with the real combinators",
    )
PROPS["C09"]["gens"] = [gens.gen_mini, gens.gen_loops]
PROPS["C09"]["trusted"] = PROPS["C09"]["trusted"] + ["the translator harness/cmd/genmicro (-mini: mini's n-ary combinators as functions from goal lists to goal terms, primitives of GoLiteM.v; -loops: ifThenElseLoop / onceLoop over the stream model, primitives of GoLiteS.v, among them the reading of the closure `Suspension(func() { return SELF(.., cdr) })` as the model's thunk over the immature cell whose CarCdr bound cdr)"]
PROPS["C09"]["model"] = "Stream.v, Comb.v (conj+/disj+/conde = gen/MiniGen.v, translated from mini/disj.go, conj.go, conde.go on every run; MiniGenSpec.v; IfThenElseO/OnceO and their loops = gen/LoopsGen.v, translated from mini/ifthenelse.go, once.go on every run; StreamLoopsSpec.v)"
PROPS["C03"]["gens"] = [gens.gen_stream]
PROPS["C03"]["model"] = "Stream.v (take = gen/StreamGen.v, translated from micro/stream.go on every run; StreamGenSpec.v)"

_GOMINI_TRUSTED = ["Go values are encoded as terms by the harness (variables by creation order, nil, scalar pointers by content, struct pointers and slices as tagged lists); "
                   "the encoding is injective (C04_encoding_faithful) and the harness reads bindings back through the exported API (CastVar/Get)",
                   "gomini's concurrent engine (goroutines, channels, WaitGroup, context) is Go runtime: modelled, not verified"]
PROPS["C04"] = dict(
    # the compared observables are exactly what the property fixes (verdict, unifier up to renaming, resolved answer, order, call log):
    # a disagreement with the proved model on a case is a failing input
    mismatch_is_input=True,
    model="GCore.v = gen/GominiGen.v (translated from gomini/unify.go on every run; GominiGenSpec.v) over Reflect.v + GVal.v (injective encoding; gunify = unify on encodings)",
    gens=[gens.gen_gomini],
    harness=[dict(name="main", n_quick=1500, n_thorough=2500, shards_quick=1, shards_thorough=10)],
    trusted=_GOMINI_TRUSTED + ["the harness's independent reference unifier (oracle for verdict / most-general / content independence)"],
    assumptions=["every EqualO compares two values of one static Go type (guaranteed by the generic signature)",
                 "start bindings are acyclic"],
    explanation="gomini.EqualO is modelled as the verified unification algorithm on the injective term encoding of Go values; tie: differential execution through the exported gomini API under both placeholder policies",
)

PROPS["C18"] = dict(
    # the compared observables are exactly what the property fixes (verdict, unifier up to renaming, resolved answer, order, call log):
    # a disagreement with the proved model on a case is a failing input
    mismatch_is_input=True,
    model="Reflect.v",
    harness=[dict(name="main", n_quick=2000, n_thorough=4000, shards_quick=1, shards_thorough=8)],
    trusted=["Go values of the harness's type family are encoded as the model's gval by a type switch (no reflect); Go map iteration order is random: map laws are stated up to permutation",
             "package reflect itself (ValueOf/Kind/Elem/Field/Index/MapKeys/Set/MakeSlice/MakeMap semantics) is modelled, not verified"],
    assumptions=["exported fields only; pointers to interfaces excluded; types are not modelled (Set on a non-assignable value is outside the model)"],
    explanation="case-by-case model of reflecttools.Map/Any/ZipReduce with call logs; structural laws proved over the model; tie by differential execution with call-logging functions and freshness/no-mutation oracles",
)

PROPS["C05"] = dict(
    model="AddrHeap.v",
    harness=[dict(name="main", n_quick=40, n_thorough=200, shards_quick=1, shards_thorough=4, coq=False, timeout=1500)],
    trusted=_GOMINI_TRUSTED + ["what the real Go collector and allocator do is runtime behaviour: the theorem covers every collector that frees only unreachable objects and every allocator that returns only non-live addresses",
                              "the model's one abstraction ('the placeholder is reachable from a state that lists it') is probed on the real code with runtime.SetFinalizer, forced runtime.GC and debug.SetGCPercent sweeps"],
    assumptions=["Go's GC never frees a reachable object and never moves heap objects (true of the current runtime)"],
    explanation="invariant proof over an address/GC/allocator LTS for every interleaving; refutation witness for the numbers-only representation; finalizer / misclassification / answer-multiset probes on the real code",
)

PROPS["C08"] = dict(
    # the compared observables are exactly what the property fixes (verdict, unifier up to renaming, resolved answer, order, call log):
    # a disagreement with the proved model on a case is a failing input
    mismatch_is_input=True,
    model="Reify.v (walkstar/reifys = gen/MicroGen.v, translated from micro/walk.go, reify.go on every run); GCore.v (grewrite: transcription of gomini rewrite over Reflect.v)",
    gens=[gens.gen_micro, gens.gen_gomini],
    harness=[dict(name="main", n_quick=1500, n_thorough=2500, shards_quick=1, shards_thorough=8),
             # reification from several goroutines at once (and the gomini rewrites, which run on search goroutines) under the race detector
             dict(name="race", race=True, n_quick=60, n_thorough=300, shards_quick=1, shards_thorough=2, coq=False, timeout=1500)],
    trusted=_PROG_TRUSTED + _GOMINI_TRUSTED,
    assumptions=["reified names are the ordinary symbols _k (a user symbol _k is indistinguishable from a reified variable)"],
    explanation="model of reifyS/ReifyIntVarFromState/MKReify/Run with first-occurrence renaming theorems; gomini.Run results checked for dynamic type, resolvedness against the reference unifier, caller terms unmodified",
)
for _pid, _unit in (("C13", "mini"), ("C19", "peano")):
    PROPS[_pid] = dict(
        model="gen/Rel*.v (regenerated) + Stream.v",
        gens=[gens.gen_rels],
        harness=[dict(name="main", n_quick=400, n_thorough=1200, shards_quick=1, shards_thorough=10, timeout=1500, coq_timeout=1500)],
        trusted=_PROG_TRUSTED + ["the translator harness/cmd/genrels (Go relation DSL -> goal AST); a wrong translation would also show in the correspondence, since the REAL relations are run against the translated bodies"],
        assumptions=_PROG_ASSUME + ["MapOUnrolled draws its variables from ast.NewVariable (random 64-bit index): modelled as fresh variables, distinctness assumed"],
        explanation="denotation theorems about the relation bodies regenerated from the Go source on every run; cell traces of the real relations in every argument mode against the translated bodies; list/arithmetic oracles",
    )

PROPS["C13"]["harness"] = PROPS["C13"]["harness"] + [
    # the unrolled variants (Go meta-programs over a ground list): against the recursive relations and against coq/Unrolled.v
    dict(name="unrolled", mode="unrolled", n_quick=300, n_thorough=3000, shards_quick=1, shards_thorough=4, timeout=1500, coq_timeout=1500),
    # gomini's ConcatO / PrependO in every argument mode, both placeholder policies: against mini.AppendO / ConsO (engines agree) and the list oracle
    dict(name="concato", mode="concato", n_quick=60, n_thorough=600, shards_quick=4, shards_thorough=8, coq=False, timeout=2400),
]

PROPS["C17"] = dict(
    model="gen/RelRegex.v (regenerated)",
    gens=[gens.gen_rels],
    harness=[dict(name="main", n_quick=70, n_thorough=400, shards_quick=1, shards_thorough=6, coq=False, timeout=2400),
             # exhaustive small scope (all expressions with <= 4 nodes, 5 in the thorough tier, every relation, strings <= 2):
             # the failing-input search when a proof over the regenerated relation bodies breaks; always run in the thorough tier
             dict(name="sweep", mode="sweep", when="proof_failed", n_quick=1, n_thorough=1, shards_quick=16, shards_thorough=16,
                  coq=False, timeout=3000)],
    trusted=_GOMINI_TRUSTED + ["the translator harness/cmd/genrels; regular expressions are encoded by constructor (EmptySet/EmptyStr/Char/Or/Concat/Star), which is unification-equivalent to the 4-field Go struct for values built by the package's constructor functions",
                              "the harness's direct Brzozowski matcher and language-equivalence check (bisimulation on ACI-normalised derivatives, bounded) used as oracle"],
    assumptions=["alphabet {a,b}; ground regular expressions"],
    explanation="denotation theorems about the regex relation bodies regenerated from the Go source; all answers of the real relations compared with a direct derivative matcher under both placeholder policies",
)

PROPS["C10"] = dict(
    model="ConcDisj.v, ConcConj.v",
    harness=[dict(name="main", n_quick=500, n_thorough=1200, shards_quick=1, shards_thorough=6, timeout=1500),
             dict(name="race", race=True, n_quick=60, n_thorough=200, shards_quick=1, shards_thorough=2, coq=False, timeout=1500)],
    trusted=_PROG_TRUSTED + ["the scheduler's choices (arrival order of worker messages, select picks) are explicit inputs of the model; real schedules are sampled with injected delays and GOMAXPROCS",
                             "data-race freedom is a property of the Go memory model that the model cannot exhibit: both tiers run (part of) the harness under the race detector as supporting validation"],
    assumptions=_PROG_ASSUME + ["argument goals are purely relational (needed for ConjPlus's early nil)"],
    explanation="order-independence theorems with the arrival permutation / select picks as universally quantified inputs; tie: cell traces of the concurrent combinators against the sequential model under injected delays",
)

PROPS["C11"] = dict(
    model="Leak.v",
    harness=[dict(name="main", n_quick=70, n_thorough=140, shards_quick=1, shards_thorough=3, coq=False, timeout=2400)],
    trusted=_GOMINI_TRUSTED + ["'within bounded time' is modelled as 'within a bounded number of steps'; wall-clock behaviour is runtime: the harness measures goroutine counts 400ms and 550ms after the search ended, each case in its own process",
                              "the cancel model treats post-cancel channel operations as completing at once (select with ctx.Done), and assumes relation bodies have no call on their spine (guarded)"],
    assumptions=["goal evaluations handed to the concurrent combinators terminate"],
    explanation="LTS models of the ConjPlus/DisjPlus message protocol, of post-cancel execution and of the limiter's ticker, with schedules as label lists; positive theorems for the repaired parameters and refutations for the others; goroutine-count deltas on the real code",
)
PROPS["C12"] = dict(
    model="Limiter.v",
    harness=[dict(name="main", n_quick=28, n_thorough=100, shards_quick=1, shards_thorough=3, coq=False, timeout=2400)],
    trusted=_GOMINI_TRUSTED + ["timing (the 10ms refill period against the search duration) is runtime: the harness bounds completion by 8s per search"],
    assumptions=["finite task trees whose writes are consumed"],
    explanation="permit/ticker LTS composed with a task tree whose parents hold a permit while waiting for children: non-blocking release never blocks, every schedule terminates with the unlimited multiset of answers; refutation for the blocking release; real searches under max in 1..100",
)

_SEXPR_TRUSTED = ["the translator lib/gen_tables.py (gocc tables and sexpr.bnf -> plain Coq data); a wrong transcription would also show in the correspondence, since the REAL lexer and parser are run against the transcribed tables and against the bnf-derived specification lexer / recursive descent",
                  "strconv.Unquote and strconv.ParseFloat are oracle inputs recorded per literal by the harness; strconv.ParseInt is modelled; strconv.Quote/FormatInt (printing) are recorded per atom and checked to lex as one token of the atom's class",
                  "utf8.DecodeRune is modelled (Utf8.v) and correspondence-checked on invalid UTF-8",
                  "ast.NewVariable draws a random Index: variables are compared by name only"]
PROPS["C14"] = dict(
    model="LexDriver.v, LRDriver.v over gen/Tables.v (regenerated); Grammar.v over gen/GrammarGen.v (regenerated from sexpr.bnf)",
    gens=[gens.gen_tables],
    extra_checks=[gens.gocc_regeneration],
    harness=[dict(name="main", n_quick=1500, n_thorough=3000, shards_quick=1, shards_thorough=8, timeout=1500, coq_timeout=1500),
             # Parse called from several goroutines at once (c14FunctionOfInput) under the race detector
             dict(name="race", race=True, n_quick=300, n_thorough=1500, shards_quick=1, shards_thorough=2, coq=False, timeout=1500)],
    trusted=_SEXPR_TRUSTED,
    assumptions=["inputs are Go strings (arbitrary bytes)"],
    explanation="validator-based proofs over the tables transcribed from /repo on every run: lexer progress/totality, LR safety (no panic), termination, soundness w.r.t. the grammar transcribed from sexpr.bnf; tie: sexpr.Parse and lexer.Scan on generated strings against the table drivers AND against the bnf-derived regular-expression lexer + recursive descent",
)
PROPS["C15"] = dict(
    model="Print.v + the C14 models",
    gens=[gens.gen_tables],
    harness=[dict(name="main", n_quick=1200, n_thorough=2500, shards_quick=1, shards_thorough=8, timeout=1500, coq_timeout=1500)],
    trusted=_SEXPR_TRUSTED,
    assumptions=["atoms are printable: grammar symbols, strings, int64, one-letter variables (floats print in a form that lexes as a symbol and are excluded, as in the property)"],
    explanation="token-level model of SExpr.String; round trip through the grammar; tie: String() -> Parse -> String() on generated expressions, and stability on accepted inputs",
)

PROPS["C07"] = dict(
    model="MemModel.v (memory-level: heap objects, slices as (array,len,cap), maps, stream cells; carcdr = gen/CellGen.v, CarCdr translated from micro/stream.go on every run into the statement language of CellLang.v; CellLangSpec.v)",
    gens=[gens.gen_cell],
    harness=[dict(name="main", n_quick=600, n_thorough=1500, shards_quick=1, shards_thorough=8, timeout=1500),
             dict(name="race", race=True, n_quick=80, n_thorough=300, shards_quick=1, shards_thorough=2, coq=False, timeout=1500)],
    mismatch_is_input=True,
    trusted=_PROG_TRUSTED + _GOMINI_TRUSTED + ["the translator harness/cmd/gencell (CarCdr -> a term of the statement language of CellLang.v) and that language's interpreter over the heap model (a nil receiver or a nil closure is a panic; a closure run allocates at most one new cell)",
                                                "that the Go functions contain no other writes than the ones transcribed in MemModel.v is what the harness checks: every value published earlier (input state, earlier answers, earlier versions of a history) is re-read after later operations and compared with what it showed when it was published",
                                                "gomini goal trees are evaluated concurrently; both tiers repeat (part of) the harness under the race detector (supporting validation, not a theorem)"],
    assumptions=["Substitutions.String() (which sorts its receiver in place) is not a goal; the harness never calls it",
                 "bindings are observed as the sequence of pairs (micro) / the map (gomini), not as memory addresses"],
    explanation="invariant proofs over a memory-level model (every write of an operation targets an object allocated by that operation; earlier views unchanged; siblings independent; memoised stream cells; refutations for append-based exts and in-place Set); tie: histories of the real exts/Set/NewVar against the model's views, snapshot oracles on goal programs in micro, gomini and concurrent",
)

PROPS["C06"] = dict(
    model="GominiSeq.v (sequential reference), GominiRuns.v (all schedules), ChanKernel.v (channel / WaitGroup protocol)",
    harness=[dict(name="main", n_quick=80, n_thorough=250, shards_quick=2, shards_thorough=6, timeout=2400, coq_timeout=1500),
             dict(name="race", race=True, n_quick=12, n_thorough=60, shards_quick=1, shards_thorough=2, coq=False, timeout=2400)],
    trusted=_PROG_TRUSTED + _GOMINI_TRUSTED + ["a schedule is a derivation of the inductive relation Runs (one rule per combinator of operators.go / ifthenelse.go): 'for every schedule' is a universal quantifier over derivations; the real Go scheduler, channel implementation and memory model are runtime and are sampled by sweeping GOMAXPROCS, injected yields / sleeps at goal boundaries, placeholder policy and routine limit",
                                                "goal programs are built on the Go side over *ast.SExpr terms with the real EqualO / ConjO / DisjO / ExistO / IfThenElseO; relation calls are eta-expanded Go closures as the repository's own gomini relations are"],
    assumptions=["finite searches: the sequential search tree is finite (gseq = Some l); infinite searches are covered by the partial-run soundness theorem and the first-n-answers oracle",
                 "a relation that recurses without passing through a combinator (no goroutine boundary) overflows the Go stack by construction and is outside the programs generated"],
    explanation="multiset theorem for every schedule (Runs vs gseq), soundness of every partial run, safety + progress of the channel/WaitGroup kernel of a DisjO node with refutation for Add-in-child; tie: gomini.Run on generated programs under schedule sweeps against gseq evaluated in Coq and a reference search; closed-after-last; first-n answers of infinite searches checked against the formula",
)
