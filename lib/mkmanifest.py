#!/usr/bin/env python3
"""Regenerates MANIFEST.json from lib/vprops.py + lib/manifest_text.py (so it is always valid and current)."""
import json, os, sys
sys.path.insert(0, os.path.dirname(os.path.abspath(__file__)))
import vprops, manifest_text as mt

V = os.path.dirname(os.path.dirname(os.path.abspath(__file__)))
ids = [json.loads(l)["id"] for l in open(os.path.join(V, "properties.jsonl"))]
checks = []
na = []
for pid in ids:
    if pid in vprops.PROPS and pid in mt.TEXT:
        t = mt.TEXT[pid]
        checks.append({
            "property_id": pid,
            "quick_cmd": "./check %s --tier quick" % pid,
            "thorough_cmd": "./check %s --tier thorough" % pid,
            "evidence_file": "/verif/evidence/%s.json" % pid,
            "replay_cmd_template": "./check %s --replay {path}" % pid,
            "engine": "coq",
            "level_claimed": {"category": "proof", "text": t["text"], "design_ref": t.get("design_ref", "DESIGN.md section 4, " + pid)},
            "level_note": t["note"],
            "technique": t["technique"],
        })
    else:
        na.append({"property_id": pid, "reason": mt.NA.get(pid, "not yet built in this round: no check is claimed until its model, theorems and harness exist")})
m = {
    "version": 1,
    "setup_cmd": "./setup.sh",
    "hooks": {
        "guard": "verif",
        "enable": "go build -tags verif (harness module /verif/harness with replace github.com/awalterschulze/gominikanren => /repo)",
        "baseline_off_cmd": "cd /repo && GOFLAGS=-mod=mod GOPROXY=off go test -vet=off -count=1 -timeout 25m ./...",
        "source_commits": mt.HOOK_COMMITS,
        "add_only": True,
    },
    "engines": [{"name": "coq", "path": "/verif/coq", "serves_properties": [c["property_id"] for c in checks],
                 "kind_free_text": "Coq 8.16.1 development (models, proofs, Props/*.v) + Go correspondence harness /verif/harness + translators /verif/harness/gen*"}],
    "checks": checks,
    "not_applicable": na,
    "notes": mt.NOTES,
}
json.dump(m, open(os.path.join(V, "MANIFEST.json"), "w"), indent=1)
print("MANIFEST.json: %d checks, %d not claimed" % (len(checks), len(na)))
