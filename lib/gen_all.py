#!/usr/bin/env python3
"""Runs every translator (generated Coq files under coq/gen) against /repo's working tree."""
import os, sys
sys.path.insert(0, os.path.dirname(os.path.abspath(__file__)))
import vprops
seen = set()
bad = 0
for pid, P in vprops.PROPS.items():
    for g in P.get("gens", []):
        if g in seen:
            continue
        seen.add(g)
        ok, msg = g()
        if not ok:
            print("translator failed:", msg)
            bad = 1
sys.exit(0)  # a failing translator is reported by the checks, not by setup
