"""Texts of MANIFEST.json per property."""
HOOK_COMMITS = ["42f5bf3"]
NOTES = ("Machine-checked proof in Coq 8.16.1. Each check rebuilds the Coq closure of coq/Props/<ID>.v, rebuilds the Go harness "
         "against /repo's working tree, runs implementation and Gallina model on the same generated cases and applies the violation "
         "protocol of DESIGN.md 2.4. known_findings.json lists genuine unrepaired defects (kind=known) and repaired ones (kind=fixed).")
NA = {}
TEXT = {}
TEXT["C16"] = dict(
    text="Theorems (Coq kernel, no axioms) over a struct-level model of ast.Compare/Equal/Sort that covers exotic structs: reflexive, "
         "zero iff DeepEqual, antisymmetric, transitive, total, Less is a strict weak order, two sorted permutations of one multiset are "
         "identical (canonical form). The model is tied to sexpr/ast on every run by differential execution on generated pairs/triples/slices "
         "and direct order-law oracles on all sub-expression triples.",
    note="trusted: Coq kernel + vm_compute; sort.Sort (its output is checked to be a sorted permutation); float64 represented by an "
         "order-isomorphic integer key (NaN excluded); the hand model is tied by sampling, not proof",
    technique="Coq proof (induction over the mutual SExpr/Pair structure, lawful three-way comparisons) + differential correspondence",
)

TEXT["C01"] = dict(
    text="Theorems (Coq kernel, no axioms) over a branch-by-branch transcription of micro's walk/occurs/exts/unify/EqualO with explicit "
         "recursion-depth fuel: on success the result is the old substitution with pairs appended, its solution set is exactly the set of "
         "unifiers of the two terms compatible with the old bindings (unifier + most general), Fail implies no finite unifier exists, the goal "
         "yields 0/1 states with the counter unchanged; stated for all terms, all substitutions and all fuel. The model is tied to the code on "
         "every run by differential execution (unify, EqualO, walk, occurs, exts, walkStar through a verif-tagged export file) and an "
         "independent reference-unifier oracle (verdict, unifier, most general up to renaming, earlier bindings kept, input not mutated).",
    note="trusted: Coq kernel + vm_compute; harness interning of symbols; the reference unifier used as oracle; the hand model is tied by sampling. "
         "Termination/acyclicity-preservation theorems (C01_total, C01_wf) are in UnifyWf.v when present",
    technique="Coq proof (induction on fuel, solution-set semantics of triangular substitutions) + differential correspondence",
)

_PROG_NOTE = ("trusted: Coq kernel + vm_compute; the harness's goal-AST interpreter (real combinators), its reference search and the Coq-side "
              "trace evaluation with constant unify fuel 400 (EvErr is reported, never accepted); mature cells' lazy tails modelled as computed tails; "
              "the hand model of Mplus/Bind/eval is tied by sampling (cell traces of generated programs), not by proof")
TEXT["C02"] = dict(
    text="Theorem C02_sound (Coq kernel, no axioms), for every goal program over the full combinator set (recursive relations, conj+/disj+/conde, "
         "ifte, once), every relation table, every consistent start state: every state at a finite position of the answer stream extends the "
         "start state, is consistent, and every valuation solving it makes the goal's formula (inductive logical reading Den) true; corollaries for "
         "take(n) and for unsatisfiable formulas. The stream/thunk search model is tied to micro/mini on every run by comparing exact cell traces "
         "(suspension / answer / end) of generated goal programs run with the real combinators, plus an independent reference-search oracle.",
    note=_PROG_NOTE,
    technique="Coq proof (strong induction on the number of forces, structural induction on the goal) + differential cell-trace correspondence",
)
TEXT["C03"] = dict(
    text="Theorems (Coq kernel, no axioms) for relational goals over guard-shaped relation tables: C03_complete - every solution of the formula is an "
         "instance of an answer at a finite position whatever sibling branches do (fair mplus/bind lemmas in both argument positions); "
         "C03_total_force - no force of a guarded program gets stuck; take(n) laws: at most n, fewer only if exhausted, exactly n when available, "
         "all for negative n iff finite, prefix of n+1, deterministic. Tie: exact cell traces + take(n) prefix/exact-n/determinism oracles on the "
         "real code, with process isolation so that a diverging implementation is an observation.",
    note=_PROG_NOTE + "; multiplicities in infinite streams are stated at set level (InStream), multisets for finite streams",
    technique="Coq proof (induction on the Den derivation with fairness lemmas; induction on take fuel) + differential cell-trace correspondence",
)
TEXT["C09"] = dict(
    text="Theorems (Coq kernel, no axioms): DisjPlusNoZzz is the nested binary disjunction (stream equality); ConjPlusNoZzz has the identical cell trace as "
         "nested Conj (bisimulation up to thunk labels); the Zzz variants and Conde have the same answers (and for finite streams permutation-equal answer "
         "lists); empty conj succeeds once, empty disj fails; ifte = c-and-then-t with all answers of c when c has an answer, = e when c fails finitely, "
         "silent when c is silent; once = the first answer, at most one. Tie: cell traces of n-ary programs with failing/diverging/infinite arguments in "
         "every position, and the implementation against its own macro expansion.",
    note=_PROG_NOTE,
    technique="Coq proof (stream bisimulation, membership lemmas for mplus/bind, induction on loop derivations) + differential correspondence",
)

TEXT["C04"] = dict(
    text="gomini.EqualO on pointer-shaped Go values is modelled as the verified micro unification algorithm applied to an injective term encoding of the "
         "values (variables by registration, never by placeholder contents): theorems C04_mgu (solutions of the result = unifiers compatible with the "
         "earlier bindings), C04_preserves, C04_resolve_equal, C04_fail, C04_total, C04_wf, C04_encoding_faithful (Coq kernel, no axioms). The tie is "
         "differential execution through the exported gomini API (NewVar/Set/EqualO/CastVar/Get) under BOTH placeholder policies, with oracles for "
         "verdict, unifier, most-general, earlier bindings, input state unchanged and independence of placeholder contents.",
    note="trusted: Coq kernel + vm_compute; the harness's value encoding/decoding and reference unifier; the hand model is tied by sampling; "
         "content independence holds of the model by construction (contents are not an input) and is checked on the code by the oracle",
    technique="Coq proof (reduction to the verified unification model through an injective encoding) + differential correspondence",
)
