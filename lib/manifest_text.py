"""Texts of MANIFEST.json per property."""
HOOK_COMMITS = ["42f5bf3", "8269423"]
NOTES = ("Machine-checked proof in Coq 8.16.1. Each check rebuilds the Coq closure of coq/Props/<ID>.v, rebuilds the Go harness "
         "against /repo's working tree, runs implementation and Gallina model on the same generated cases and applies the violation "
         "protocol of DESIGN.md 2.4. known_findings.json lists genuine unrepaired defects (kind=known) and repaired ones (kind=fixed).")
NA = {}
TEXT = {}
TEXT["C16"] = dict(
    text="Theorems (Coq kernel, no axioms) over a struct-level model of ast.Compare/Equal/Sort that covers exotic structs: reflexive, "
         "zero iff DeepEqual, antisymmetric, transitive, total, Less is a strict weak order, two sorted permutations of one multiset are "
         "identical (canonical form). The four Compare methods are RE-TRANSLATED from sexpr/ast/compare.go on every run (harness/cmd/gencompare -> "
         "coq/gen/CompareGen.v: the nil preamble and the chain of component comparisons in the order the code tries them; the helper functions are "
         "checked against their expected shape) and the theorems are re-proved over what the code says now, for any order of the components - a "
         "dropped field breaks `compare = 0 -> equal`, a foreign statement stops the translator. The struct types, strings.Compare and the scalar "
         "comparisons are hand-modelled; the whole is also tied to sexpr/ast by differential execution on generated pairs/triples/slices "
         "and direct order-law oracles on all sub-expression triples.",
    note="trusted: Coq kernel + vm_compute; the translator gencompare; sort.Sort (its output is checked to be a sorted permutation); float64 represented by an "
         "order-isomorphic integer key (NaN excluded); struct types and scalar comparisons tied by sampling, not proof",
    technique="translation of compare.go to Coq on every run + Coq proof (lawful three-way comparisons, lexicographic products, induction over the mutual SExpr/Pair structure) + differential correspondence",
)

TEXT["C01"] = dict(
    text="Theorems (Coq kernel, no axioms) over micro's walk/occurs/exts/unify/EqualO with explicit recursion-depth fuel: on success the result is the "
         "old substitution with pairs appended, its solution set is exactly the set of unifiers of the two terms compatible with the old bindings "
         "(unifier + most general), Fail implies no finite unifier exists, the goal yields 0/1 states with the counter unchanged, termination and "
         "acyclicity preservation on consistent states; stated for all terms, all substitutions and all fuel. The functions are TRANSLATED from "
         "micro/walk.go, exts.go, unify.go on every run (harness/cmd/genmicro: statement by statement into a result monad with out-of-fuel and panic "
         "outcomes; nil dereference, Car/Cdr of an atom and index out of range are Panic) and proved equal to the readable model (C01_code_is_model), "
         "so the theorems are about the text of /repo as it is now (C01_code_mgu, C01_code_fail, C01_code_total, C01_code_wf) and the code never "
         "panics on any input (C01_code_never_panics); the goal EqualO (micro/goal.go) is translated as a function of its terms and the state (C01_code_goal). Second tie: differential execution of the real functions (unify, EqualO, walk, occurs, exts, "
         "walkStar through a verif-tagged export file) against the model and an independent reference-unifier oracle (verdict, unifier, most "
         "general up to renaming, earlier bindings kept, input not mutated); it is also the failing-input search when a changed source breaks the equivalence proof.",
    note="trusted: Coq kernel + vm_compute; the translator genmicro and the primitives of GoLite.v (terms as an inductive type: a nil *SExpr is the empty list, "
         "a variable is its Index, a nil and an empty slice are both []; reflect.DeepEqual on atoms is atom_eqb); harness interning of symbols; the reference unifier used as oracle",
    technique="translation of the Go functions to Gallina on every run + Coq proof (equivalence with the model; induction on fuel, solution-set semantics of triangular substitutions) + differential correspondence",
)

_PROG_NOTE = ("trusted: Coq kernel + vm_compute; the harness's goal-AST interpreter (real combinators), its reference search and the Coq-side "
              "trace evaluation with constant unify fuel 400 (EvErr is reported, never accepted); mature cells' lazy tails modelled as computed tails; "
              "the hand model of Mplus/Bind/eval is tied by sampling (cell traces of generated programs), not by proof")
TEXT["C02"] = dict(
    text="Theorem C02_sound (Coq kernel, no axioms), for every goal program over the full combinator set (recursive relations, conj+/disj+/conde, "
         "ifte, once), every relation table, every consistent start state: every state at a finite position of the answer stream extends the "
         "start state, is consistent, and every valuation solving it makes the goal's formula (inductive logical reading Den) true; corollaries for "
         "take(n) and for unsatisfiable formulas. The stream/thunk search model is tied to micro/mini on every run by comparing exact cell traces "
         "(suspension / answer / end) of generated goal programs run with the real combinators, plus an independent reference-search oracle.",
    note=_PROG_NOTE,
    technique="Coq proof (strong induction on the number of forces, structural induction on the goal) + differential cell-trace correspondence",
)
TEXT["C03"] = dict(
    text="Theorems (Coq kernel, no axioms) for relational goals over guard-shaped relation tables: C03_complete - every solution of the formula is an "
         "instance of an answer at a finite position whatever sibling branches do (fair mplus/bind lemmas in both argument positions); "
         "C03_total_force - no force of a guarded program gets stuck; take(n) laws: at most n, fewer only if exhausted, exactly n when available, "
         "all for negative n iff finite, prefix of n+1, deterministic. takeStream is translated from micro/stream.go on every run (genmicro -stream; CarCdr as one "
         "step of the stream model) and proved equal to the model take, so the count clauses are theorems about the text (C03_code_take_is_model, "
         "C03_code_at_most_n, C03_code_fewer_only_if_exhausted, C03_code_all_for_negative_n, C03_code_take_never_panics); Mplus and Bind are translated too (their closures read into the "
         "defunctionalised thunks TMplus / TBind) and proved to be the model's mplus / bindk, panic-free, never running an immature cell they merely inspect (C03_code_mplus_is_model, "
         "C03_code_bind_is_model, C03_code_suspensions_not_run), as are the goal constructors Disj, Conj, Zzz and CallFresh (C03_code_disj_conj_are_eval, C03_code_disj_conj_return, C03_code_zzz_fresh_are_eval). Tie for the programs built from all of these: exact cell traces + take(n) prefix/exact-n/determinism oracles on the "
         "real code, with process isolation so that a diverging implementation is an observation.",
    note=_PROG_NOTE + "; multiplicities in infinite streams are stated at set level (InStream), multisets for finite streams",
    technique="Coq proof (induction on the Den derivation with fairness lemmas; induction on take fuel) + translation of takeStream to Gallina on every run + differential cell-trace correspondence",
)
TEXT["C09"] = dict(
    text="Theorems (Coq kernel, no axioms): DisjPlusNoZzz is the nested binary disjunction (stream equality); ConjPlusNoZzz has the identical cell trace as "
         "nested Conj (bisimulation up to thunk labels); the Zzz variants and Conde have the same answers (and for finite streams permutation-equal answer "
         "lists); empty conj succeeds once, empty disj fails; ifte = c-and-then-t with all answers of c when c has an answer, = e when c fails finitely, "
         "silent when c is silent; once = the first answer, at most one. DisjPlus, DisjPlusNoZzz, ConjPlus, ConjPlusNoZzz and Conde are translated from mini/disj.go, conj.go, "
         "conde.go on every run (genmicro -mini: functions from argument slices to the goal value returned; the returned function literals must be the bodies of micro.Disj / micro.Conj) "
         "and proved to return the right-nested binary form of the (delay-wrapped) arguments for every list, without panics (C09_code_is_nested, C09_code_conde, C09_code_never_panics); the "
         "answer clauses are proved for these goals (C09_code_disj_zzz_stream, C09_code_disj_zzz_answers, C09_code_conj_zzz_answers, C09_code_conde_answers). Tie for IfThenElseO / OnceO and the "
         "micro operators underneath: cell traces of n-ary programs with failing/diverging/infinite arguments in "
         "every position, and the implementation against its own macro expansion.",
    note=_PROG_NOTE,
    technique="Coq proof (stream bisimulation, membership lemmas for mplus/bind, induction on loop derivations) + translation of mini's n-ary combinators to Gallina on every run + differential correspondence",
)

TEXT["C04"] = dict(
    text="Three layers, all Coq-kernel checked without axioms. (0) gen/GominiGen.v is TRANSLATED from gomini/unify.go on every run (genmicro -gomini: walk, hasCycle, isLeaf, unify, rewrite, "
         "statement by statement into a result monad with out-of-fuel and panic outcomes; State.CastVar/Get/Set and the reflect / reflecttools calls with their closures are primitives over the model of C18) "
         "and proved equal to the readable transcription for all inputs and fuel (C04_gen_is_transcription), so the theorems below hold of the text of /repo as it is now (C04_gen_is_unify, "
         "C04_gen_mgu, C04_gen_fail) and the code never panics (C04_gen_never_panics). (1) GCore.v transcribes gomini/unify.go branch by branch - walk, CastVar, hasCycle through reflecttools.Any, isLeaf + "
         "reflect.DeepEqual, and the descent through reflecttools.ZipReduce with the state as accumulator - over the reflecttools value model of C18; theorem C04_code_is_unify: on "
         "pointer-shaped values (nil pointers, pointers to scalars, pointers to structs, slices, registered variable pointers; in interface-typed fields and elements any of these or the untyped nil) that transcription computes exactly what micro's verified "
         "unify computes on the term encoding of the values, for every fuel and every state; hence C04_code_ok (earlier bindings kept; the solutions of the result are exactly the unifiers "
         "of the two values compatible with the old state: most general), C04_code_fail (failure only when no finite unifier exists), C04_code_equalo (0 or 1 state), C04_code_wf. "
         "(2) The algebraic layer on an injective encoding (variables by registration, never by placeholder contents): C04_mgu, C04_preserves, C04_resolve_equal, C04_fail, C04_total, C04_wf, "
         "C04_encoding_faithful. Tie: differential execution of the TRANSCRIPTION and of the encoding model against the real EqualO through the exported API (NewVar/Set/EqualO/CastVar/Get) "
         "under BOTH placeholder policies and two memory layouts (fresh nodes / equal sub-values shared and list prefixes aliasing one backing array), with oracles for verdict, unifier, "
         "most-general, earlier bindings, input state unchanged and independence of placeholder contents.",
    note="trusted: Coq kernel + vm_compute; the translator genmicro and the primitives of GoLiteG.v; the reflecttools model Reflect.v (tied to reflecttools by C18); the harness's value encoding/decoding and reference unifier; "
         "the transcription is tied to the Go code by translation + proof and, independently, by differential execution; content independence holds of the model by construction (placeholder contents are not an input) and is checked on the code by the oracle; termination of the "
         "transcription is inherited only for definite results (out-of-fuel is a distinguished outcome), totality is proved for the encoding layer (C04_total)",
    technique="translation of gomini/unify.go to Gallina on every run + Coq proof (equality with the transcription; refinement of the transcription to the verified unification model; induction on fuel with a fold lemma for ZipReduce) + differential correspondence",
)

TEXT["C08"] = dict(
    text="Theorems (Coq kernel, no axioms) over the model of micro's reifyS/ReifyIntVarFromState/MKReify/Run: the reified answer is the fully resolved query "
         "(no bound variable remains) with the k-th distinct unbound variable, left to right, replaced by _k (same variable same name); no variable leaks; "
         "alpha-equivalent answers reify identically; reification terminates on consistent states; Run = map of reify over take. walkStar, reifys and reifyS are translated from "
         "micro/walk.go and micro/reify.go on every run (genmicro) and proved equal to the model, panic-free (C08_code_is_model, C08_code_reify_var). gomini part: GCore.v transcribes rewrite "
         "(walk, CastVar, reflecttools.Map) over the reflecttools value model of C18 - struct fields, slice elements, Go map values, interface-typed slots; C08g_code_resolved: "
         "nothing reachable in the answer through the containers Map descends into is a bound variable, unbound variables stay their own placeholders; C08g_code_kind: the answer has the "
         "kind of the walked query (never a bare key); rewrite as translated from gomini/unify.go on every run equals the transcription (C08g_gen_is_transcription, C08g_gen_resolved); C08g_resolved for the term encoding. Tie: differential execution of reifyS/Reify/Run; for gomini.Run the transcription (gunify over "
         "the goal's equations, then grewrite of the query) is evaluated in Coq on the same programs and compared with the real answers (values with leaves in struct fields, slices, maps and "
         "nested records; variables bound directly, through chains, or not at all), plus direct oracles (dynamic Go type of the query, resolvedness, placeholder identity of unbound variables, "
         "caller terms unmodified).",
    note="trusted: Coq kernel + vm_compute; harness encoders and reference unifier; hand models and the transcription are tied by sampling; that Run does not write the caller's terms is a memory-level fact "
         "checked by the harness (and by C18's Map freshness), not by the functional model",
    technique="Coq proof (first-occurrence renaming characterisation of reifys; induction over the transcribed rewrite) + differential correspondence + oracles",
)
TEXT["C13"] = dict(
    text="The relation bodies of mini.AppendO/NullO/ConsO/CarO/MemberO/MapO and gomini concato.ConcatO/PrependO are re-translated from the Go source on every run "
         "into goal ASTs, and the theorems are re-checked against them (Coq kernel, no axioms): AppendO/ConcatO denote list concatenation (and a list of length n "
         "has exactly n+1 splits), MemberO membership, MapO element-wise f for an arbitrary relation f, the two engines' relations agree, the unrolled variants "
         "denote the same relations; via C02/C03 every answer's instances satisfy the relation and every satisfying tuple is an instance of an answer at a finite "
         "position, whichever arguments are unknown. Tie: translation + cell traces of the REAL relations in every argument mode against the translated bodies + "
         "list-function oracles.",
    note="trusted: Coq kernel; the translator genrels (cross-checked by running the real relations against its output); harness oracles; "
         "gomini ConcatO's concurrent execution is covered by C06",
    technique="translation of the Go relation DSL to Coq + Coq proof (least-fixed-point induction on Den) + differential correspondence",
)
TEXT["C19"] = dict(
    text="example/peano's Succ/Natplus/Leq/Half are re-translated from peano.go on every run and the theorems re-checked (Coq kernel, no axioms): Natplus(x,y,z) iff "
         "x+y=z, Leq iff x<=y, Half iff y = x/2, general (non-ground) denotations, Makenat/Parsenat mutually inverse on Peano-shaped terms; via C02/C03 every "
         "instantiation of an answer by naturals is a satisfying tuple and every satisfying tuple is an instance of an answer at a finite position. Tie: translation + "
         "cell traces of the real relations in all modes on naturals <= 6 + arithmetic oracles on instantiated answers.",
    note="trusted: Coq kernel; the translator genrels; harness oracles",
    technique="translation of the Go relation DSL to Coq + Coq proof + differential correspondence",
)
TEXT["C05"] = dict(
    text="Invariant theorem (Coq kernel, no axioms) over an address/allocation/GC transition system with an arbitrary collector and allocator: if the state retains "
         "its placeholders then in every reachable world every listed variable is live and no later allocation is classified as a variable, for every interleaving of "
         "NewVar/drop/GC/alloc; the numbers-only representation is refuted by a 4-step schedule. The model's single abstraction (placeholder reachable from a listing "
         "state) is probed on the real code: finalizers on placeholders of single lineages and of trees of sibling / cousin states kept alive together, CastVar of fresh constants after forced GC, ConcatO answer multisets under GC-percent sweeps "
         "with GC forced at every goal boundary.",
    note="partial: what the real Go collector/allocator do is runtime behaviour that the model cannot exhibit; trusted: Go GC frees only unreachable objects and does not move them",
    technique="Coq invariant proof over an LTS (all schedules) + runtime probes (finalizers, forced GC)",
)
TEXT["C18"] = dict(
    text="Case-by-case model of reflecttools.Map/Any/ZipReduce over a value universe (nil interface, nil/non-nil pointers, struct pointers, slices, maps, scalars) with call "
         "logs; theorems (Coq kernel, no axioms): identity Map returns the value itself, f applied exactly once per field/element/map value in index order (maps up to "
         "permutation), shape preserved, Any iff some child satisfies the predicate with short-circuit log, ZipReduce = left fold with early exit at the first zero, zero on "
         "shape mismatch or exactly one nil, init on both nil. Tie: differential execution with call-logging functions over a family of Go types, plus freshness / "
         "argument-unmodified / deep-equality oracles.",
    note="trusted: Coq kernel + vm_compute; package reflect is modelled not verified; types are not modelled",
    technique="Coq proof (case analysis / list induction over the reflect model) + differential correspondence",
)

TEXT["C10"] = dict(
    text="Theorems (Coq kernel, no axioms) with the scheduler's choices as universally quantified inputs: for EVERY arrival permutation concurrent.DisjPlus / "
         "DisjPlusZzz build exactly the stream of mini.DisjPlusNoZzz / mini.DisjPlus (stream equality, hence the same sequence on every run); DisjPlusNoOrder has the "
         "same answers and for finite streams a permutation-equal answer list; for EVERY select pick sequence ConjPlus returns either the sequential bind stream or nil, "
         "and nil only when some goal fails immediately, in which case (soundness+completeness of the search) the sequential conjunction has no answer either. Tie: cell "
         "traces of the concurrent combinators under injected delays / GOMAXPROCS / repeated runs against the sequential model; thorough tier also under the race detector.",
    note="partial: data-race freedom is a statement about the Go memory model that the model cannot exhibit (race-detector run is supporting validation); Go scheduler and channels trusted",
    technique="Coq proof (schedule as explicit input: permutations / pick lists; monotonicity of immediate failure via soundness+completeness) + differential correspondence",
)
TEXT["C11"] = dict(
    text="LTS models with schedules as label lists (Coq kernel, no axioms): ConjPlus/DisjPlus message protocol - with buffered channels (cap >= n, cap2 >= 1) no send ever blocks "
         "and terminal configurations have no live sender, for every schedule and early-return point; exact leak law and worst case for unbuffered channels (refutation); "
         "post-cancel execution - with Go refusing to spawn under a cancelled context the remaining steps are bounded by the remaining syntactic size and nothing blocks, "
         "without it a recursive relation spawns unboundedly (refutation); the limiter ticker exits within 2 steps after cancel iff its send is guarded. Tie: goroutine-count "
         "deltas of the real code after searches end / are cancelled at 0..k answers, with and without SetMaxRoutines, one process per case.",
    note="partial: 'bounded time' is bounded steps in the model, wall-clock is runtime; the protocol models are hand abstractions of conj.go / limit.go / stream.go checked only through the goroutine-count oracle",
    technique="Coq invariant/measure proofs over LTS models (all schedules) + goroutine-leak probes on the real code",
)
TEXT["C12"] = dict(
    text="Permit/ticker LTS composed with a task tree (parents hold a permit while waiting for children), schedules as label lists (Coq kernel, no axioms): with a non-blocking "
         "release a release step is always enabled; for every max >= 1 every schedule of a finite task tree terminates (strictly decreasing measure incl. ticks) and no non-final "
         "configuration is stuck; limited runs project onto unlimited runs and every complete run delivers a permutation of all answers; blocking release is refuted by a concrete "
         "deadlock schedule (max = 1), and so is the check-then-act hand-back `if len(ch)==cap(ch) {return}; ch <- x` (two goroutines finishing together: the second send blocks under every continuation), and so is starting the ticker before the initial fill (for every max a tick during the fill blocks the last send; the repaired order completes with exactly max permits). "
         "Tie: real ConcatO searches under SetMaxRoutines(max), max in 1..100 and in the millions, must finish with the unlimited multiset; the limit installed twice; searches on cancelled children of the limited context; one limited context reused for several searches with idle refill periods; "
         "disjunctions whose sibling branches finish at the same instant under max in 1..3.",
    note="partial: timing relative to the 10ms refill period is runtime; the limiter model is a hand abstraction of limit.go checked through the termination/multiset oracle",
    technique="Coq measure/simulation proofs over an LTS (all schedules) + runtime probes",
)
TEXT["C17"] = dict(
    text="Theorems (Coq kernel, no axioms) about the goal terms RE-TRANSLATED from gomini/regex/*.go on every run (NullO, IsNullO, DerivO, DeriveCharO, SDerivO, "
         "SimpleOrO, SimpleConcatO, the Is* shape tests, SDerivOs, MatchO, IsMatchO), against the inductive language semantics of regular expressions over {a,b}, "
         "for EVERY ground expression and string: NullO(r,out) holds exactly for out = EmptyStr if r accepts the empty string and EmptySet otherwise (one verdict); "
         "IsNullO(r) iff r accepts the empty string; every answer of DerivO / SDerivO denotes the Brzozowski derivative and the textbook (resp. simplified) derivative is an answer; "
         "SDerivOs likewise for a whole string; IsMatchO(r,s) has an answer iff s is in the language of r; MatchO(r,s,res) holds exactly for res = EmptyStr when s is in the "
         "language and EmptySet otherwise - never both, never neither. Proof: least-fixed-point induction over the relation table (soundness of every derivable call) and "
         "induction on the expression/string (existence). Tie: translation on every run + ALL answers of the real relations on ground regexes over {a,b} and strings of "
         "length <= 3 under both placeholder policies against a direct Brzozowski matcher and a language-equivalence check, generation mode for the first n answers; an exhaustive "
         "sweep (all expressions with <= 4 nodes, every relation) is the failing-input search when a proof breaks.",
    note="trusted: the translator genrels (a regular expression is encoded by constructor, unification-equivalent to the 4-field Go struct for values built by the package's constructors); "
         "the harness's direct matcher/equivalence oracle; the step from the logical reading Den to the answers gomini returns under every schedule is C06 (and C02/C03 for the shared search model)",
    technique="translation of the Go relation DSL to Coq on every run + Coq proof (least-fixed-point induction, structural induction) + oracle comparison on the real code",
)
TEXT["C14"] = dict(
    text="Theorems (Coq kernel, no axioms) over the gocc tables and the grammar re-transcribed from /repo on every run: boolean validators of the "
         "lexer DFA and of the LR tables hold (vm_compute over the finite tables) and imply, for EVERY byte string and every behaviour of the "
         "strconv oracles: each Scan consumes at least one byte and returns a real token, the literals partition the input, Parse never panics "
         "(no index out of range, gotoTab -1, short stack, wrong attribute type, empty literal), terminates within linear fuel, and accepts only "
         "token lists that sexpr.bnf's productions generate, with exactly the tree of the semantic actions (C14_safe_sound). The other direction "
         "is proved too: every sentence is accepted with the grammar's tree (C14_complete, LR(1) item-set validator + simulation; C14_exact, "
         "C14_unambiguous), and the DFA of the tables cuts every byte string into exactly the tokens of sexpr.bnf's token regular expressions "
         "(C14_lexer_is_grammar: a computed bisimulation certificate between DFA states and vectors of Brzozowski derivatives, validated on one "
         "representative per character class and lifted to all runes; C14_exact_bnf combines both levels with no table in the statement). "
         "The tie to the code: sexpr.Parse / lexer.Scan against the table drivers AND against the "
         "regular-expression lexer + recursive descent derived from sexpr.bnf, on grammar sentences, single edits, random bytes with invalid "
         "UTF-8 and all short strings over the token alphabet. The generator-conformance clause is decided by rebuilding gocc offline, "
         "regenerating from sexpr.bnf and diffing.",
    note="trusted: Coq kernel + vm_compute; the translator lib/gen_tables.py; strconv.Unquote/ParseFloat as recorded oracles; utf8.DecodeRune "
         "modelled; gocc itself (used only for the regeneration diff); the hand-written drivers LexDriver/LRDriver are tied to lexer.go/parser.go by sampling",
    technique="Coq proof (validator + invariant over all reachable parser configurations, Jourdan-Pottier-Leroy style) over regenerated tables + differential correspondence + gocc regeneration diff",
)
TEXT["C15"] = dict(
    text="Theorem C15_print_is_sentence (Coq kernel, no axioms): for EVERY S-expression over printable atoms - proper lists, dotted pairs, improper "
         "lists of any length, nested empty lists - the token list that the model of String() prints is a sentence of the grammar re-transcribed "
         "from sexpr.bnf, and the tree the semantic actions build for it is the printed expression itself (same pair structure, same atoms at the "
         "same positions); with C14's parser theorems this gives the round trip. Per-atom facts (strconv.Quote/Unquote, FormatInt/ParseInt, the "
         "text lexes as one token of its class) are hypotheses validated on every generated atom. Tie: e.String() -> sexpr.Parse -> String() on "
         "generated expressions against the printer model, the table drivers and the grammar; stability print(parse(s)) on accepted inputs.",
    note="trusted: as C14; atom texts are oracle inputs (strconv); floats are outside the round-trip clause (a positive float prints as text that "
         "lexes as a symbol) and are covered by the text-stability oracle only",
    technique="Coq proof (structural induction on the expression, one lemma per production) over the regenerated grammar + differential correspondence",
)


TEXT["C07"] = dict(
    text="Theorems (Coq kernel, no axioms) over a MEMORY-LEVEL model (heap of mutable objects; a micro substitution is a slice (array,len,cap), a "
         "gomini state a struct of map references, a stream cell {state,proc,mem}; every operation returns its write log): for every history - "
         "a tree of versions in which any published value may be extended again, so sibling branches and every evaluation order are covered - "
         "each write of exts/Set/NewVar as the code performs them targets an object allocated by that same operation, every value published "
         "earlier shows the same bindings afterwards, sibling extensions are independent of what ran in between, re-running gives the same "
         "result, CarCdr is memoised and re-traversal returns the same sequence; refutations for append-based exts and in-place Set; "
         "Substitutions.String()'s in-place sort is harmless for distinct keys. CarCdr itself is translated from micro/stream.go on every run "
         "(harness/cmd/gencell -> gen/CellGen.v, a term of the statement language of CellLang.v) and proved to BE the model's carcdr on every heap "
         "and cell (same result, heap and writes; never panics): C07_code_carcdr_is_model, C07_code_memo - a proof by cases on what the method does, "
         "so a rewrite that keeps the behaviour keeps the proof. Tie for the rest: random histories of the REAL exts / NewState / Set / "
         "NewVar compared with the model's views of every published value, plus snapshot oracles (input state, every earlier answer, "
         "re-traversal, re-run) on micro programs over slices with spare capacity, gomini goal trees run concurrently, and concurrent.DisjPlus/ConjPlus.",
    note="partial in this sense: the theorems are about the transcribed write sets; that the Go functions perform no other writes is checked by the "
         "harness's snapshots (and the race detector, a small run in the quick tier and a larger one in the thorough tier), not proved - except for CarCdr, whose text is translated. Trusted: Coq kernel + vm_compute; the translator gencell; the harness",
    technique="Coq proof (invariant by induction over histories of a heap model with write logs) + translation of CarCdr to a deep-embedded statement language on every run + differential correspondence on histories + snapshot oracles",
)


TEXT["C06"] = dict(
    text="Theorems (Coq kernel, no axioms): Runs g st outs is the inductive set of output sequences an invocation g(ctx,st,ss) can write over ALL "
         "goroutine schedules (one rule per combinator of gomini/operators.go and ifthenelse.go: interleavings for DisjO/Mplus, per-answer binds "
         "for ConjO/Bind, ExistO, IfThenElseO); C06_multiset: every such sequence is a permutation of the sequential answer list gseq (no answer "
         "lost, duplicated or invented), hence any two schedules agree; the sequential order is itself a schedule (the search can finish, after "
         "which the creator closes the stream); C06_infinite_sound: every state of every PARTIAL run under any schedule extends the input, is "
         "consistent and satisfies the goal's formula; same multiset as the micro search for programs both engines run; ChanKernel: in every "
         "reachable configuration of the channel/WaitGroup protocol of a DisjO node no send hits a closed channel, the channel is closed once, "
         "the WaitGroup counter is never negative and close happens after all writers returned, a configuration whose consumer keeps reading is "
         "never stuck (refuted when Add is done inside the child goroutine). Tie: generated goal programs built with the REAL gomini combinators "
         "and run through gomini.Run under GOMAXPROCS {1,2,4,16} x injected yields/sleeps x placeholder policy x routine limit: answer multiset "
         "against gseq evaluated in Coq and a reference search, all schedules agree, channel closed after the last answer; for infinite searches "
         "the first n answers must satisfy the formula.",
    note="partial: the Go scheduler, channel implementation, memory model, the limiter and cancellation races are runtime; the theorems quantify over "
         "all schedules of the model's step relations, the harness samples real ones (and runs under the race detector in the thorough tier). "
         "Trusted: Coq kernel + vm_compute; the harness",
    technique="Coq proof (induction over the schedule-indexed Runs relation against a list-monad reference; invariant over all label sequences of a channel/WaitGroup LTS) + differential correspondence under schedule sweeps",
)
