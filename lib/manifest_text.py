"""Texts of MANIFEST.json per property."""
HOOK_COMMITS = ["42f5bf3"]
NOTES = ("Machine-checked proof in Coq 8.16.1. Each check rebuilds the Coq closure of coq/Props/<ID>.v, rebuilds the Go harness "
         "against /repo's working tree, runs implementation and Gallina model on the same generated cases and applies the violation "
         "protocol of DESIGN.md 2.4. known_findings.json lists genuine unrepaired defects (kind=known) and repaired ones (kind=fixed).")
NA = {}
TEXT = {}
TEXT["C16"] = dict(
    text="Theorems (Coq kernel, no axioms) over a struct-level model of ast.Compare/Equal/Sort that covers exotic structs: reflexive, "
         "zero iff DeepEqual, antisymmetric, transitive, total, Less is a strict weak order, two sorted permutations of one multiset are "
         "identical (canonical form). The model is tied to sexpr/ast on every run by differential execution on generated pairs/triples/slices "
         "and direct order-law oracles on all sub-expression triples.",
    note="trusted: Coq kernel + vm_compute; sort.Sort (its output is checked to be a sorted permutation); float64 represented by an "
         "order-isomorphic integer key (NaN excluded); the hand model is tied by sampling, not proof",
    technique="Coq proof (induction over the mutual SExpr/Pair structure, lawful three-way comparisons) + differential correspondence",
)

TEXT["C01"] = dict(
    text="Theorems (Coq kernel, no axioms) over a branch-by-branch transcription of micro's walk/occurs/exts/unify/EqualO with explicit "
         "recursion-depth fuel: on success the result is the old substitution with pairs appended, its solution set is exactly the set of "
         "unifiers of the two terms compatible with the old bindings (unifier + most general), Fail implies no finite unifier exists, the goal "
         "yields 0/1 states with the counter unchanged; stated for all terms, all substitutions and all fuel. The model is tied to the code on "
         "every run by differential execution (unify, EqualO, walk, occurs, exts, walkStar through a verif-tagged export file) and an "
         "independent reference-unifier oracle (verdict, unifier, most general up to renaming, earlier bindings kept, input not mutated).",
    note="trusted: Coq kernel + vm_compute; harness interning of symbols; the reference unifier used as oracle; the hand model is tied by sampling. "
         "Termination/acyclicity-preservation theorems (C01_total, C01_wf) are in UnifyWf.v when present",
    technique="Coq proof (induction on fuel, solution-set semantics of triangular substitutions) + differential correspondence",
)
