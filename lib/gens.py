"""Translators run on every check: Go relation DSL -> coq/gen/Rel*.v ; parser tables -> coq/gen/Tables.v."""
import os
import vcommon as vc


def gen_rels():
    os.makedirs(vc.BUILD, exist_ok=True)
    import shutil
    shutil.copy(os.path.join(vc.REPO, "go.sum"), os.path.join(vc.HARNESS, "go.sum"))
    binp = os.path.join(vc.BUILD, "genrels")
    rc, out = vc.run(["go", "build", "-o", binp, "./cmd/genrels"], cwd=vc.HARNESS, timeout=600, env=vc.GOENV)
    if rc != 0:
        return False, "genrels does not build: " + out[-1500:]
    rc, out = vc.run([binp, vc.REPO, os.path.join(vc.COQ, "gen")], cwd=vc.VERIF, timeout=120, env=vc.GOENV)
    if rc != 0:
        return False, "genrels: " + out[-1500:]
    return True, ""
