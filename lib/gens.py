"""Translators run on every check: Go relation DSL -> coq/gen/Rel*.v ; parser tables -> coq/gen/Tables.v."""
import os
import vcommon as vc


def gen_rels():
    os.makedirs(vc.BUILD, exist_ok=True)
    import shutil
    shutil.copy(os.path.join(vc.REPO, "go.sum"), os.path.join(vc.HARNESS, "go.sum"))
    binp = os.path.join(vc.BUILD, "genrels")
    rc, out = vc.run(["go", "build", "-o", binp, "./cmd/genrels"], cwd=vc.HARNESS, timeout=600, env=vc.GOENV)
    if rc != 0:
        return False, "genrels does not build: " + out[-1500:]
    rc, out = vc.run([binp, vc.REPO, os.path.join(vc.COQ, "gen")], cwd=vc.VERIF, timeout=120, env=vc.GOENV)
    if rc != 0:
        return False, "genrels: " + out[-1500:]
    return True, ""


def gen_compare():
    """sexpr/ast/compare.go -> coq/gen/CompareGen.v (the Compare methods as lexicographic chains, in the code's order)."""
    os.makedirs(vc.BUILD, exist_ok=True)
    binp = os.path.join(vc.BUILD, "gencompare")
    rc, out = vc.run(["go", "build", "-o", binp, "./cmd/gencompare"], cwd=vc.HARNESS, timeout=600, env=vc.GOENV)
    if rc != 0:
        return False, "gencompare does not build: " + out[-1500:]
    rc, out = vc.run([binp, vc.REPO, os.path.join(vc.COQ, "gen")], cwd=vc.VERIF, timeout=120, env=vc.GOENV)
    if rc != 0:
        return False, "gencompare: " + out[-1500:]
    return True, ""


def gen_micro():
    """micro/walk.go, exts.go, unify.go, reify.go -> coq/gen/MicroGen.v (statement-by-statement translation into the result monad of GoLite.v)."""
    os.makedirs(vc.BUILD, exist_ok=True)
    binp = os.path.join(vc.BUILD, "genmicro")
    rc, out = vc.run(["go", "build", "-o", binp, "./cmd/genmicro"], cwd=vc.HARNESS, timeout=600, env=vc.GOENV)
    if rc != 0:
        return False, "genmicro does not build: " + out[-1500:]
    rc, out = vc.run([binp, vc.REPO, os.path.join(vc.COQ, "gen")], cwd=vc.VERIF, timeout=120, env=vc.GOENV)
    if rc != 0:
        return False, "genmicro: " + out[-1500:]
    return True, ""


def gen_gomini():
    """gomini/unify.go -> coq/gen/GominiGen.v (the gomini dialect of genmicro: reflecttools calls as the primitives of GoLiteG.v)."""
    os.makedirs(vc.BUILD, exist_ok=True)
    binp = os.path.join(vc.BUILD, "genmicro")
    rc, out = vc.run(["go", "build", "-o", binp, "./cmd/genmicro"], cwd=vc.HARNESS, timeout=600, env=vc.GOENV)
    if rc != 0:
        return False, "genmicro does not build: " + out[-1500:]
    rc, out = vc.run([binp, "-gomini", vc.REPO, os.path.join(vc.COQ, "gen")], cwd=vc.VERIF, timeout=120, env=vc.GOENV)
    if rc != 0:
        return False, "genmicro -gomini: " + out[-1500:]
    return True, ""


def gen_stream():
    """micro/stream.go (takeStream) -> coq/gen/StreamGen.v (the stream dialect of genmicro: CarCdr as one step of the stream model)."""
    os.makedirs(vc.BUILD, exist_ok=True)
    binp = os.path.join(vc.BUILD, "genmicro")
    rc, out = vc.run(["go", "build", "-o", binp, "./cmd/genmicro"], cwd=vc.HARNESS, timeout=600, env=vc.GOENV)
    if rc != 0:
        return False, "genmicro does not build: " + out[-1500:]
    rc, out = vc.run([binp, "-stream", vc.REPO, os.path.join(vc.COQ, "gen")], cwd=vc.VERIF, timeout=120, env=vc.GOENV)
    if rc != 0:
        return False, "genmicro -stream: " + out[-1500:]
    return True, ""


def gen_loops():
    """mini/ifthenelse.go, mini/once.go -> coq/gen/LoopsGen.v (the stream dialect of genmicro over the loops of IfThenElseO / OnceO; needs gen/StreamGen.v)."""
    ok, msg = gen_stream()
    if not ok:
        return ok, msg
    binp = os.path.join(vc.BUILD, "genmicro")
    rc, out = vc.run([binp, "-loops", vc.REPO, os.path.join(vc.COQ, "gen")], cwd=vc.VERIF, timeout=120, env=vc.GOENV)
    if rc != 0:
        return False, "genmicro -loops: " + out[-1500:]
    return True, ""


def gen_cell():
    """micro/stream.go (CarCdr) -> coq/gen/CellGen.v (a term of the statement language of CellLang.v)."""
    os.makedirs(vc.BUILD, exist_ok=True)
    binp = os.path.join(vc.BUILD, "gencell")
    rc, out = vc.run(["go", "build", "-o", binp, "./cmd/gencell"], cwd=vc.HARNESS, timeout=600, env=vc.GOENV)
    if rc != 0:
        return False, "gencell does not build: " + out[-1500:]
    rc, out = vc.run([binp, vc.REPO, os.path.join(vc.COQ, "gen")], cwd=vc.VERIF, timeout=120, env=vc.GOENV)
    if rc != 0:
        return False, "gencell: " + out[-1500:]
    return True, ""


def gen_mini():
    """mini/disj.go, conj.go, conde.go -> coq/gen/MiniGen.v (the mini dialect of genmicro: combinators as functions from goal lists to goal terms)."""
    os.makedirs(vc.BUILD, exist_ok=True)
    binp = os.path.join(vc.BUILD, "genmicro")
    rc, out = vc.run(["go", "build", "-o", binp, "./cmd/genmicro"], cwd=vc.HARNESS, timeout=600, env=vc.GOENV)
    if rc != 0:
        return False, "genmicro does not build: " + out[-1500:]
    rc, out = vc.run([binp, "-mini", vc.REPO, os.path.join(vc.COQ, "gen")], cwd=vc.VERIF, timeout=120, env=vc.GOENV)
    if rc != 0:
        return False, "genmicro -mini: " + out[-1500:]
    return True, ""


def gen_tables():
    import gen_tables as gt
    return gt.generate(vc.REPO, os.path.join(vc.COQ, "gen"))


def gocc_regeneration():
    """C14, last clause: the checked-in lexer/parser/token/errors/util files are what gocc produces from sexpr.bnf."""
    import gen_tables as gt
    import tempfile
    scratch = tempfile.mkdtemp(prefix="verif-gocc-")
    try:
        return gt.check_gocc(vc.REPO, scratch)
    finally:
        import shutil
        shutil.rmtree(scratch, ignore_errors=True)
