#!/bin/sh
# Builds the framework from files on disk only (offline): translators + generated Coq files, the full Coq development, the Go harness.
set -e
cd "$(dirname "$0")"
export GOFLAGS=-mod=mod GOPROXY=off GOSUMDB=off GOTOOLCHAIN=local
mkdir -p build evidence replays coq/gen
python3 lib/gen_all.py
(cd coq && coq_makefile -f _CoqProject -o Makefile && timeout 3000 make -j16)
cp /repo/go.sum harness/go.sum
(cd harness && go build -tags verif -o ../build/vharness . && go build -o ../build/srcpin ./cmd/srcpin)
echo setup ok
